#!/venv/bin/python
"""tools/verify_small.py <Cxx> <worktree> -> JSON.  Round 8: a sub-agent left THREE small behaviour-preserving edits (seed_out/patch1..3.diff, all applied in
its worktree) and a differential test.  Checks: equiv.py passes, the 62 baseline tests pass with all three applied, each patch applies to HEAD on its
own; then every quick check is run against a clean scratch tree with ONE patch applied at a time (--root, nothing written).  Any non-zero exit is a
false alarm / lost analysis."""
import json, os, subprocess, sys
from concurrent.futures import ThreadPoolExecutor
pid, wt = sys.argv[1], sys.argv[2]
out = os.path.join(wt, "seed_out")
env = dict(os.environ, PYTHONPATH=wt, NUMBA_DISABLE_JIT=os.environ.get("SEED_JIT_OFF", "1"))


def run(cmd, **kw):
    return subprocess.run(cmd, capture_output=True, text=True, **kw)


res = {"property": pid}
r = run(["/venv/bin/python", os.path.join(out, "equiv.py")], cwd=wt, env=env, timeout=3000)
res["equiv"] = [r.returncode, (r.stdout + r.stderr).strip().splitlines()[-2:]]
t = run(["/venv/bin/python", "/verif/tools/baseline.py", wt], timeout=3000)
res["tests"] = t.stdout.strip().splitlines()[:3]
scratch = "/tmp/seed/clean_" + pid
if not os.path.isdir(scratch):
    run(["git", "-C", "/repo", "worktree", "add", "--detach", scratch, run(["git", "-C", wt, "rev-parse", "HEAD"]).stdout.strip()])
res["patches"] = {}
props = ["C%02d" % i for i in range(1, 21) if i != 17]
for n in (1, 2, 3):
    pf = os.path.join(out, "patch%d.diff" % n)
    if not os.path.exists(pf):
        res["patches"][n] = {"missing": True}
        continue
    run(["git", "-C", scratch, "checkout", "--", "."])
    a = run(["git", "-C", scratch, "apply", pf])
    if a.returncode != 0:
        res["patches"][n] = {"applies": False, "err": a.stderr[:200]}
        continue
    stat = run(["git", "-C", scratch, "diff", "--stat", "--", "distance3d"]).stdout.strip().splitlines()[-1:]

    def one(p):
        c = run(["/venv/bin/python", "/verif/sa/check.py", p, "--tier", "quick", "--root", scratch, "--no-write"], cwd="/verif", timeout=1200)
        return p, c
    alarms = {}
    with ThreadPoolExecutor(6) as ex:
        for p, c in ex.map(one, props):
            if c.returncode != 0:
                alarms[p] = {"exit": c.returncode, "lines": [l[:260] for l in c.stdout.splitlines() if l.startswith(("  distance3d", "ANALYSIS-ERROR"))][:6]}
    res["patches"][n] = {"applies": True, "diffstat": stat, "alarms": alarms}
    run(["git", "-C", scratch, "checkout", "--", "."])
print(json.dumps(res, indent=1))
