#!/venv/bin/python
"""tools/alarms.py <tree> [Cxx ...] -> runs the quick checks against another tree (--root, nothing written) in parallel and prints every check that is
not silent (exit != 0) with its report lines.  Used to triage behaviour-preserving refactorings in scratch worktrees."""
import subprocess, sys
from concurrent.futures import ThreadPoolExecutor
root = sys.argv[1]
props = sys.argv[2:] or ["C%02d" % i for i in range(1, 21) if i != 17]


def one(p):
    c = subprocess.run(["/venv/bin/python", "/verif/sa/check.py", p, "--tier", "quick", "--root", root, "--no-write"], capture_output=True, text=True, cwd="/verif")
    lines = [l for l in c.stdout.splitlines() if l.startswith(("  distance3d", "ANALYSIS-ERROR", "      "))]
    return p, c.returncode, lines


with ThreadPoolExecutor(8) as ex:
    res = list(ex.map(one, props))
quiet = True
for p, rc, lines in res:
    if rc != 0:
        quiet = False
        print("%s exit %d" % (p, rc))
        for l in lines[:14]:
            print("   " + l[:330])
print("SILENT" if quiet else "ALARMS")
