#!/venv/bin/python
"""Apply each /verif/benign_seeds/*/patch.diff to /repo, run every quick check (--no-write), undo.  All checks must exit 0: these are
behaviour-preserving refactorings (verified by differential tests), any report is a false alarm.  Sequential; never run two at once."""
import glob, json, os, subprocess, sys
ids = sys.argv[1:] or sorted(os.path.basename(d) for d in glob.glob("/verif/benign_seeds/C*"))
bad = 0
rows = []
jobs = []
for sid in ids:
    d0 = "/verif/benign_seeds/" + sid
    ps = sorted(glob.glob(d0 + "/patch[0-9].diff")) or [d0 + "/patch.diff"]
    for pf in ps:
        jobs.append((sid if len(ps) == 1 else "%s/%s" % (sid, os.path.basename(pf)[:-5]), d0, pf))
for sid, d, patchfile in jobs:
    st = subprocess.run(["git", "-C", "/repo", "status", "--porcelain"], capture_output=True, text=True).stdout.strip()
    if st:
        print("refusing: /repo is not clean"); sys.exit(2)
    a = subprocess.run(["git", "-C", "/repo", "apply", patchfile], capture_output=True, text=True)
    if a.returncode != 0:
        print(sid, "PATCH DOES NOT APPLY", a.stderr[:200]); bad += 1; continue
    alarms = {}
    try:
        from concurrent.futures import ThreadPoolExecutor

        def one(p):
            return p, subprocess.run(["/venv/bin/python", "/verif/sa/check.py", p, "--tier", "quick", "--no-write"], cwd="/verif", capture_output=True, text=True)
        with ThreadPoolExecutor(8) as ex:
            for p, c in ex.map(one, ["C%02d" % i for i in range(1, 21) if i != 17]):
                if c.returncode != 0:
                    alarms[p] = {"exit": c.returncode, "lines": [l[:240] for l in c.stdout.splitlines() if l.startswith(("  distance3d", "ANALYSIS-ERROR"))][:5]}
    finally:
        subprocess.run(["git", "-C", "/repo", "checkout", "--", "."])
    meta = json.load(open(d + "/meta.json"))
    if "/" in sid:
        meta.setdefault("replay", {})[sid.split("/")[1]] = {"alarms": alarms, "silent": not alarms}
    else:
        meta["alarms"] = alarms
        meta["silent"] = not alarms
    json.dump(meta, open(d + "/meta.json", "w"), indent=1)
    print(sid, "silent" if not alarms else "ALARMS %s" % {k: v["exit"] for k, v in alarms.items()})
    rows.append((sid, alarms))
    bad += bool(alarms)
with open("/verif/benign_seeds/RESULTS.md", "w") as f:
    f.write("| refactoring | checks that report (must be none) |\n|---|---|\n")
    for sid, alarms in rows:
        f.write("| %s | %s |\n" % (sid, ", ".join("%s exit %d" % (k, v["exit"]) for k, v in alarms.items()) or "— silent"))
sys.exit(1 if bad else 0)
