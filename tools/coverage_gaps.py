#!/venv/bin/python
"""Blind-spot report: for every property, the functions in its scope (restricted to the property's anchor files) that no rule
instance is keyed to.  A change inside such a function cannot be reported by that property's check."""
import sys, re, json, collections
sys.path.insert(0, "/verif")
from sa.core.index import Index
from sa.check import analyse
from sa.props import scopes
from sa.core.report import _FKEY

props = {json.loads(l)["id"]: json.loads(l) for l in open("/verif/properties.jsonl")}
idx = Index("/repo")
for prop in sys.argv[1:] or sorted(scopes.ENTRY):
    rep = analyse(prop, "quick", "/repo")
    covered = collections.Counter()
    GENERIC = {"R-DUPCOND", "R-UNPACK", "R-PUREARGS", "R-INVENTORY", "R-EAGER", "R-FRAME", "R-DEGREE", "R-ORIGINFREE", "R-ATTR"}   # whole-scope engines: "no conflict found", not function-specific logic
    for i in rep.instances:
        if i["rule"] in GENERIC:
            continue
        m = _FKEY.search(i["key"])
        if m:
            covered[m.group(0)] += 1
    anchors = {a.replace("/", ".")[:-3] for a in props[prop]["anchors"]["files"] if a.endswith(".py")}
    S = scopes.scope(idx, prop)
    gaps = []
    for k, f in sorted(S.items()):
        mod = k.split("::")[0]
        if not any(mod == a or mod + ".__init__" == a for a in anchors):
            continue
        # class-level coverage counts for methods
        cls_key = k.rsplit(".", 1)[0] if "." in k.split("::")[1] else None
        if covered.get(k, 0) == 0 and not (cls_key and covered.get(cls_key, 0)):
            n = len(list(__import__("ast").walk(f.node)))
            gaps.append((k, n))
    print("== %s: %d scope functions in anchor files, %d without a function-specific rule instance" % (prop, sum(1 for k in S if any(k.split('::')[0] == a for a in anchors)), len(gaps)))
    for k, n in sorted(gaps, key=lambda x: -x[1])[:25]:
        print("     %-90s (%d ast nodes)" % (k, n))
