#!/bin/sh
# usage: tools/run_all.sh [quick|thorough]  -> runs every claimed check on /repo (writes evidence), prints one line per check
tier=${1:-quick}
cd /verif
for p in C01 C02 C03 C04 C05 C06 C07 C08 C09 C10 C11 C12 C13 C14 C15 C16 C18 C19 C20; do echo $p; done | \
  xargs -P 4 -I{} sh -c '/venv/bin/python sa/check.py {} --tier '$tier' > /tmp/ra_{}.txt 2>&1; rc=$?; echo "{} exit=$rc $(grep -c "^VIOLATION" /tmp/ra_{}.txt) violations; $(tail -1 /tmp/ra_{}.txt | cut -c1-200)"'
