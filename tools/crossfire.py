#!/venv/bin/python
"""Cross-fire matrix: apply every registered mutant (in memory) and run EVERY claimed property's rules on it.
A property that reports a new violation although the mutant is not tagged with it is listed: either the tag list is
incomplete (the mutant does break that property) or the check fires outside its property's scope (to be fixed).
usage: tools/crossfire.py [mutant-name-substring]"""
import sys, os, json, multiprocessing
sys.path.insert(0, "/verif")
from sa.selftest import mutants as mutmod
from sa.selftest.harness import apply_mutant, _bad_keys
from sa.check import analyse

ROOT = "/repo"
PROPS = [c["property_id"] for c in json.load(open("/verif/MANIFEST.json"))["checks"]]
_base = {}


def base(prop):
    if prop not in _base:
        _base[prop] = _bad_keys(analyse(prop, "quick", ROOT))
    return _base[prop]


def job(args):
    mi, prop = args
    m = mutmod.all_mutants()[mi]
    src = open(os.path.join(ROOT, m.relpath), encoding="utf-8").read()
    new, why = apply_mutant(src, m)
    if new is None:
        return (m.name, prop, "skipped", [])
    rep = analyse(prop, "quick", ROOT, overlay={m.relpath: new})
    newbad = sorted(_bad_keys(rep) - base(prop))
    return (m.name, prop, "error" if rep.errors and not newbad else "ran", newbad[:3] or [e[:120] for e in rep.errors[:1]])


if __name__ == "__main__":
    sel = sys.argv[1] if len(sys.argv) > 1 else ""
    ms = mutmod.all_mutants()
    jobs = [(i, p) for i, m in enumerate(ms) if sel in m.name for p in PROPS if p not in m.props]
    with multiprocessing.Pool(16) as pool:
        res = pool.map(job, jobs, chunksize=8)
    byname = {m.name: m for m in ms}
    n = 0
    for name, prop, state, keys in sorted(res):
        if keys:
            n += 1
            print("%-40s tagged %-18s fires %s %s: %s" % (name, ",".join(byname[name].props), prop, "(exit 2)" if state == "error" else "", keys[0][:150]))
    print("%d untagged (mutant, property) pairs fire, out of %d pairs" % (n, len(jobs)))
