#!/venv/bin/python
"""Runs the pinned test command against a tree (default /repo) and compares with BASELINE.json's stable_pass."""
import json, subprocess, sys, tempfile, os, xml.etree.ElementTree as ET
root = sys.argv[1] if len(sys.argv) > 1 else "/repo"
base = json.load(open("/root/.vp/BASELINE.json"))
with tempfile.TemporaryDirectory() as d:
    x = os.path.join(d, "j.xml")
    subprocess.run(["/venv/bin/python", "-m", "pytest", "-ra", "-q", "-p", "no:cacheprovider", "--timeout=900",
                    "--continue-on-collection-errors", "--junitxml=" + x], cwd=root, stdout=subprocess.DEVNULL,
                   stderr=subprocess.DEVNULL, env=dict(os.environ, PYTHONPATH=root))
    passed = set()
    for tc in ET.parse(x).getroot().iter("testcase"):
        if not list(tc):
            passed.add("%s::%s" % (tc.get("classname"), tc.get("name")))
missing = [t for t in base["stable_pass"] if t not in passed]
print("passed=%d baseline=%d missing=%d" % (len(passed), len(base["stable_pass"]), len(missing)))
for m in missing:
    print("  MISSING", m)
sys.exit(1 if missing else 0)
