#!/venv/bin/python
"""Apply a seeded patch to /repo, run every claimed quick check, report which ones fire, and undo the patch.
usage: tools/try_seed.py <patch.diff> [--props C01,C05]"""
import json, subprocess, sys, os
patch = os.path.abspath(sys.argv[1])
props = None
if "--props" in sys.argv:
    props = sys.argv[sys.argv.index("--props") + 1].split(",")
man = json.load(open("/verif/MANIFEST.json"))
st = subprocess.run(["git", "-C", "/repo", "status", "--porcelain"], capture_output=True, text=True).stdout.strip()
if st:
    print("refusing: /repo has local changes:\n" + st); sys.exit(2)
r = subprocess.run(["git", "-C", "/repo", "apply", patch], capture_output=True, text=True)
if r.returncode != 0:
    print("patch does not apply:", r.stderr); sys.exit(2)
fired = {}
try:
    for c in man["checks"]:
        pid = c["property_id"]
        if props and pid not in props:
            continue
        out = subprocess.run(["/venv/bin/python", "sa/check.py", pid, "--tier", "quick", "--no-write"], cwd="/verif", capture_output=True, text=True)
        lines = [l for l in out.stdout.splitlines() if l.startswith("  ") and "|" in l or l.startswith("ANALYSIS-ERROR")]
        if out.returncode != 0:
            fired[pid] = (out.returncode, lines[:6])
finally:
    subprocess.run(["git", "-C", "/repo", "checkout", "--", "."], check=True)
for pid, (rc, lines) in sorted(fired.items()):
    print("%s exit=%d" % (pid, rc))
    for l in lines:
        print("   ", l.strip()[:220])
if not fired:
    print("NO CHECK FIRED")
