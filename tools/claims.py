"""Claim table: which properties are claimed (with the exact structural clauses decided) and which are not."""

PENDING = "not claimed in this build: the planned static rules (DESIGN.md §4) are not implemented and self-tested yet"

AST = "repository-specific ast rule checking"


def register(claim, na):
    claim("C05", AST + ": closed-predicate set comparison, traversal-completeness, link-pairing, refit, parallel-array "
                       "bookkeeping, index-space and sentinel-guard dataflow over aabb_tree.py",
          "Decides, for every input/history at once, the structural invariants of the AABB tree code: aabb_overlap is exactly "
          "the six closed comparisons (R-CLOSED); both stack traversals push both children of every overlapping branch, "
          "record each overlapping leaf once and apply no other filter (R-TRAVERSE); insert_leaf keeps parent/child links "
          "paired, redirects the old parent's matching slot, updates the root iff the old parent is the sentinel (R-LINKS); "
          "boxes are merged min/max per axis and refitted at every ancestor (R-REFIT); the Python wrapper keeps its four "
          "parallel containers aligned and hands node-space indices to the compiled insertion (R-BOOKKEEP, R-INDEXSPACE); "
          "a sentinel root is never used as an index without a dominating comparison (R-SENTINEL). Sufficiency of these "
          "invariants for exact query answers is the textbook BVH argument and is not re-proved.", "DESIGN.md §4 C05")
    claim("C07", AST + " + abstract interpretation of NumPy views (E1): alias-after-store, must-pass-through winding "
                       "repair, Minkowski pairing, guard-dominates-store, loop exit discipline over epa.py",
          "Decides structural necessary conditions of EPA's success contract: no read of a NumPy view after its source row "
          "was overwritten (R-ALIAS), every face passes compute_normal and then the winding repair before it is selectable "
          "and the repair is a real vertex swap with normal negation under dot(v0,n)<0 (R-WINDING), support points are "
          "A-B support points (R-MINK), capacity checks dominate stores (R-GUARDSTORE), vertex rows and the normal row of a face "
          "are never confused and the returned vector has length degree 1 (R-FACEROLE), the success path returns "
          "n*dot(new_point,n) under the convergence test and success is never reported on fall-through (R-MTV), loops are "
          "capped/structural (R-LOOP). Does not decide minimality over all directions nor the 1e-6 residual gap.", "DESIGN.md §4 C07")
    claim("C14", AST + " + abstract interpretation of array ndim/dtype/layout with per-class attribute join (E1)",
          "Decides: (R-COHERENCE) update_pose consumes its pose and refreshes every attribute whose constructor value depends "
          "on the pose-carrying constructor parameters, recomputing derived attributes with the constructor's own expression; "
          "(R-ROUNDTRIP) pose-less shapes read every attribute from the pose slot collider2origin writes and refresh all of "
          "them; (R-EAGER) every call from collider methods into compiled functions with explicit signatures is accepted for "
          "the join of all values the attributes can hold after construction or update_pose with a C-contiguous pose - i.e. "
          "'no later query raises'; update_pose does not reassign pose-independent attributes, and state written by a support query (the hill-climbing start vertex) reaches the result only as the start hint of the search (R-QUERYSTATE). Does not decide numerical equality of query results.", "DESIGN.md §4 C14")
    claim("C15", AST + ": compaction-idiom, guard-dominates-store, force-direction and degenerate-polygon guards",
          "Decides structural necessary conditions for well-formed contact polygons: kept half-planes / points are written at "
          "the running counter so no unwritten np.empty row is returned (R-COMPACT), capacity checks precede stores "
          "(R-GUARDSTORE), the force is a scalar times contact_plane_hnf[:3] (R-FORCEDIR), fewer than 3 vertices means no "
          "intersection at all three stages and the plane is normalised after the zero-normal test and before its offset is "
          "used (R-POLYGUARD); the tetrahedron/plane pre-filter is True exactly when both tetrahedra have a vertex strictly beyond each side's tolerance (R-PLANECROSS: 16-row truth table of the function's boolean structure); RigidBody methods that move the vertices reset every derived cache, including caches filled from outside the class (R-INVALIDATE); side purity of the paired quantities (x1 computed from side-1 data only, consistent side mapping at every call with paired parameters: R-SIDES). Does not decide that vertices lie on the plane / inside both tetrahedra, convexity, "
          "non-negative pressure or order independence.", "DESIGN.md §4 C15")
    claim("C16", AST + " + class-attribute resolution (E1): negation pairing, tuple-order flow, cache invalidation, "
                       "sibling agreement of the two broad phases",
          "Decides: f12 is built as the syntactic negation of f21 with torques about each body's own centre of mass and the "
          "(wrench12, wrench21) order preserved through three functions (R-REACTION); every attribute read on a RigidBody / "
          "ContactSurface receiver resolves (R-ATTR); methods that reassign mesh data reset all dependent caches "
          "(R-INVALIDATE); tree and brute-force broad phase take the bodies in the same order, bind the same triple and share "
          "the aabb_overlap predicate (R-SAMEPREDICATE); frame consistency of the hydroelastic package incl. the wrench rule taken "
          "from adjoint_from_transform's docstring (R-FRAME: two known findings, _transform_wrenches rotates by R^T); express_in stores a copy of the other body's pose, so two bodies never share one mutable pose array (R-SHAREDPOSE); side purity of paired quantities and call arguments (R-SIDES). Does not "
          "decide the 5% discretisation statements.", "DESIGN.md §4 C16")
    claim("C19", "loop exit-discipline classification (engine E4) + zero-guard dominance of magnitude divisions over the ast of the narrow-phase modules",
          "Decides the exit discipline and one finiteness clause: every loop reachable in the narrow-phase modules is CAP (counter vs bound "
          "advanced on every path; continue paths must clear a one-way flag), STRUCT, PROGRESS (non-strict non-improvement "
          "exit with the carried value updated, followed into the state-returning helper) or TOLERANCE (mpr._refine_portal: "
          "exit test evaluated every iteration, termination NOT proved); anchor loops keep the class confirmed by reading. "
          "R-SAFEDIV: in mpr.py, the closed-form support functions and norm_vector every division by a magnitude (norm / sqrt / sum / a callee's distance - exactly 0.0 for touching or coincident placements) sits on the non-zero side of a test of that magnitude (one UNKNOWN: the fallback weights of mpr._contact_position). Does not decide the bound of 1000 support evaluations, finiteness of the GJK/EPA outputs, or which exceptions can be raised.",
          "DESIGN.md §4 C19")
    claim("C20", "abstract interpretation of array layout/dtype/ndim against numba signatures (E1) + " + AST,
          "Decides source-visible divergences between compiled and interpreted execution: every call of an explicitly typed "
          "njit function from Python or lazily compiled code passes accepted ndim/dtype/layout (R-EAGER, 240 sites, UNKNOWN "
          "count bounded); globals read by compiled code are never mutated (R-FROZEN); capacity checks dominate stores and "
          "sentinel indices are guarded (R-GUARDSTORE, R-SENTINEL); compaction buffers are written at the counter "
          "(R-COMPACT); math.sqrt never receives a sign-indefinite argument (R-SQRTDOMAIN: ValueError interpreted vs NaN compiled); inventory of 122 compiled functions. Does not decide numerical agreement nor whether numba can type a "
          "function.", "DESIGN.md §4 C20")
    claim("C01", AST + ": Minkowski pairing, parallel-array stores, barycentric application, bit-mask remap tables "
                       "(constant evaluation over all masks), plane/face agreement, loop exit discipline over _gjk_jolt.py",
          "Decides structural necessary conditions of 'a in A, b in B, a - b = closest simplex point': support points are A-B "
          "support points with the collider order kept (R-MINK); Y/P/Q rows are stored and compacted together from (p-q,p,q) "
          "(R-PAR, R-COMPACT); closest points apply the weights of Y[0..k] to P[0..k] and Q[0..k] in order (R-BARY); sub-solver "
          "masks map to the right vertex bits for all masks, returned masks name the vertices the point is built from, plane "
          "tests guard their own face, Y[0..k-1] reach the k-point solver, candidates are adopted under strict < (R-BITMAP, "
          "R-MASKPOINT, R-PLANES, R-SOLVERDISPATCH); loops have a progress/cap discipline (R-LOOP); the early 'Clipped' (no result) exit requires the new support point strictly behind the origin plane, s < 0, in addition to s^2 > |dir|^2 max_distance_squared (R-CLIPGUARD); running-minimum chains of the sub-solvers store the new minimum before the next comparison (R-RUNMIN). Does not decide |a-b|=d "
          "within 1e-5 L, optimality of d, or d>0 <=> separated.", "DESIGN.md §4 C01")
    claim("C02", AST + ": Minkowski pairing, type-dispatch enumeration of the inflation (all ordered class pairs), decision-tree "
                       "equality of the two Nesterov files, loop caps",
          "Decides structural necessary conditions shared by the five boolean tests: R-MINK at every support site incl. "
          "forwarded collider pairs and seeds; R-INFL (293 pair/side obligations: the radius is inflated "
          "iff both supports are specialised and radius-free - a mismatch flips the Nesterov booleans by a full radius >> "
          "delta); R-DISPATCH, R-DTREE, R-TUPLEROLE; exit discipline of all loops (R-LOOP; mpr._refine_portal is TOLERANCE, "
          "termination not proved); running-minimum chains of the Jolt sub-solvers store the new minimum (R-RUNMIN); every branch of the libccd simplex refinement keeps exactly the feature its next search direction is computed from, and the tetrahedron case keeps the face whose side test failed (R-DOSIMPLEX, symbolic row tracking). Does not decide the delta band or agreement on concrete inputs.", "DESIGN.md §4 C02")
    claim("C08", AST + " + by-construction sign/unit lattice over return paths (engine signs)",
          "Decides: depth >= 0 and direction = unit-or-zero BY CONSTRUCTION on every return path of mpr_penetration and its "
          "three helpers, zero vector on touching contact, depth/direction from the closest point of the portal face to the "
          "origin, one weight vector for both pre-image arrays (R-UNITDIR); v/v1/v2 updated together (R-PAR); R-MINK; "
          "_find_penetration_info/_discover_portal capped, _refine_portal TOLERANCE (R-LOOP). Does not decide residual "
          "overlap <= 2e-3 L, the depth lower bound, or that the contact point lies in both shapes.", "DESIGN.md §4 C08")
    claim("C09", AST + ": type-dispatch enumeration, writer/reader table agreement, decision-tree equality, tuple-role "
                       "indexing, cofactor-table consistency",
          "Decides: R-INFL over all ordered collider class pairs for both Nesterov variants; R-DISPATCH (type codes and data "
          "slots); R-DTREE (13 region functions identical across the two files); R-TUPLEROLE (wrappers index the element named "
          "after the quantity, distance clamped at 0, iteration helpers drive the same loop); R-JOHNSON/R-EXHAUSTIVE for the "
          "original GJK's final answer; R-MINK; R-LOOP. SimplexInfo writes its three parallel containers (points / indices_polytope1 / indices_polytope2) together, same target row from one source row, in every method (R-PARALLEL), and select_vertex/line_segment/face refill dot_product_table[r,c] from [max(P_r,P_c), min(P_r,P_c)] of the old table for every refill statement (R-DOTTABLE, symbolic). Does not decide the 1e-3 L accuracy nor behaviour with "
          "use_nesterov_acceleration=True beyond the loop cap.", "DESIGN.md §4 C09")
    claim("C18", AST + ": bit-mask remap tables by constant evaluation, mask/point agreement, plane/face agreement, cofactor "
                       "column <-> vertex subset table derived from the stores, exhaustive sub-simplex enumeration",
          "Decides the combinatorial skeleton of both solvers: (Jolt) R-BITMAP, R-MASKPOINT, R-PLANES, R-SOLVERDISPATCH; "
          "(original, backup procedure) every candidate uses the cofactor column of its own subset in vertex-list order, "
          "guarded on that column, accepted under strict < (one documented tie rule), recording exactly its vertex list so "
          "the returned weights reproduce the point from the reordered subset (R-JOHNSON, 116 obligations), all 3/7/15 "
          "sub-simplices compared (R-EXHAUSTIVE). Does not decide the 1e-9 accuracy; the fast Johnson path is outside C18.",
          "DESIGN.md §4 C18")
    claim("C03", "coordinate-frame abstract interpretation (E2) + path-sensitive sign abstract interpretation of the closed-form "
                 "support functions + sibling-agreement rules + array-layout interpretation (E1)",
          "Decides structural necessary conditions of 'the returned point is extreme along d': R-FRAME/R-FRAMERET (direction "
          "taken into the local frame with the transposed rotation, local point brought back with the full pose, world-frame "
          "POINT returned - dropped translations are typed as non-points); R-SIGNALIGN (on every return path each local "
          "component is a non-negative multiple of the same direction component, a constant whose sign the path's tests "
          "justify, or zero, i.e. <support - centre, d> >= 0; the cone takes the candidate with the larger projection); "
          "R-MARGIN (inner support + margin * unit(d), delegation); R-AXIS; R-AABBARGS; R-EAGER at the support call sites. Does "
          "R-QUERYSTATE: state written by a support query reaches the returned value only as the start hint of the hill climb, never as the answer; R-COHERENCE: update_pose refreshes on every path, with the constructor's own expression, every attribute support_function reads; R-ORIGINFREE: no orientation test depends on the frame origin. Does "
          "not decide extremeness within 1e-9 L nor that hill climbing is start-independent (a convexity argument about runtime data).",
          "DESIGN.md §4 C03")
    claim("C04", "sibling-agreement rules + coordinate-frame (E2) and length-degree (E3) abstract interpretation",
          "Decides structural necessary conditions only: each aabb() calls its own shape's function with the attributes stored "
          "from the same-named constructor parameters (R-AABBARGS); Margin subtracts/adds the margin on lo/hi (R-MARGIN); axis "
          "agreement (R-AXIS); all *_aabb functions and aabb() methods are frame consistent and return world-frame POINT bounds "
          "(R-FRAME, R-FRAMERET); RigidBody.aabb must apply body2origin_ (R-WORLDAABB: known finding, body-frame box); every "
          "extent is homogeneous of degree 1 (R-DEGREE); the radicands 1 - c^2 of the closed-form extents are clamped at 0 so that a pose orthonormal only to one ulp cannot give a NaN box (R-SQRTDOMAIN: three sites fixed); update_pose refreshes, on every path, the pose and every attribute aabb() reads (R-COHERENCE), and RigidBody methods that move the vertices reset the caches aabb() reads (R-INVALIDATE). Enclosure and tightness of the closed-form extents are numerical and are "
          "NOT decided (a frame- and degree-consistent wrong formula such as the rotated-ellipsoid extent is invisible here).",
          "DESIGN.md §4 C04")
    claim("C12", "coordinate-frame abstract interpretation (E2: equivariance), length-degree inference (E3: scaling), Minkowski "
                 "pairing / collider order (argument swap)",
          "Decides the structural content of the three invariances: frame consistency of every function that touches a pose "
          "(R-FRAME over the non-hydroelastic package; world-frame point results, R-FRAMERET), dimensional homogeneity of every "
          "sum/comparison/stack and degree-1 returns of the 34 distance functions (R-DEGREE, R-RETDEGREE; 3 reasoned "
          "exceptions), collider-order preservation and A-B support points (R-MINK). Does not decide equality of results on "
          "concrete transformed scenes within tolerance nor swap symmetry of leaf formulas. Translation invariance additionally: no sign test of <direction, POSITION> (R-ORIGINFREE).", "DESIGN.md §4 C12")
    claim("C13", "comparison-polarity rule + coordinate-frame (E2) and length-degree (E3) abstract interpretation",
          "Decides: inclusion comparisons non-strict / exclusion masks strict in all eight predicates and reductions only over "
          "axis=1 (R-CLOSEDSET); world points moved with the inverse pose in row-vector convention (R-FRAME); squared distances "
          "compared with squared sizes (R-DEGREE); axis agreement with support function and AABB (R-AXIS); no membership / orientation test compares an inner product <direction, POSITION> with a constant, i.e. the predicates do not depend on where the frame's origin lies (R-ORIGINFREE, small affine-kind inference). Does not decide the "
          "1e-9 L band nor agreement with point_to_<shape> on concrete points.", "DESIGN.md §4 C13")
    claim("C06", AST + ": update-order, payload writer/reader agreement, whitelist filtering; plus the C05 tree rules and C14's "
                       "update_pose coherence",
          "Decides (thin, structural): update_collider_poses rebuilds a fresh tree, visits all colliders, looks poses up to "
          "'origin', calls update_pose BEFORE aabb() and inserts payload (frame, collider) (R-UPDATEORDER); query results are "
          "read as written, pair[0]/pair[1] index this/other tree, self-pairs skipped only for equal indices, candidates removed "
          "only by the whitelist (R-PAYLOAD); detect / detect_any visit every collider, filter only by the querying frame's "
          "whitelist, run the narrow phase on every candidate, mark both frames / return at the first hit (R-WHITELIST); "
          "every collider is updated and re-inserted unconditionally on every refresh (no 'did it move?' guard); transitively the AABB tree invariants and R-COHERENCE for the pose and the attributes aabb() reads. Does not decide equality with an all-pairs oracle on concrete "
          "robots, URDF parsing, or robots with several colliders per frame.", "DESIGN.md §4 C06")
    claim("C10", "by-construction sign lattice + role-flow dataflow over return tuples (E6) + loop classification (E4) + array-layout "
                 "(E1), frame (E2) and degree (E3) abstract interpretation",
          "Decides structural necessary conditions: the 34 exports resolve (R-API); every returned distance is >= 0 by "
          "construction with the default flags (R-NONNEG); composite functions take distance and points from ONE sub-query and "
          "return the points in the order of the primitives, with callee results mapped through the argument groups of each call "
          "(R-TRIPLE, R-ROLE, R-ROLEAGREE) - i.e. '|p1-p2| = d' and 'points lie on the respective primitives' hold RELATIVE TO "
          "THE CALLEES; every loop of the package is CAP/STRUCT (R-HANG: 'never hang' is fully decided for this package); calls "
          "into explicitly typed helpers are accepted (R-EAGER); local-frame evaluation is frame consistent and results are "
          "world-frame points (R-FRAME); returned distances and points have length degree 1 (R-RETDEGREE); the two halves of the line-to-box case analysis are mirror images under the axis swap (R-MIRROR), all 8 sign patterns of the direction reach the case function that moves along exactly the positive axes and clamps the zero axes (R-CASEDISPATCH), and _case_no_zeros hands _box_face the axis that won all pairwise comparisons (R-TOURNAMENT), the branches of _box_face mirror / re-use each other and each of its 9 leaves uses one offset per axis in delta, squared distance and stored box point (R-BOXFACE); a division by a vector component with a computed index first selects a non-zero component (R-SELCOMP); points returned as closest points of a SEGMENT are start + p*d with p confined to [0,1] resp. [0,L] on every path that reaches the construction (R-ONSEGMENT, forward must-analysis with branch refinement: the 'lies on its primitive' clause is decided for segments); calls with paired parameters (x1/x2) receive a consistent side mapping (R-SIDES, call sites); local coordinates of centred shapes are clipped to the symmetric half-size interval (R-CLIPSYM); math.sqrt arguments are >= 0 by construction (R-SQRTDOMAIN); running-minimum chains store the new minimum (R-RUNMIN). Does not decide membership of arithmetically "
          "constructed leaf points within 1e-9 L, NaN-freedom, or 'never raises' beyond signature conformance.", "DESIGN.md §4 C10")
    claim("C11", "feature-enumeration completeness rules + convexity-table rule for the clamp idiom + role-flow (E6) + degree "
                 "inference (E3)",
          "Decides structural necessary conditions of optimality: candidate enumerations are complete (3 triangle edges via the "
          "i0/i1 wrap-around, 2x2 rectangle edges, 2x3 box faces, all rectangle vertices) and are cut short only under "
          "dist <= epsilon (R-FEATURES); the 'infinite line, then clamp and re-query the end point' idiom is used only against "
          "convex primitives (R-CLAMPCONVEX: known finding line_segment_to_circle); best-of blocks adopt distance and points "
          "together (R-TRIPLE); closed forms are dimensionally homogeneous (R-DEGREE: exposed the line_to_circle transcription "
          "error, fixed); the case analysis of _line_to_box stays symmetric, exhaustive and consistently dispatched (R-MIRROR, R-CASEDISPATCH, R-TOURNAMENT, R-BOXFACE). Does not decide optimality itself, nor the 20-round alternating projection of disk_to_disk.",
          "DESIGN.md §4 C11")
    na("C17", "volumes, positivity, partition and potentials are numerical facts about generated vertex data over continuous "
              "parameters; the only static part (combinatorics of literal tables) is too small a share of the statement to "
              "claim the property through it (DESIGN.md §4 C17)")


# clauses added in session 2, rounds 2-3 (appended to the claim text; the rule catalogue with techniques is DESIGN.md 4c)
ADDED = {
    "C01": "R-BARY decides calculate_closest_points on the function specialised for n_points = 2, 3, 4 (dispatch folded, accumulation loop unrolled): both returned points are sums of weight_i * support_i with the weights of ONE call of the k-point barycentric function on Y[0..k-1]. R-WEIGHTROLE: in get_barycentric_coordinates_plane the weights of an edge stay with its two vertices, the third is 0 and closed-form weights sum to 1. R-ERICSON: the six Voronoi-region tests of closest_point_triangle are Ericson's conditions (names resolved to the vertices). R-COHERENCE restricted to what support_function reads (the colliders of the statement include colliders moved with update_pose) and R-ADJACENCY (mesh colliders answer support queries by hill climbing over that adjacency): the scope contains the colliders' __init__ / update_pose. R-PLANES last step: one winding sign decides all four faces of origin_outside_of_tetrahedron_planes, mixed or zero reference signs report every face outside (all 81 sign patterns x plane values around +-eps evaluated). R-LINEWEIGHTS: get_barycentric_coordinates_line returns (u, v) with u + v = 1 and (u a + v b).(b - a) = 0 as exact identities in <a,a>, <a,b>, <b,b> (rational normal form, core/bilin.py), the degenerate branch favours the nearer end point; closest_point_line returns the other end point when a weight is <= 0.",
    "C02": "R-SUPPORTSIBLING (box / capsule / cylinder supports of the two Nesterov files have the same shape up to data access); R-ERICSON (jolt triangle solver); R-MAINLOOP (the two Nesterov main loops are statement-for-statement the same shape); R-PORTALDIR (the portal "
           "direction used with the length tolerance of MPR is unit). R-FRAME over the collider methods the tests call (centre, support, first vertex): MPR aims its origin ray at collider.center(). R-SWAPROWS (see C08). R-DTREE is decided semantically where both copies are loop-free sign-case analyses: for every assignment of signs (-, 0, +) to the compared scalar products the two copies (private helpers entered) return the same term. The property scope follows address-taken functions and module-level tables of functions (a dispatch written as `TABLE[type(c)](...)` keeps its callees in scope). R-COHERENCE restricted to what support_function reads (the colliders of the statement include colliders moved with update_pose) and R-ADJACENCY (mesh colliders answer support queries by hill climbing over that adjacency): the scope contains the colliders' __init__ / update_pose. R-ROWALIAS: the simplex re-ordering functions of the two Nesterov files (origin_to_point / _segment / _triangle) read every vertex argument before the row it views is overwritten, or copy it first — interpretation over labelled rows for exactly the row assignments that occur at the call sites (views are inferred from `a = simplex[i]` and propagated through t_b / region_*).",
    "C03": "R-SHORTCUTS (the six signed-axis extremes are the shortcut vertices of the hill climb); R-BASISGUARD (plane_basis_from_normal branches on magnitudes before dividing by the length of the winning pair); R-ADJACENCY (each vertex of a mesh "
           "triangle gets the other two as neighbours); R-HALFSIZE; R-PUREARGS (public functions never modify an array argument in place). R-CENTERINSET: center() of a vertex-defined collider is a convex combination of its vertices (mean over axis 0), never built from per-coordinate extremes. R-STALEKEY: a cache key compared with part of the pose is a copy, not a view of it. R-ADJACENCY is decided by interpreting the neighbour-recording loop body for one generic triangle over vertex labels. R-RESIDUALZERO: a division by the length of a projection residual v - (v.a) a is not protected by an exact zero test alone.",
    "C04": "R-LINKS / R-REFIT on the AABB tree that backs RigidBody.aabb(); R-HALFSIZE; R-PUREARGS. R-ROUNDTRIP: a square root whose radicand vanishes for axis-aligned poses is not fed by a term recovered through cancellation ((p + h*axis) - p) — the tightness clause for poses far from the origin. R-STALEKEY (see C03): MeshGraph.aabb-style caches validated against the current pose must not key on a view of the pose.",
    "C05": "R-TRAVERSE additionally: no exit before the traversal (no pre-filter on the query box). R-CLOSED is decided by abstract evaluation of aabb_overlap's body on all 729 order types of the six bound pairs (loops, early exits and negations included). A pre-filter in front of a traversal (anything that returns or empties the stack before the loop) must imply non-overlap under the closed-interval test: its condition is evaluated on a grid of integer boxes that realises every order type of the four bounds of an axis. Guard-clause and nested-if styles of the traversal are equivalent to the rule. R-LINKS / R-REFIT are decided by symbolic execution of insert_leaf and fix_upward_tree over symbolic node indices (post-state of the node table on every path, one generic iteration of each loop); R-BOOKKEEP / R-INDEXSPACE by a symbolic length / segment interpreter of AabbTree.insert_aabbs (every container as long as the node table, payload at rows F..F+n-1, capacity F+2n, truncation to the returned fill level). R-INDEXSPACE is decided on the VALUE that reaches the insert_order argument of the compiled insertion on every path of the length interpreter (private helpers entered per path): an index range or a permutation of one, which must start at the fill level at entry and have the batch size. Pre-filter clause also for the Python methods in front of the compiled traversals (AabbTree.overlaps_aabb / overlaps_aabb_tree): an exit before the query call must imply non-overlap of the root boxes under the closed test (numpy-style element-wise evaluation on the integer box grid). R-INDEXTRUTH: an array the function uses as an integer index is never reduced with np.any / np.all / bool (index 0 is falsy). R-BRUTEFORCE: all_aabbs_overlap tests every pair (i, j) with aabb_overlap(first[i], second[j]) and records i, j, (i, j), returned in that order — index space enumerated for 0 .. 3 boxes per side (core/indexspace.py).",
    "C06": "R-CLOSED by abstract evaluation (see C05). Pre-filter clause of R-TRAVERSE (see C05). Tree link / refit / bookkeeping clauses by the interpreters of C05. detect_any is evaluated in two scenarios (no hit / first hit). Wrapper pre-filter clause and R-INDEXTRUTH (see C05).",
    "C07": "R-TOLUNIT (self.epsilon is compared with quantities of one length degree only). R-LOUDCAP: running out of polytope faces is asserted, never a silent break. R-SWAPREMOVE: an index handed to a swap-remove inside a loop that changes the container is computed in that iteration; a scan that removes at its own position re-examines it. R-ADJACENCY (the scope includes the collider support functions epa queries): a mesh support over an incomplete adjacency returns a non-extreme vertex and EPA converges early. R-DEFINITE: a closeness test on a vector difference uses a definite quantity (norm, sum of squares / absolute values), not a signed sum of components. R-TOLUNIT: a tolerance handed to a constructor (`Polytope(.., epsilon)` -> self.epsilon) is one symbol with the caller's: all its comparisons agree in length degree.",
    "C08": "R-ERICSON (point_to_triangle, used for depth and direction); R-PORTALDIR. R-SWAPROWS: row-moving helpers of the portal keep v, v1, v2 parallel (interpretation over labelled cells with numpy view / copy semantics, all index pairs). R-COHERENCE restricted to what support_function reads (the colliders of the statement include colliders moved with update_pose) and R-ADJACENCY (mesh colliders answer support queries by hill climbing over that adjacency): the scope contains the colliders' __init__ / update_pose. R-SAMEROW: an expression that reads rows of both support containers (v1, v2) reads the same rows of both.",
    "C09": "R-MAINLOOP, R-SUPPORTSIBLING (see C02); R-COFACTORSIGN: every cofactor comparison in BarycentricCoordinates is `d > c` or its exact complement `d <= c`. Vertex candidates of the backup procedure are judged by their effects on a normal form (helpers, literal loops and straight-line methods expanded): weight 1 in slot 0, point, squared norm, recorded index. R-JOHNSONREC (see C18). R-DOTTABLE: SimplexInfo.select_* is interpreted for every literal selection made at a call site, over labelled cells: row r receives row P_r of the three parallel containers and table[r, c] the old [max(P_r, P_c), min(P_r, P_c)]. R-DTREE by sign cases and the scope through function tables (see C02). R-JOHNSONOPT / R-DOTTABLE read the sub-algorithm with its private single-exit helpers opened and literal loops unrolled (see C18). R-COHERENCE restricted to what support_function reads (the colliders of the statement include colliders moved with update_pose) and R-ADJACENCY (mesh colliders answer support queries by hill climbing over that adjacency): the scope contains the colliders' __init__ / update_pose. R-ROWALIAS (see C02).",
    "C10": "R-TOLUNIT (each epsilon parameter is compared with quantities of a single length degree; three upstream exceptions are named); R-SEGSIBLING (_line_to_line_segment is _line_segment_to_line_segment minus the clamping of t); R-PARALLELSIGN (parallel tests are orientation independent); R-ERICSON (point_to_triangle); R-HALFSIZE; R-PUREARGS. R-AFFINE: every returned vector is an affine combination of positions (position weight 1) or a direction (0) — weights inferred through +, -, constant factors and per call site through private helpers. R-ISOLATED: a case analysis over one scalar leaves no single threshold value to a fall-through written for a range. R-INSIDEZERO (see C13): for interior points the returned distance is 0, consistent with the returned point. R-AXISPAIR: component tests of one conjunction pair each component with its own bound (injective index map). R-DEFINITE (see C07). R-RIMPOINT: in `centre + radius * v` v is a unit vector (unit parameter, norm_vector, x/|x|, rotation column), not the raw result of pr.perpendicular_to_vector / a cross product (found and fixed finding S with it). R-CLIPSYM additionally: clipped components and bound select the same components. R-AFFINE additionally: inside a helper analysed for a call site, (direction) - (position) is reported (a reference point subtracted twice).",
    "C11": "R-TOLUNIT; R-SEGSIBLING; R-PARALLELSIGN; R-ERICSON; R-SIDES (x2 computed from side-2 data: the rectangle extents); R-HALFSIZE. R-ISOLATED (see C10). R-AXISPAIR (see C10). R-RIMPOINT, R-CLIPSYM component clause (see C10).",
    "C12": "R-TOLUNIT (tolerances keep one length degree: scale covariance of the degeneracy tests); R-MIRROR / R-CASEDISPATCH / R-TOURNAMENT / R-BOXFACE: the line-to-box case analysis is invariant under relabelling of the box axes. R-AFFINE (translation invariance: returned points carry position weight 1); R-SELCOMP (a divisor component is selected by magnitude, not by signed value). R-ROUNDTRIP (see C14): colliders stored without a pose matrix read each attribute from the pose slot collider2origin writes (rows vs columns of the rotation). R-RIMPOINT, R-CLIPSYM component clause, R-AFFINE direction-minus-position clause (see C10).",
    "C13": "R-SQRTDOMAIN for np.sqrt in the predicates; R-HALFSIZE over the predicates and the point_to_<shape> functions they must agree with; R-PUREARGS. R-ISOLATED: row masks / if-chains over one scalar against thresholds do not drop a single threshold value into the fall-through case. R-INSIDEZERO: point_to_ellipsoid, walked with the inside test true and the flags at their defaults, can only return (0.0, point) — the distance function agrees with points_in_ellipsoid on interior points. R-COHERENCE restricted to what support_function reads: the statement names the collider's support function, and a collider reaches its pose through update_pose. R-PUREARGS follows locals that may share memory with a parameter (np.asarray / views / reshape).",
    "C14": "R-SHORTCUTS; R-ADJACENCY; R-PUREARGS. R-UNTOUCHED: no function that is handed a collider modifies its state in place, directly or through np.asarray / view aliases (the property is observed through queries, so these functions belong to the scope). R-STALEKEY (see C03). R-QUERYSTATE second clause: no method of a collider other than the query itself reads state that a query writes (first_idx), neither on self nor through a member object.",
    "C15": "R-ANGLESORT (contact polygon ordered by arctan2(y, x) about the centroid); R-BOUNDEDSTORE (counter-indexed stores into local buffers are bounded by a check or by the loop count); R-STIFFNESS: both terms of the contact-plane expression carry the same Young's-modulus exponents (dimensional bookkeeping with E1, E2 as units); "
           "R-HPLAYOUT: half-plane rows (px, py | dx, dy) are sliced only at pair boundaries. R-PLANECROSS also at the caller: before a polygon is built both tetrahedra are tested against the plane (no reduction over the stacked vertices of both). R-STIFFNESS followed from find_contact_surface to contact_plane with the exponents of the actual arguments. R-CONTACTFORCE: the contact polygon is integrated as a fan of triangles over distinct consecutive vertex pairs and the centroid, each with its own area and the pressure at its own centroid (looped and vectorised forms are the same instance). R-COMPACT input side: in a compaction loop an array that is never written at the output counter is not read at it. R-CONTACTFORCE is decided by algebraic evaluation of one generic iteration of the triangle fan (sums / products flattened and sorted): += pressure(centroid) * area, += area, += area * centroid, with area = 1/2 |e x e'| and pressure = sum(solve(X, [centroid; 1]) * potentials * modulus); an index-driven fan must be (p[0], p[i+1], p[i+2]). R-HPCOVER: intersect_halfplanes intersects every pair of half-planes and tests each candidate against every other half-plane — index space of the loop nest (private helpers entered) enumerated for n = 3 .. 6. R-SHAREDPOSE (see C16). R-INDEXTRUTH (see C05). R-ALLFACES: all 4 + 4 half-spaces of the two tetrahedra reach make_halfplanes and every row is visited. R-FRAME over the contact-surface code with flow-sensitive frames for attributes that a method re-frames (`self.X = transform(a2b, self.X)`).",
    "C16": "R-STIFFNESS (see C15). R-STIFFNESS followed through the call chain (a pressure field passed together with the modulus applies the stiffness twice). R-CONTACTFORCE (see C15): the force on the polygon is the sum over its triangle fan, along the plane normal. R-REACTION is decided on what contact_forces RETURNS, by symbolic evaluation of contact_forces -> accumulate_wrenches -> _transform_wrenches with negations pushed outward: (intersection, X.hstack(-sum F, sum (r - c2) x (-F)), X.hstack(sum F, sum (r - c1) x F)) with one transform X. R-HPCOVER (see C15). R-INDEXTRUTH (see C05). R-ALLFACES (see C15); R-BRUTEFORCE (see C05).",
    "C18": "R-COFACTORSIGN; R-ERICSON (jolt); Solution.from_vertex stores weight 1 in slot 0 (R-JOHNSON). R-BITMAP sees through extracted remap helpers; vertex candidates by effects (see C09). R-JOHNSONOPT: each of the 23 tests in front of a sub-simplex of the main sub-algorithm is exactly Johnson's optimality condition (predicates expanded to literals). R-JOHNSONREC: all 43 cofactor stores of the original GJK's BarycentricCoordinates follow Johnson's recursion (factors resolved interprocedurally to y_i.(y_k - y_j)). R-JOHNSONOPT and the call-site enumeration of R-DOTTABLE read the sub-algorithm functions in a normal form: private single-exit helpers of the module opened at their call sites, loops over literal tables (also of bound methods) unrolled. R-SOLVERDISPATCH: the acceptance test may be a named boolean (`worse = not (new < prev)`). R-PLANES last step and R-LINEWEIGHTS (see C01).",
    "C19": "R-BASISGUARD. Flag loops (`while not done: ...; done = E`) are classified through their normal form `while True: ...; if E: break`; state loops (`while state == Unknown`) likewise. A search loop that runs 'until nothing improved' is accepted only when it carries a per-state potential: the accepted candidate's value is stored and the next comparison is made against that stored value (a gain recomputed from the pair of states can be positive around a cycle: finding R, fixed). R-DEFINED (see C20) over the narrow-phase scope: a read of an unassigned local is an exception on that path. R-LOOP state loops: the variable the loop passes as the helper's carried parameter is re-bound, by the same statement, from the slot in which the helper hands the updated value back. R-INDEXTRUTH (see C05).",
    "C20": "R-BOUNDEDSTORE (see C15). R-DEFINED over the njit functions: no local is read where only some arms of an earlier conditional assigned it (UnboundLocalError interpreted, a zero slot compiled). R-COMPACT input side (see C15). R-GUARDAFTERUSE: in a compiled function a scalar division is not evaluated before the function's own zero test of its divisor (compiled: ZeroDivisionError; interpreted numpy scalar: inf). R-SAFEDIV over the compiled closed-form distance functions: a division by a magnitude sits on the non-zero side of a test of that magnitude (compiled code raises where numpy returns inf); one named exception (zero-length segment, outside domain D).",
}
ALL = "R-UNPACK (tuple results unpacked in the callee's return order) and R-DUPCOND (no repeated operand / self-comparison / repeated elif test) over every function in the property's scope."


def _wrap(register_):
    def reg(claim, na):
        def claim2(pid, technique, text, ref):
            extra = ADDED.get(pid, "")
            cut = text.rfind("Does not decide")
            if cut < 0:
                cut = text.rfind("Does not")
            add = (" Also decided: " + extra + " " + ALL + " ") if extra else (" Also decided: " + ALL + " ")
            text = (text[:cut].rstrip() + add + text[cut:]) if cut > 0 else (text + add)
            claim(pid, technique, text, ref)
        register_(claim2, na)
    return reg


register = _wrap(register)
