"""Claim table: which properties are claimed (with the exact structural clauses decided) and which are not."""

PENDING = "not claimed in this build: the planned static rules (DESIGN.md §4) are not implemented and self-tested yet"

AST = "repository-specific ast rule checking"


def register(claim, na):
    claim("C05", AST + ": closed-predicate set comparison, traversal-completeness, link-pairing, refit, parallel-array "
                       "bookkeeping, index-space and sentinel-guard dataflow over aabb_tree.py",
          "Decides, for every input/history at once, the structural invariants of the AABB tree code: aabb_overlap is exactly "
          "the six closed comparisons (R-CLOSED); both stack traversals push both children of every overlapping branch, "
          "record each overlapping leaf once and apply no other filter (R-TRAVERSE); insert_leaf keeps parent/child links "
          "paired, redirects the old parent's matching slot, updates the root iff the old parent is the sentinel (R-LINKS); "
          "boxes are merged min/max per axis and refitted at every ancestor (R-REFIT); the Python wrapper keeps its four "
          "parallel containers aligned and hands node-space indices to the compiled insertion (R-BOOKKEEP, R-INDEXSPACE); "
          "a sentinel root is never used as an index without a dominating comparison (R-SENTINEL). Sufficiency of these "
          "invariants for exact query answers is the textbook BVH argument and is not re-proved.", "DESIGN.md §4 C05")
    claim("C07", AST + " + abstract interpretation of NumPy views (E1): alias-after-store, must-pass-through winding "
                       "repair, Minkowski pairing, guard-dominates-store, loop exit discipline over epa.py",
          "Decides structural necessary conditions of EPA's success contract: no read of a NumPy view after its source row "
          "was overwritten (R-ALIAS), every face passes compute_normal and then the winding repair before it is selectable "
          "and the repair is a real vertex swap with normal negation under dot(v0,n)<0 (R-WINDING), support points are "
          "A-B support points (R-MINK), capacity checks dominate stores (R-GUARDSTORE), the success path returns "
          "n*dot(new_point,n) under the convergence test and success is never reported on fall-through (R-MTV), loops are "
          "capped/structural (R-LOOP). Does not decide minimality over all directions nor the 1e-6 residual gap.", "DESIGN.md §4 C07")
    claim("C14", AST + " + abstract interpretation of array ndim/dtype/layout with per-class attribute join (E1)",
          "Decides: (R-COHERENCE) update_pose consumes its pose and refreshes every attribute whose constructor value depends "
          "on the pose-carrying constructor parameters, recomputing derived attributes with the constructor's own expression; "
          "(R-ROUNDTRIP) pose-less shapes read every attribute from the pose slot collider2origin writes and refresh all of "
          "them; (R-EAGER) every call from collider methods into compiled functions with explicit signatures is accepted for "
          "the join of all values the attributes can hold after construction or update_pose with a C-contiguous pose - i.e. "
          "'no later query raises'. Does not decide numerical equality of query results.", "DESIGN.md §4 C14")
    claim("C15", AST + ": compaction-idiom, guard-dominates-store, force-direction and degenerate-polygon guards",
          "Decides structural necessary conditions for well-formed contact polygons: kept half-planes / points are written at "
          "the running counter so no unwritten np.empty row is returned (R-COMPACT), capacity checks precede stores "
          "(R-GUARDSTORE), the force is a scalar times contact_plane_hnf[:3] (R-FORCEDIR), fewer than 3 vertices means no "
          "intersection at all three stages and the plane is normalised after the zero-normal test and before its offset is "
          "used (R-POLYGUARD). Does not decide that vertices lie on the plane / inside both tetrahedra, convexity, "
          "non-negative pressure or order independence.", "DESIGN.md §4 C15")
    claim("C16", AST + " + class-attribute resolution (E1): negation pairing, tuple-order flow, cache invalidation, "
                       "sibling agreement of the two broad phases",
          "Decides: f12 is built as the syntactic negation of f21 with torques about each body's own centre of mass and the "
          "(wrench12, wrench21) order preserved through three functions (R-REACTION); every attribute read on a RigidBody / "
          "ContactSurface receiver resolves (R-ATTR); methods that reassign mesh data reset all dependent caches "
          "(R-INVALIDATE); tree and brute-force broad phase take the bodies in the same order, bind the same triple and share "
          "the aabb_overlap predicate (R-SAMEPREDICATE). The frame of the wrench transform (finding F6) and the body-frame "
          "AABB are NOT yet covered by a rule in this build. Does not decide the 5% discretisation statements.", "DESIGN.md §4 C16")
    claim("C19", "loop exit-discipline classification (engine E4) over the ast of the narrow-phase modules",
          "Decides the exit discipline only: every loop reachable in the narrow-phase modules is CAP (counter vs bound "
          "advanced on every path; continue paths must clear a one-way flag), STRUCT, PROGRESS (non-strict non-improvement "
          "exit with the carried value updated, followed into the state-returning helper) or TOLERANCE (mpr._refine_portal: "
          "exit test evaluated every iteration, termination NOT proved); anchor loops keep the class confirmed by reading. "
          "Does not decide the bound of 1000 support evaluations, finiteness of outputs, or which exceptions can be raised.",
          "DESIGN.md §4 C19")
    claim("C20", "abstract interpretation of array layout/dtype/ndim against numba signatures (E1) + " + AST,
          "Decides source-visible divergences between compiled and interpreted execution: every call of an explicitly typed "
          "njit function from Python or lazily compiled code passes accepted ndim/dtype/layout (R-EAGER, 240 sites, UNKNOWN "
          "count bounded); globals read by compiled code are never mutated (R-FROZEN); capacity checks dominate stores and "
          "sentinel indices are guarded (R-GUARDSTORE, R-SENTINEL); compaction buffers are written at the counter "
          "(R-COMPACT); inventory of 122 compiled functions. Does not decide numerical agreement nor whether numba can type a "
          "function.", "DESIGN.md §4 C20")
    for p in ["C01", "C02", "C03", "C04", "C06", "C08", "C09", "C10", "C11", "C12", "C13", "C18"]:
        na(p, PENDING)
    na("C17", "volumes, positivity, partition and potentials are numerical facts about generated vertex data over continuous "
              "parameters; the only static part (combinatorics of literal tables) is too small a share of the statement to "
              "claim the property through it (DESIGN.md §4 C17)")
