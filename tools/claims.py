"""Claim table: which properties are claimed (with the exact structural clauses decided) and which are not."""

PENDING = "not claimed in this build: the planned static rules (DESIGN.md §4) are not implemented and self-tested yet"


def register(claim, na):
    claim("C05", "ast rule checking: closed-predicate set comparison, traversal-completeness, link-pairing, refit, "
                 "parallel-array bookkeeping, index-space and sentinel-guard dataflow over aabb_tree.py",
          "Decides, for every input/history at once, the structural invariants of the AABB tree code: aabb_overlap is exactly "
          "the six closed comparisons (R-CLOSED); both stack traversals push both children of every overlapping branch, "
          "record each overlapping leaf once and apply no other filter (R-TRAVERSE); insert_leaf keeps parent/child links "
          "paired, redirects the old parent's matching slot, updates the root iff the old parent is the sentinel (R-LINKS); "
          "boxes are merged min/max per axis and refitted at every ancestor (R-REFIT); the Python wrapper keeps its four "
          "parallel containers aligned and hands node-space indices to the compiled insertion (R-BOOKKEEP, R-INDEXSPACE); "
          "a sentinel root is never used as an index without a dominating comparison (R-SENTINEL). Sufficiency of these "
          "invariants for exact query answers is the textbook BVH argument and is not re-proved.", "DESIGN.md §4 C05")
    for p in ["C01", "C02", "C03", "C04", "C06", "C07", "C08", "C09", "C10", "C11", "C12", "C13", "C14", "C15", "C16",
              "C18", "C19", "C20"]:
        na(p, PENDING)
    na("C17", "volumes, positivity, partition and potentials are numerical facts about generated vertex data over continuous "
              "parameters; the only static part (combinatorics of literal tables) is too small a share of the statement to "
              "claim the property through it (DESIGN.md §4 C17)")
