#!/venv/bin/python
"""Lists rules whose instance floor leaves little room for harmless restructuring (floor close to the current count)."""
import sys
sys.path.insert(0, "/verif")
from sa.check import analyse
from collections import Counter
for prop in ["C%02d" % i for i in range(1, 21) if i != 17]:
    rep = analyse(prop, "quick", "/repo")
    cnt = Counter(i["rule"] for i in rep.instances)
    for rule, meta in sorted(rep.rules.items()):
        fl = meta.get("floor", 0) if isinstance(meta, dict) else getattr(meta, "floor", 0)
        n = cnt.get(rule, 0)
        if fl and n - fl <= max(0, int(0.15 * n)) :
            print("%s %-16s instances=%-4d floor=%-4d slack=%d" % (prop, rule, n, fl, n - fl))
