#!/venv/bin/python
"""Generates /verif/MANIFEST.json from the claim table below (kept next to the code that implements the claims)."""
import json
import os
import sys

HERE = os.path.dirname(os.path.abspath(__file__))
VERIF = os.path.dirname(HERE)
sys.path.insert(0, VERIF)

PY = "/venv/bin/python"
NOT_DECIDED = ("Not decided by this check (stated, not hidden): every tolerance / floating-point clause of the property, "
               "optimality and agreement on concrete inputs.")
NOTE = ("Trusted base: CPython's ast module parses /repo's current source as the interpreter/numba would; the rule "
        "implementations in /verif/sa (self-tested by mutation in the thorough tier); the domain assumptions D/P of the "
        "property (float64 C-contiguous well-formed inputs). Nothing from /repo is imported or executed by the check.")

# property -> (technique, claim text, design ref)
CLAIMS = {}
NOT_APPLICABLE = {}


def claim(pid, technique, text, ref):
    CLAIMS[pid] = (technique, text, ref)


def na(pid, reason):
    NOT_APPLICABLE[pid] = reason


from tools.claims import register  # noqa: E402

register(claim, na)


def main():
    checks = []
    for pid in sorted(CLAIMS):
        tech, text, ref = CLAIMS[pid]
        checks.append({
            "property_id": pid,
            "quick_cmd": "%s sa/check.py %s --tier quick" % (PY, pid),
            "thorough_cmd": "%s sa/check.py %s --tier thorough" % (PY, pid),
            "evidence_file": "/verif/evidence/%s.json" % pid,
            "replay_cmd_template": "%s sa/check.py %s --replay {path}" % (PY, pid),
            "engine": "sa",
            "level_claimed": {"category": "other", "text": text + " " + NOT_DECIDED, "design_ref": ref},
            "level_note": NOTE,
            "technique": tech,
        })
    man = {
        "version": 1,
        "setup_cmd": "%s -c \"import ast, json, sys; sys.path.insert(0, '/verif'); import sa.check\"" % PY,
        "hooks": {
            "guard": "DISTANCE3D_VERIF",
            "enable": "none needed: the checks read /repo's source with ast and never import or build it",
            "baseline_off_cmd": "cd /repo && /venv/bin/python -m pytest -ra -q -p no:cacheprovider --timeout=900 --continue-on-collection-errors",
            "source_commits": [],
            "add_only": True,
        },
        "engines": [{
            "name": "sa", "path": "/verif/sa",
            "serves_properties": sorted(CLAIMS),
            "kind_free_text": "repository-specific static analysis over Python ast: rule templates with slots filled from the "
                              "source (pairing, table, sibling-agreement, guard-dominates-use rules), abstract interpreters for "
                              "array layout, coordinate frames and length degree, loop exit-discipline classifier",
        }],
        "checks": checks,
        "notes": "All checks are static (ast only). exit 0 = decided clauses hold (KNOWN-FINDING lines possible), "
                 "1 = VIOLATION, 2 = ANALYSIS-ERROR (anchor vanished / idiom not recognised; never a silent pass). "
                 "Known findings and fixed defects: /verif/known_findings.json. Design: /verif/DESIGN.md.",
        "not_applicable": [{"property_id": p, "reason": r} for p, r in sorted(NOT_APPLICABLE.items())],
    }
    with open(os.path.join(VERIF, "MANIFEST.json"), "w") as f:
        json.dump(man, f, indent=1)
    try:
        import jsonschema
        with open("/root/.vp/MANIFEST.schema.json") as f:
            jsonschema.validate(man, json.load(f))
        print("MANIFEST.json valid: %d checks, %d not applicable" % (len(checks), len(NOT_APPLICABLE)))
    except ImportError:
        print("MANIFEST.json written (jsonschema not available for validation)")


if __name__ == "__main__":
    main()
