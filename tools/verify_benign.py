#!/venv/bin/python
"""Verify a behaviour-preserving refactoring written by a sub-agent in its scratch worktree: equiv.py passes, the 62 baseline tests pass,
then run every quick check of /verif against the worktree (--root, --no-write).  Every non-zero exit is a false alarm (exit 1) or an analysis that
lost its grip on restructured code (exit 2).   tools/verify_benign.py <Cxx> <worktree>"""
import json, os, subprocess, sys
pid, wt = sys.argv[1], sys.argv[2]
out = os.path.join(wt, "seed_out")
env = dict(os.environ, PYTHONPATH=wt, NUMBA_DISABLE_JIT=os.environ.get("SEED_JIT_OFF", "1"))
def run(cmd, **kw):
    return subprocess.run(cmd, capture_output=True, text=True, **kw)
res = {"property": pid}
d = run(["git", "-C", wt, "diff", "--stat", "--", "distance3d"])
res["diffstat"] = d.stdout.strip().splitlines()[-1:] 
r = run(["/venv/bin/python", os.path.join(out, "equiv.py")], cwd=wt, env=env, timeout=3000)
res["equiv"] = [r.returncode, (r.stdout + r.stderr).strip().splitlines()[-2:]]
t = run(["/venv/bin/python", "/verif/tools/baseline.py", wt], timeout=3000)
res["tests"] = t.stdout.strip().splitlines()[:3]
checks = {}
for p in ["C%02d" % i for i in range(1, 21) if i != 17]:
    c = run(["/venv/bin/python", "/verif/sa/check.py", p, "--tier", "quick", "--root", wt, "--no-write"], cwd="/verif", timeout=1200)
    if c.returncode != 0:
        lines = [l for l in c.stdout.splitlines() if l.startswith(("  distance3d", "ANALYSIS-ERROR"))]
        checks[p] = {"exit": c.returncode, "lines": [l[:260] for l in lines[:6]]}
res["alarms"] = checks
print(json.dumps(res, indent=1))
