#!/venv/bin/python
"""tools/save_small.py <Cxx> <round> <worktree> <verify.json> -> /verif/benign_seeds/<Cxx>-r<round>/ (patch1..3.diff, equiv.py, notes.md, meta.json) for a set of
three small independent behaviour-preserving edits (tools/verify_small.py)."""
import json, os, shutil, subprocess, sys
pid, rnd, wt, vj = sys.argv[1], int(sys.argv[2]), sys.argv[3], sys.argv[4]
v = json.load(open(vj))
assert v["equiv"][0] == 0 and "missing=0" in v["tests"][0], v
dst = "/verif/benign_seeds/%s-r%d" % (pid, rnd)
os.makedirs(dst, exist_ok=True)
for n in (1, 2, 3):
    shutil.copy(os.path.join(wt, "seed_out", "patch%d.diff" % n), os.path.join(dst, "patch%d.diff" % n))
for f in ("equiv.py", "notes.md"):
    shutil.copy(os.path.join(wt, "seed_out", f), os.path.join(dst, f))
base = subprocess.run(["git", "-C", wt, "rev-parse", "--short", "HEAD"], capture_output=True, text=True).stdout.strip()
meta = {"property": pid, "round": rnd, "kind": "three small independent behaviour-preserving edits (NOT defects): every check must stay silent on each of them",
        "origin": "independent sub-agent, given the property text and its own scratch worktree of /repo; asked for three 5-25 line tidy-ups of different functions the property "
                  "depends on, each applying to HEAD on its own, with one differential test against the original; nothing from /verif",
        "base_commit": base, "verified_by_me": {"equiv.py (all three applied)": "exit %d: %s" % (v["equiv"][0], v["equiv"][1][-1:]), "baseline tests with the edits": v["tests"][0]},
        "patches": {str(n): {"diffstat": p.get("diffstat"), "alarms_at_first_contact": p.get("alarms", {})} for n, p in v["patches"].items()}}
json.dump(meta, open(os.path.join(dst, "meta.json"), "w"), indent=1)
print("saved", dst)
