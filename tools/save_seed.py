#!/venv/bin/python
"""Save a verified sub-agent seed: tools/save_seed.py <Cxx> <round> <worktree> <verify.json> -> /verif/seeded/<Cxx>-r<round>/"""
import json, os, re, shutil, sys
pid, rnd, wt, vj = sys.argv[1], int(sys.argv[2]), sys.argv[3], sys.argv[4]
v = json.load(open(vj))
assert v["demo_with_patch"][0] == 1 and v["demo_without_patch"][0] == 0 and "missing=0" in v["tests_with_patch"][0], v
dst = "/verif/seeded/%s-r%d" % (pid, rnd)
os.makedirs(dst, exist_ok=True)
for f in ("patch.diff", "demo.py", "notes.md"):
    shutil.copy(os.path.join(wt, "seed_out", f), os.path.join(dst, f))
patch = open(os.path.join(dst, "patch.diff")).read()
notes = open(os.path.join(dst, "notes.md")).read()
need = ""
for line in notes.splitlines():
    if re.search(r"need|trigger|to see it", line, re.I):
        need = line.strip(" -*")
        break
ORIGIN = {17: "independent sub-agent (round 17, 20-minute limit), given only the property text and its own scratch worktree of /repo (base 7d4957a); the defect prompt of round 15 with the "
              "functions of ALL earlier seeds (rounds 1-5, 9, 11, 13, 15) excluded; nothing from /verif",
          15: "independent sub-agent (round 15), given only the property text and its own scratch worktree of /repo (base 7d4957a); the defect prompt of round 13 with the functions of ALL "
              "earlier seeds (rounds 1-5, 9, 11, 13) excluded; nothing from /verif",
          13: "independent sub-agent (round 13), given only the property text and its own scratch worktree of /repo (base 5098bbd); the defect prompt of round 11 with the functions of ALL "
              "earlier seeds (rounds 1-5, 9, 11) excluded; nothing from /verif",
          11: "independent sub-agent (round 11, after the semantic repairs of round 10), given only the property text and its own scratch worktree of /repo; the defect prompt of "
              "round 9 with the functions of ALL earlier seeds (rounds 1-5, 9) excluded, so the changes land in less prominent callees, wrappers and sibling implementations; nothing from /verif",
          9: "independent sub-agent (round 9, after the interpreter / normal-form rewrite of rounds 6-8), given only the property text and its own scratch worktree of /repo; the "
             "defect prompt of rounds 1-5 with the functions of earlier seeds excluded and `do not merely change a tolerance`; nothing from /verif",
          5: "independent sub-agent (round 5), given only the property text and its own scratch worktree of /repo; asked for a refactoring-shaped diff "
             "(extract / inline / vectorise / reorder, up to ~25 lines) hiding exactly one behavioural difference, not a changed constant, not in a function "
             "used by an earlier round; nothing from /verif"}
meta = {"property": pid, "round": rnd, "origin": ORIGIN.get(rnd, "independent sub-agent"),
        "files_changed": sorted(set(re.findall(r"^\+\+\+ b/(.*)$", patch, re.M))),
        "needs_to_manifest": need[:600],
        "verified_by_me": {"worktree": wt + " (removed afterwards)", "commands": [
            "git -C <wt> apply seed_out/patch.diff; NUMBA_DISABLE_JIT=1 PYTHONPATH=<wt> /venv/bin/python seed_out/demo.py   -> exit 1 (property violated)",
            "/venv/bin/python /verif/tools/baseline.py <wt>   -> %s (all 62 pinned baseline tests pass with the patch)" % v["tests_with_patch"][0],
            "git -C <wt> apply -R seed_out/patch.diff; same demo   -> exit 0 (property holds)",
            "tools/replay_seeds.py: git -C /repo apply patch.diff; every quick check of /verif (--no-write); git -C /repo checkout -- ."],
            "demo_tail_with_patch": v["demo_with_patch"][1]}}
json.dump(meta, open(os.path.join(dst, "meta.json"), "w"), indent=1)
print("saved", dst)
