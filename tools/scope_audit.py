#!/venv/bin/python
"""Scope audit: for every property, list the functions that appear in instance keys but are NOT reachable from the property's
entry points (sa/props/scopes.py).  Such instances make a check fire for a property whose code did not change."""
import sys, re, collections
sys.path.insert(0, "/verif")
from sa.core.index import Index
from sa.core import callgraph as cg
from sa.check import analyse
from sa.props import scopes

idx = Index("/repo")
fk = re.compile(r"(distance3d(?:\.\w+)*)::([\w.<>]+)")
for prop in sys.argv[1:] or sorted(scopes.ENTRY):
    for tier in ("quick", "thorough_rules"):
        rep = analyse(prop, "quick", "/repo")
        S = scopes.scope(idx, prop)
        out = collections.Counter()
        n = 0
        for i in rep.instances:
            m = fk.search(i["key"])
            if not m:
                continue
            n += 1
            key = "%s::%s" % (m.group(1), m.group(2))
            # class-level keys (module::Class) and module-level keys
            if key in S or any(k.startswith(key + ".") for k in S) or key.split(".<locals>")[0] in S:
                continue
            out[(i["rule"], key)] += 1
        print("== %s [%s] scope=%d funcs, %d keyed instances, %d out of scope" % (prop, tier, len(S), n, sum(out.values())))
        for (r, k), c in sorted(out.items()):
            print("     %-14s %s  x%d" % (r, k, c))
        break
