#!/venv/bin/python
"""Replay every kept seeded change (seeded/<id>/patch.diff) against the checks: apply to /repo, run every claimed quick check
(--no-write: evidence is never written from a patched tree), undo (git checkout -- .), and record which checks fire in
seeded/<id>/meta.json ('caught_by') and seeded/RESULTS.md.   usage: tools/replay_seeds.py [C01 C05 ...]"""
import json, subprocess, sys, os, glob, re

V = "/verif"
man = json.load(open(V + "/MANIFEST.json"))
ids = sys.argv[1:] or sorted(os.path.basename(d) for d in glob.glob(V + "/seeded/C*") if os.path.isdir(d))


def clean():
    return not subprocess.run(["git", "-C", "/repo", "status", "--porcelain"], capture_output=True, text=True).stdout.strip()


rows = []
for sid in ids:
    patch = "%s/seeded/%s/patch.diff" % (V, sid)
    if not clean():
        print("refusing: /repo has local changes"); sys.exit(2)
    r = subprocess.run(["git", "-C", "/repo", "apply", patch], capture_output=True, text=True)
    if r.returncode != 0:
        print(sid, "patch does not apply:", r.stderr); sys.exit(2)
    fired = {}
    try:
        procs = {}
        for c in man["checks"]:
            pid = c["property_id"]
            procs[pid] = subprocess.Popen(["/venv/bin/python", "sa/check.py", pid, "--tier", "quick", "--no-write"], cwd=V, stdout=subprocess.PIPE, stderr=subprocess.STDOUT, text=True)
        for pid, p in procs.items():
            out = p.communicate()[0]
            if p.returncode != 0:
                keys = [re.sub(r"^\s*\S+:\d+\s+", "", l).strip() for l in out.splitlines() if re.match(r"^\s+\S+:\d+\s+R-", l)]
                errs = [l.strip()[:200] for l in out.splitlines() if l.startswith("ANALYSIS-ERROR")]
                fired[pid] = {"exit": p.returncode, "violations": sorted(set(keys))[:8], "analysis_errors": sorted(set(errs))[:3]}
    finally:
        subprocess.run(["git", "-C", "/repo", "checkout", "--", "."], check=True)
    mp = "%s/seeded/%s/meta.json" % (V, sid)
    meta = json.load(open(mp))
    meta["caught_by"] = fired
    prop = meta.get("property", sid)
    meta["caught_by_own_property_check"] = fired.get(prop, {}).get("exit") == 1
    json.dump(meta, open(mp, "w"), indent=1)
    own = "yes" if meta["caught_by_own_property_check"] else ("exit 2" if fired.get(prop, {}).get("exit") == 2 else "no")
    others = ", ".join("%s%s" % (k, "" if v["exit"] == 1 else " (exit 2)") for k, v in sorted(fired.items()) if k != prop) or "-"
    rules = sorted({k.split("|")[0] for v in fired.values() for k in v["violations"]})
    rows.append((sid, ", ".join(meta["files_changed"]), own, others, ", ".join(rules) or ("MISSED: " + meta.get("missed", "")[:150] + "...")))
    print(sid, "own=%s" % own, "others=%s" % others, rules)
with open(V + "/seeded/RESULTS.md", "w") as fh:
    fh.write("# Seeded changes replayed against the quick checks (tools/replay_seeds.py)\n\n")
    fh.write("| seed | file | caught by its own property's check | other checks firing | rules / reason |\n|---|---|---|---|---|\n")
    for r in rows:
        fh.write("| %s | %s | %s | %s | %s |\n" % r)
assert clean()
