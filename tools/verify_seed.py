#!/venv/bin/python
"""Verify a sub-agent's seeded change in its scratch worktree: demo FAILS with the patch, PASSES without, baseline tests
pass with the patch; then run /verif's quick checks against the patch applied to /repo (and undo)."""
import subprocess, sys, os, json
pid = sys.argv[1]
wt = sys.argv[2] if len(sys.argv) > 2 else "/tmp/seed/wt_%s" % pid
out = os.path.join(wt, "seed_out")
patch = os.path.join(out, "patch.diff")
env = dict(os.environ, PYTHONPATH=wt, NUMBA_DISABLE_JIT=os.environ.get("SEED_JIT_OFF", "1"))
def run(cmd, **kw):
    return subprocess.run(cmd, capture_output=True, text=True, **kw)
def demo():
    r = run(["/venv/bin/python", os.path.join(out, "demo.py")], cwd=wt, env=env, timeout=1800)
    return r.returncode, (r.stdout + r.stderr).strip().splitlines()[-3:]
res = {"property": pid}
# make sure the worktree has exactly the patch applied
run(["git", "-C", wt, "checkout", "--", "distance3d"])
r = run(["git", "-C", wt, "apply", patch])
if r.returncode != 0:
    print("patch does not apply in worktree:", r.stderr); sys.exit(2)
res["demo_with_patch"] = demo()
t = run(["/venv/bin/python", "/verif/tools/baseline.py", wt], timeout=3000)
res["tests_with_patch"] = t.stdout.strip().splitlines()[:3]
run(["git", "-C", wt, "apply", "-R", patch])
res["demo_without_patch"] = demo()
run(["git", "-C", wt, "apply", patch])
if os.environ.get("SKIP_TRY"):
    res["verif_checks"] = ["skipped (replayed later with tools/replay_seeds.py)"]
else:
    s = run(["/venv/bin/python", "/verif/tools/try_seed.py", patch], cwd="/verif", timeout=3000)
    res["verif_checks"] = s.stdout.strip().splitlines()
print(json.dumps(res, indent=1))
