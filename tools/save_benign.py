#!/venv/bin/python
"""tools/save_benign.py <Cxx> <round> <worktree> <verify.json> -> /verif/benign_seeds/<Cxx>-r<round>/ (patch.diff, equiv.py, notes.md, meta.json).
The differential test needs the ORIGINAL package as <worktree>/seed_out/orig/distance3d: recreate it with
`git -C /repo archive <base commit> distance3d | tar -x -C <wt>/seed_out/orig` (base commit recorded in meta.json)."""
import json, os, re, shutil, subprocess, sys
pid, rnd, wt, vj = sys.argv[1], int(sys.argv[2]), sys.argv[3], sys.argv[4]
v = json.load(open(vj))
assert v["equiv"][0] == 0 and "missing=0" in v["tests"][0], v
dst = "/verif/benign_seeds/%s-r%d" % (pid, rnd)
os.makedirs(dst, exist_ok=True)
patch = subprocess.run(["git", "-C", wt, "diff", "--", "distance3d"], capture_output=True, text=True).stdout
open(os.path.join(dst, "patch.diff"), "w").write(patch)
for f in ("equiv.py", "notes.md"):
    shutil.copy(os.path.join(wt, "seed_out", f), os.path.join(dst, f))
base = subprocess.run(["git", "-C", wt, "rev-parse", "--short", "HEAD"], capture_output=True, text=True).stdout.strip()
meta = {"property": pid, "round": rnd, "kind": "behaviour-preserving refactoring (NOT a defect): every check must stay silent on it",
        "origin": "independent sub-agent, given the property text and its own scratch worktree of /repo; asked for a realistic 25-80 line clean-up of the functions the property "
                  "depends on, with a differential test against the original on >= 5000 random + hand-written degenerate inputs; nothing from /verif",
        "base_commit": base, "files_changed": sorted(set(re.findall(r"^\+\+\+ b/(.*)$", patch, re.M))), "diffstat": v["diffstat"],
        "verified_by_me": {"equiv.py": "exit %d: %s" % (v["equiv"][0], v["equiv"][1][-1:] ), "baseline tests with the patch": v["tests"][0]},
        "alarms_at_first_contact": v["alarms"]}
json.dump(meta, open(os.path.join(dst, "meta.json"), "w"), indent=1)
print("saved", dst)
