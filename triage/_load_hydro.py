"""Load pure submodules of distance3d.hydroelastic_contact without importing the package __init__ (open3d/libusb)."""
import importlib.util, sys, types, os
def load(root="/repo"):
    import distance3d
    pkg = types.ModuleType("distance3d.hydroelastic_contact")
    pkg.__path__ = [os.path.join(root, "distance3d", "hydroelastic_contact")]
    sys.modules["distance3d.hydroelastic_contact"] = pkg
    out = {}
    for name in ("_halfplanes", "_tetrahedron_intersection", "_barycentric_transform", "_forces", "_mesh_processing", "_tetra_mesh_creation"):
        spec = importlib.util.spec_from_file_location("distance3d.hydroelastic_contact." + name,
                                                      os.path.join(pkg.__path__[0], name + ".py"))
        m = importlib.util.module_from_spec(spec)
        sys.modules[spec.name] = m
        spec.loader.exec_module(m)
        out[name] = m
    return out
