"""Triage (finding R): does mesh.hill_climb_mesh_extreme cycle in the declared domain (sizes up to 1e2, positions up to 1e3)?

Three vertices a, b, c whose projections on d are equal in exact arithmetic can give dot(d, b - a) > eps, dot(d, c - b) > eps and dot(d, a - c) > eps in
floating point as soon as |d| * |v| * 1e-16 exceeds PROJECTION_LENGTH_EPSILON (1e-9... here 10 * EPSILON): the strict-gain argument needs an exact gain.
The loop is simulated with a step cap; a capped run is a query that never returns in the library.
Run: NUMBA_DISABLE_JIT=1 /venv/bin/python triage/hill_climb_cycle.py
"""
import numpy as np
from distance3d import mesh, colliders, random as d3random
from distance3d.mesh import PROJECTION_LENGTH_EPSILON

print("PROJECTION_LENGTH_EPSILON", PROJECTION_LENGTH_EPSILON)


def climb_steps(search_direction, start_idx, vertices, connections, cap=100000):
    best_idx = start_idx
    steps = 0
    converged = False
    while not converged:
        converged = True
        for connected_idx in connections[best_idx]:
            vertex_diff = np.ascontiguousarray(vertices[connected_idx] - vertices[best_idx])
            if search_direction.dot(vertex_diff) > PROJECTION_LENGTH_EPSILON:
                best_idx = connected_idx
                converged = False
                steps += 1
                if steps > cap:
                    return None
    return steps


rng = np.random.default_rng(0)
cycles = 0
n = 0
for trial in range(400):
    scale = 10.0 ** rng.uniform(0, 2)          # mesh size 1 .. 100
    verts = rng.normal(size=(30, 3)) * scale
    from scipy.spatial import ConvexHull
    hull = ConvexHull(verts)
    tri = hull.simplices
    conn = {}
    for i, j, k in tri:
        for x, ys in ((i, (j, k)), (j, (i, k)), (k, (i, j))):
            conn.setdefault(int(x), set()).update(int(y) for y in ys)
    conn = {k: np.array(sorted(v)) for k, v in conn.items()}
    for q in range(50):
        d = rng.normal(size=3) * 10.0 ** rng.uniform(0, 3)      # GJK hands over un-normalised directions: closest points up to 1e3 long
        n += 1
        s = climb_steps(d, int(tri[0, 0]), verts, conn)
        if s is None:
            cycles += 1
            if cycles <= 3:
                print("cycle: scale %.1f |d| %.1f" % (scale, np.linalg.norm(d)))
print("queries", n, "never terminating", cycles)

# --- structured case: a rotated box given as a mesh, direction = a face normal (four vertices tie up to rounding)
import pytransform3d.rotations as pr
cycles2 = 0
n2 = 0
first = None
for trial in range(3000):
    size = rng.uniform(0.5, 100.0, 3)
    R = pr.matrix_from_axis_angle(np.r_[pr.norm_vector(rng.normal(size=3)), rng.uniform(0, np.pi)])
    p = rng.uniform(-1e3, 1e3, 3) * rng.integers(0, 2)
    corners = np.array([[sx, sy, sz] for sx in (-1, 1) for sy in (-1, 1) for sz in (-1, 1)]) * 0.5 * size
    verts = corners.dot(R.T) + p
    hull = ConvexHull(verts)
    conn = {}
    for i, j, k in hull.simplices:
        for x, ys in ((i, (j, k)), (j, (i, k)), (k, (i, j))):
            conn.setdefault(int(x), set()).update(int(y) for y in ys)
    conn = {k: np.array(sorted(v)) for k, v in conn.items()}
    for axis in range(3):
        for sgn in (-1.0, 1.0):
            d = sgn * R[:, axis] * 10.0 ** rng.uniform(-1, 3)
            n2 += 1
            s = climb_steps(d, 0, verts, conn, cap=20000)
            if s is None:
                cycles2 += 1
                if first is None:
                    first = (size, p, d)
print("box-as-mesh, face-normal directions:", n2, "queries,", cycles2, "never terminate; first:", first)
