import numpy as np
from distance3d import colliders, gjk
from distance3d.gjk._gjk_nesterov_accelerated import gjk_nesterov_accelerated_distance
rng = np.random.default_rng(0)
s = colliders.Sphere(np.array([0., 0., 5.]), 1.0)
cone = colliders.Cone(np.eye(4), 1.0, 1.0)
print("sphere-cone  jolt %.6f  nesterov %.6f" % (gjk.gjk(s, cone)[0], gjk_nesterov_accelerated_distance(s, cone)))
p = np.eye(4); p[:3, 3] = [0, 0, 6]
cap = colliders.Capsule(p, 0.5, 1.0)
hull = colliders.ConvexHullVertices(rng.normal(size=(10, 3)) * 0.3)
print("capsule-hull jolt %.6f  nesterov %.6f" % (gjk.gjk(cap, hull)[0], gjk_nesterov_accelerated_distance(cap, hull)))
print("hull-capsule jolt %.6f  nesterov %.6f" % (gjk.gjk(hull, cap)[0], gjk_nesterov_accelerated_distance(hull, cap)))
box = colliders.Box(np.eye(4), np.ones(3))
print("sphere-box   jolt %.6f  nesterov %.6f" % (gjk.gjk(s, box)[0], gjk_nesterov_accelerated_distance(s, box)))
print("sphere-sphere jolt %.6f nesterov %.6f" % (gjk.gjk(s, colliders.Sphere(np.zeros(3), 0.5))[0], gjk_nesterov_accelerated_distance(s, colliders.Sphere(np.zeros(3), 0.5))))
