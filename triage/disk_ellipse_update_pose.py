import numpy as np
from distance3d import colliders
d = colliders.Disk(np.zeros(3), 1.0, np.array([0.,0.,1.]))
e = colliders.Ellipse(np.zeros(3), np.array([[1.,0,0],[0,1.,0]]), np.array([1.,2.]))
pose = np.eye(4); pose[:3,3] = [1,2,3]
for c in (d, e):
    c.update_pose(pose)
    for name in ("support_function", "first_vertex", "collider2origin", "aabb", "center"):
        try:
            m = getattr(c, name)
            r = m(np.array([1.,0.,0.])) if name=="support_function" else m()
            print(type(c).__name__, name, "ok", np.round(np.asarray(r).ravel()[:4],3))
        except Exception as ex:
            print(type(c).__name__, name, "RAISED", type(ex).__name__, str(ex).splitlines()[0][:80])
