"""Triage for R-SQRTDOMAIN (C04): cylinder_aabb / disk_aabb / cone_aabb take np.sqrt(1 - c*c) of a rotation-matrix entry c.
A product of two valid rotation matrices (what a TransformManager computes along a kinematic chain) has entries
1.0000000000000002; 1 - c*c is then -4.4e-16 and the AABB is NaN: aabb_overlap is False against everything, so the broad
phase discards real collisions.   run: NUMBA_DISABLE_JIT=1 /venv/bin/python triage/aabb_sqrt_rounding.py"""
import sys, warnings
import numpy as np
import pytransform3d.rotations as pr
from distance3d.containment import cylinder_aabb, disk_aabb, cone_aabb
warnings.simplefilter("ignore")
rng = np.random.default_rng(2)
n = bad = 0
example = None
for i in range(100000):
    a, b = rng.uniform(-np.pi, np.pi, 2)
    R = pr.active_matrix_from_angle(0, a) @ pr.active_matrix_from_angle(0, -a + 1e-9 * b)   # ~identity, orthonormal to 1 ulp
    if np.max(np.abs(R)) > 1.0:
        n += 1
        T = np.eye(4)
        T[:3, :3] = R
        res = [cylinder_aabb(T, 0.5, 1.0), cone_aabb(T, 0.5, 1.0), disk_aabb(T[:3, 3], 0.5, T[:3, 2])]
        if not all(np.all(np.isfinite(x)) for r in res for x in r):
            bad += 1
            example = example or (R, res)
print("poses with an entry > 1 by rounding: %d, non-finite AABBs: %d" % (n, bad))
if example:
    print("R =", repr(example[0]))
    for nm, r in zip(("cylinder", "cone", "disk"), example[1]):
        print(nm, r)
sys.exit(1 if bad else 0)
