import sys, numpy as np
sys.path.insert(0, "/verif/triage")
from _load_hydro import load
root = sys.argv[1] if len(sys.argv) > 1 else "/repo"
m = load(root)
hp, ti = m["_halfplanes"], m["_tetrahedron_intersection"]
# J: make_halfplanes with row 1 parallel to the contact plane (normal2d == 0)
plane_normal = np.array([0., 0., 1.]); d = 0.0
from distance3d.utils import plane_basis_from_normal
cart2plane = np.vstack(plane_basis_from_normal(plane_normal))
X = np.array([[1., 0, 0.2, -1], [0, 0, 1., -0.5], [0, 1., 0.1, -1], [-1., 0, 0.3, -1], [0, -1., 0.2, -1], [1., 1., 0, -2], [-1., 1, 0, -2], [1., -1, 0.5, -2]])
res = ti.make_halfplanes(np.ascontiguousarray(X), plane_normal * d, np.ascontiguousarray(cart2plane))
print("make_halfplanes rows returned:", len(res))
# expected: 7 rows = rows 0,2,3,4,5,6,7 of the projection
exp = []
for i in range(8):
    n2 = X[i, :3].dot(cart2plane.T)
    if np.linalg.norm(n2) > 1e-12:
        p = n2 * (-X[i, 3]) / n2.dot(n2)
        exp.append([p[0], p[1], n2[1], -n2[0]])
exp = np.array(exp)
print("matches expected compaction:", res.shape == exp.shape and np.allclose(res, exp))
# L: 8 unit-direction lines through one point
ang = np.linspace(0, np.pi, 8, endpoint=False)
H = np.array([[0.0, 0.0, np.cos(a), np.sin(a)] for a in ang])
try:
    pts = hp.intersect_halfplanes(np.ascontiguousarray(H))
    print("intersect_halfplanes returned", len(pts), "points")
except Exception as e:
    print("intersect_halfplanes raised", type(e).__name__, e)
