import numpy as np, sys
from distance3d.aabb_tree import AabbTree
def box(x): return np.array([[x,x+1.0],[0,1.0],[0,1.0]])
# empty tree
t=AabbTree()
try:
    print("empty box query:", t.overlaps_aabb(box(0)))
except Exception as e: print("empty box query raised", type(e).__name__, e)
t2=AabbTree(); t2.insert_aabb(box(0))
try:
    print("tree vs empty:", t2.overlaps_aabb_tree(t))
except Exception as e: print("tree vs empty raised", type(e).__name__, e)
try:
    print("empty vs tree:", t.overlaps_aabb_tree(t2))
except Exception as e: print("empty vs tree raised", type(e).__name__, e)
# sort second batch
t=AabbTree()
t.insert_aabbs(np.array([box(0),box(10),box(20)]), pre_insertion_methode="sort")
t.insert_aabbs(np.array([box(35),box(30)]), pre_insertion_methode="sort")
print("nodes types", t.nodes[:,3])
print("query box(30):", t.overlaps_aabb(box(30.2)))
