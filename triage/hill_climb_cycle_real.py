"""Triage (finding R), against the library function itself: box-shaped meshes, search direction = a face normal; each query under a 2 s alarm.
Run: NUMBA_DISABLE_JIT=1 /venv/bin/python triage/hill_climb_cycle_real.py"""
import signal
import numpy as np
import numba
import pytransform3d.rotations as pr
from scipy.spatial import ConvexHull
from distance3d.mesh import MeshHillClimbingSupportFunction


class Timeout(Exception):
    pass


def handler(signum, frame):
    raise Timeout()


signal.signal(signal.SIGALRM, handler)
rng = np.random.default_rng(0)
hang = n = worst = 0
for trial in range(1500):
    size = rng.uniform(0.5, 100.0, 3)
    R = pr.matrix_from_axis_angle(np.r_[pr.norm_vector(rng.normal(size=3)), rng.uniform(0, np.pi)])
    corners = np.array([[sx, sy, sz] for sx in (-1, 1) for sy in (-1, 1) for sz in (-1, 1)]) * 0.5 * size
    verts = np.ascontiguousarray(corners.dot(R.T))
    tri = ConvexHull(verts).simplices
    sf = MeshHillClimbingSupportFunction(np.eye(4), verts, tri)
    for axis in range(3):
        for sgn in (-1.0, 1.0):
            d = sgn * R[:, axis] * 10.0 ** rng.uniform(-1, 3)
            n += 1
            signal.setitimer(signal.ITIMER_REAL, 2.0)
            try:
                idx, p = sf(d)
                signal.setitimer(signal.ITIMER_REAL, 0)
                worst = max(worst, (np.max(verts.dot(d)) - p.dot(d)) / np.linalg.norm(d))
            except Timeout:
                hang += 1
print("queries", n, "not finished within 2 s:", hang, "largest shortfall of the returned support point (in length units):", worst)
