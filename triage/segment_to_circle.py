import numpy as np, sys
from distance3d.distance import line_segment_to_circle
rng = np.random.default_rng(int(sys.argv[1]) if len(sys.argv) > 1 else 0)
bad = 0; worst = (0, None)
N = 400
for k in range(N):
    s = rng.normal(size=3) * 2; e = s + rng.normal(size=3) * 2
    c = rng.normal(size=3); r = rng.uniform(0.5, 3.0); n = rng.normal(size=3); n /= np.linalg.norm(n)
    d, ps, pc = line_segment_to_circle(s, e, c, r, n)
    x = np.cross(n, [1, 0, 0]); x /= np.linalg.norm(x); y = np.cross(n, x)
    th = np.linspace(0, 2 * np.pi, 4001)
    pts = c + r * (np.cos(th)[:, None] * x + np.sin(th)[:, None] * y)
    ts = np.linspace(0, 1, 801)
    seg = s + ts[:, None] * (e - s)
    best = np.min(np.linalg.norm(pts[:, None, :] - seg[None, :, :], axis=2))
    if d - best > 1e-2:
        bad += 1
        if d - best > worst[0]:
            worst = (d - best, (s, e, c, r, n, d, best))
print("non-minimal: %d of %d, worst excess %.3f" % (bad, N, worst[0]))
if worst[1] is not None:
    s, e, c, r, n, d, best = worst[1]
    print("witness: start=%s end=%s center=%s radius=%.4f normal=%s -> returned %.4f, true %.4f" % (np.round(s, 4), np.round(e, 4), np.round(c, 4), r, np.round(n, 4), d, best))
