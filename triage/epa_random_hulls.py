import numpy as np, sys
from scipy.spatial import ConvexHull
from distance3d import colliders, gjk, epa
rng = np.random.default_rng(int(sys.argv[1]) if len(sys.argv)>1 else 0)
N=int(sys.argv[2]) if len(sys.argv)>2 else 300
wrong=asserts=fail=ok=skipped=0
for t in range(N):
    nv = 8
    v1 = rng.normal(size=(nv,3)); v2 = rng.normal(size=(nv,3)) + rng.normal(size=3)*0.5
    c1 = colliders.ConvexHullVertices(v1); c2 = colliders.ConvexHullVertices(v2)
    d, a, b, simplex = gjk.gjk(c1, c2)
    if d > 0: skipped+=1; continue
    # need full 4-simplex
    md = (v1[:,None,:]-v2[None,:,:]).reshape(-1,3)
    hull = ConvexHull(md)
    # facets: n.x + off <= 0 inside; origin inside => off<0; depth=min -off
    depth = np.min(-hull.equations[:,3])
    if depth <= 1e-9: skipped+=1; continue
    try:
        mtv, faces, success = epa.epa(simplex, c1, c2)
    except AssertionError:
        asserts+=1; continue
    if not success: fail+=1; continue
    if abs(np.linalg.norm(mtv)-depth) > 1e-6*max(1,depth): wrong+=1; print("wrong", np.linalg.norm(mtv), depth)
    else: ok+=1
print(dict(ok=ok, wrong=wrong, asserts=asserts, fail=fail, skipped=skipped))
