import numpy as np, sys
from distance3d.distance import line_to_circle
rng = np.random.default_rng(int(sys.argv[1]) if len(sys.argv) > 1 else 0)
bad = 0; worst = 0
N = 300
for k in range(N):
    lp = rng.normal(size=3) * 2; ld = rng.normal(size=3); ld /= np.linalg.norm(ld)
    c = rng.normal(size=3); r = rng.uniform(0.2, 3.0); n = rng.normal(size=3); n /= np.linalg.norm(n)
    d, pl, pc = line_to_circle(lp, ld, c, r, n)
    # brute force over the circle: distance point-to-line is closed form
    x = np.cross(n, [1, 0, 0]); x = x / np.linalg.norm(x) if np.linalg.norm(x) > 1e-6 else np.cross(n, [0, 1, 0]); x /= np.linalg.norm(x); y = np.cross(n, x)
    th = np.linspace(0, 2 * np.pi, 20001)
    pts = c + r * (np.cos(th)[:, None] * x + np.sin(th)[:, None] * y)
    diff = pts - lp
    dist = np.linalg.norm(diff - (diff @ ld)[:, None] * ld, axis=1)
    best = dist.min()
    if d - best > 5e-3 * max(1, r):
        bad += 1; worst = max(worst, d - best)
print("non-minimal: %d of %d, worst excess %.3f" % (bad, N, worst))
