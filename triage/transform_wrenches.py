import sys, numpy as np
sys.path.insert(0, "/verif/triage")
from _load_hydro import load
m = load(sys.argv[1] if len(sys.argv) > 1 else "/repo")["_forces"]
# body-2 frame rotated by +90 deg about z w.r.t. the world, no translation
T = np.eye(4); T[:3, :3] = np.array([[0., -1, 0], [1, 0, 0], [0, 0, 1]])
f21 = np.array([1.0, 0.0, 0.0]); zero = np.zeros(3)
w12, w21 = m._transform_wrenches(T, f21, zero, zero)
print("force on body 1 in body-2 frame:", f21, " expected in world (R f):", T[:3, :3] @ f21)
print("returned wrench21_in_world[:3] :", np.round(w21[:3], 6), " (= R^T f)")
print("f12 = -f21 still holds         :", np.allclose(w12[:3], -w21[:3]))
