"""Witness of finding S (fixed in /repo 7d4957a): line_to_circle with the line on the circle's axis and a normal that has non-zero x and z components.
Run:  NUMBA_DISABLE_JIT=1 PYTHONPATH=<tree> /venv/bin/python /verif/triage/line_to_circle_axis.py
On 5098bbd: distance 2.828..., |closest_point_circle - center| = 2.828... for radius 2 (the perpendicular vector [1, 0, -1] was not normalised)."""
import numpy as np
from distance3d.distance import line_to_circle, line_segment_to_circle
n = np.array([1.0, 0.0, 1.0]) / np.sqrt(2.0)
c = np.array([0.3, -0.2, 0.5])
r = 2.0
bad = 0
for fn, args in ((line_to_circle, (c + 0.7 * n, n, c, r, n)), (line_segment_to_circle, (c - 5 * n, c + 5 * n, c, r, n))):
    d, pl, pc = fn(*args)
    on_circle = abs(np.linalg.norm(pc - c) - r) < 1e-9 and abs(np.dot(pc - c, n)) < 1e-9
    print(fn.__name__, "dist", d, "| |pc - c| =", np.linalg.norm(pc - c), "(radius %s)" % r, "OK" if on_circle and abs(d - np.linalg.norm(pl - pc)) < 1e-9 else "VIOLATED")
    bad += not on_circle
raise SystemExit(1 if bad else 0)
