import numpy as np
from distance3d.distance import plane_to_triangle, plane_to_box
plane_point = np.zeros(3); plane_normal = np.array([0., 0., 1.])
# a large triangle crossing the plane z = 0 at a very shallow angle (|cos| < 1e-3 between its longest edge and the plane)
tilt = 5e-4
tri = np.array([[-50., 0., -50. * tilt], [50., 0., 50. * tilt], [0., 30., 0.0]])
d, p_plane, p_tri = plane_to_triangle(plane_point, plane_normal, tri)
print("distance", d)
print("returned 'closest point on plane'   :", p_plane, " -> distance to the plane:", abs(p_plane[2]))
print("returned 'closest point on triangle':", p_tri, " -> is a triangle vertex:", any(np.allclose(p_tri, v) for v in tri))
print("first point is a triangle vertex (roles swapped):", any(np.allclose(p_plane, v) for v in tri))
