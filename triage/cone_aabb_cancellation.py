"""Triage (finding Q): cone_aabb recomputes the axis as (p + h*axis) - p.

The rounding of that round trip (about ulp(p)/h relative) sits under a square root next to 1, so an error of 1e-14
becomes 1e-7 in the bound of the base disc: the box is no longer tight within 1e-9*L (C04, tightness clause).
Run: NUMBA_DISABLE_JIT=1 /venv/bin/python triage/cone_aabb_cancellation.py
"""
import numpy as np
from distance3d.containment import cone_aabb

rng = np.random.default_rng(0)
worst = 0.0
bad = 0
n = 0
for _ in range(20000):
    p = rng.uniform(-200, 200, 3)
    r = rng.uniform(0.5, 5.0)
    h = rng.uniform(0.2, 2.0)
    T = np.eye(4)
    T[:3, 3] = p
    lo, hi = cone_aabb(T, r, h)
    # exact box of an identity-pose cone: base disc radius r in x, y at z = p_z; tip at p_z + h
    lo_x = np.array([p[0] - r, p[1] - r, p[2]])
    hi_x = np.array([p[0] + r, p[1] + r, p[2] + h])
    err = max(np.max(np.abs(lo - lo_x)), np.max(np.abs(hi - hi_x)))
    L = max(1.0, r, h)                     # size scale of the collider
    Lp = max(L, np.max(np.abs(p)))         # the most generous reading: position counts too
    n += 1
    if err > 1e-9 * Lp:
        bad += 1
    worst = max(worst, err / Lp)
print("cones", n, "bounds off by more than 1e-9*max(size, |p|):", bad, "worst err / L:", worst)
T = np.eye(4); T[:3, 3] = (100.3, -57.1, 12.9)
print(cone_aabb(T, 3.0, 0.7))
