"""R-ORIGINFREE: a membership / orientation decision must not depend on where the coordinate origin is.
Small intraprocedural affine-kind inference (P position, D direction or difference of positions, S scalar): the sign test of an
inner product <D, P> (np.dot / .dot / @ / np.sum(D * P)) against a constant is origin dependent — it silently assumes that the
origin lies inside the shape.  <D, P - Q> is fine.  Seeds: parameter names (the repository's convention) and pose slots."""
import ast

from ..core.astutil import u, call_name, dot_args, ncmp, const
from ..engines.frames import POINT_WORDS, DIR_WORDS, pose_frames

P, D, S = "P", "D", "S"


def _seed(name):
    n = name.lower()
    if pose_frames(name):
        return "POSE"
    if any(w in n for w in DIR_WORDS):
        return D
    if any(w in n for w in POINT_WORDS) or n in ("points", "p"):
        return P
    return None


class _Aff:
    def __init__(self, f):
        self.f = f
        self.env = {p: _seed(p) for p in f.params()}
        self.findings = []

    def ev(self, e):
        if isinstance(e, ast.Name):
            return self.env.get(e.id)
        if isinstance(e, ast.Constant):
            return S if isinstance(e.value, (int, float)) else None
        if isinstance(e, ast.Attribute):
            if e.attr == "T":
                return self.ev(e.value)
            return None
        if isinstance(e, ast.Subscript):
            b = self.ev(e.value)
            if b == "POSE":
                txt = u(e.slice).replace(" ", "")
                if txt.endswith(",3") or txt.endswith(",3)"):
                    return P
                if txt in (":3,:3", "(:3,:3)"):
                    return "ROT"
                return D
            return b if b in (P, D) else None
        if isinstance(e, ast.UnaryOp):
            return self.ev(e.operand)
        if isinstance(e, ast.BinOp):
            a, b = self.ev(e.left), self.ev(e.right)
            if isinstance(e.op, ast.Sub):
                if a == P and b == P:
                    return D
                if a == P and b == D:
                    return P
                if a == D and b == D:
                    return D
                return None
            if isinstance(e.op, ast.Add):
                if {a, b} == {P, D} or {a, b} == {P, "RP"}:
                    return P            # translation + rotated position = position in the target frame
                if a == D and b == D:
                    return D
                return None
            if isinstance(e.op, (ast.Mult, ast.Div)):
                if {a, b} == {D, P}:
                    return "DxP"          # elementwise product direction * position
                if a == S or a is None:
                    return b if b in (D,) else None
                if b == S or b is None:
                    return a if a in (D,) else None
                return None
            if isinstance(e.op, ast.MatMult):
                return self._dot(a, b)
            return None
        if isinstance(e, ast.Call):
            cn = call_name(e) or ""
            short = cn.split(".")[-1]
            da = dot_args(e)
            if da is not None:
                return self._dot(self.ev(da[0]), self.ev(da[1]))
            args = [self.ev(a) for a in e.args]
            a0 = args[0] if args else None
            if short == "cross" and len(args) == 2:
                return D if args[0] == D and args[1] == D else None
            if short in ("mean", "copy", "array", "asarray", "ascontiguousarray", "atleast_2d", "abs"):
                return a0 if a0 in (P, D) else None
            if short == "sum":
                return "<D,P>" if a0 == "DxP" else None
            if short in ("norm_vector",):
                return D if a0 == D else None
            if short == "invert_transform":
                return "POSE" if a0 == "POSE" else None
            if short == "angles_between_vectors" and len(args) == 2:
                return self._dot(args[0], args[1])       # the angle between a direction and a POSITION is as origin dependent as their inner product
            return None
        return None

    def _dot(self, a, b):
        if {a, b} == {D, P}:
            return "<D,P>"
        if a == "ROT" or b == "ROT":
            other = b if a == "ROT" else a
            return "RP" if other == P else (D if other == D else None)     # a rotated position is not a position of the same frame
        return S if (a in (D, P) and b in (D, P)) else None

    def run(self):
        for st in ast.walk(self.f.node):
            pass
        self._block(self.f.node.body)
        return self.findings

    def _block(self, body):
        for st in body:
            if isinstance(st, ast.Assign):
                v = self.ev(st.value)
                self._scan(st.value)
                for t in st.targets:
                    if isinstance(t, ast.Name):
                        self.env[t.id] = v if v is not None else ("POSE" if _seed(t.id) == "POSE" else None)
                    elif isinstance(t, ast.Subscript):
                        self._scan(t)
            elif isinstance(st, ast.AugAssign):
                self._scan(st.value)
                self._scan(st.target)
                if isinstance(st.target, ast.Name) and isinstance(st.op, (ast.Add, ast.Sub)):
                    a, b = self.env.get(st.target.id), self.ev(st.value)
                    self.env[st.target.id] = P if (a == P and b == D) else (a if a == b == D else None)
            elif isinstance(st, (ast.If, ast.While)):
                self._scan(st.test)
                self._block(st.body)
                self._block(st.orelse)
            elif isinstance(st, ast.For):
                it = self.ev(st.iter)
                if isinstance(st.iter, ast.Call) and call_name(st.iter) == "enumerate" and st.iter.args and isinstance(st.target, ast.Tuple) and len(st.target.elts) == 2:
                    if isinstance(st.target.elts[1], ast.Name):
                        self.env[st.target.elts[1].id] = self.ev(st.iter.args[0])
                elif isinstance(st.target, ast.Name):
                    self.env[st.target.id] = it if it in (P, D) else None
                self._block(st.body)
                self._block(st.orelse)
            elif isinstance(st, (ast.Return, ast.Expr)) and st.value is not None:
                self._scan(st.value)
            elif isinstance(st, (ast.With, ast.Try)):
                self._block(st.body)

    def _scan(self, e):
        for c in ast.walk(e):
            if isinstance(c, ast.Compare) and len(c.ops) == 1:
                t = ncmp(c)
                if t is None:
                    continue
                for side, other in ((t[1], t[2]), (t[2], t[1])):
                    if self.ev(side) == "<D,P>" and (isinstance(const(other), (int, float)) or (isinstance(other, ast.Name) and other.id.isupper())):
                        self.findings.append(c)


def r_originfree(idx, rep, modules, rule="R-ORIGINFREE", floor=5):
    rep.rule(rule, "orientation / membership tests are translation invariant: no comparison of an inner product <direction, POSITION> with a "
                   "constant (only <direction, position - position>); such a test assumes the frame's origin lies inside the shape", floor=floor)
    for mname in modules:
        m = idx.module(mname)
        for f in m.functions.values():
            if "<locals>" in f.qualname:
                continue
            fs = _Aff(f).run()
            key = "%s|no origin-dependent sign test" % f.key
            if fs:
                c = fs[0]
                rep.bad(rule, key, "%s:%d" % (m.relpath, c.lineno),
                        "`%s` compares the inner product of a direction with a POSITION (not a difference of positions) with a constant: the outcome changes "
                        "when the same shape is described in a frame whose origin lies elsewhere (e.g. a mesh given relative to a joint frame, an offset box) — "
                        "faces get flipped / points misclassified for valid inputs" % u(c)[:90])
            else:
                rep.ok(rule, key, f.where, "no <D, P> sign test")


# ---------------------------------------------------------------------------------------------------------------------------------
# R-AFFINE: a returned point is an affine combination of positions (position weights sum to 1).
#
# Every vector expression gets a position weight: 1 for a position, 0 for a direction / difference of positions; weights add under + and -,
# scale under multiplication by a numeric constant, survive multiplication by an unknown scalar only when they are 0.  p + t*d has weight 1,
# 0.5*(p + q) has weight 1, p - q weight 0, center + (p + t*d) weight 2: that last value moves by twice the translation when the scene is
# translated — it is not a point of the scene.  Public functions are seeded from the repository's parameter naming convention; private
# helpers are evaluated per call site with the weights of the actual arguments (a helper that documents its `line_point` as centre-relative
# gets weight 0 from a caller that subtracted the centre, weight 1 from one that forgot to).

from fractions import Fraction as _Fr


class _Weights:
    def __init__(self, idx):
        self.idx = idx
        self.memo = {}
        self.busy = set()
        self.findings = {}        # (callee key, ret position) -> (node, weight, context text)
        self.analysed = set()
        self.illtyped = {}        # (function key, line) -> (node, context): direction - position
        self._ctx = None

    def seed(self, name):
        k = _seed(name)
        return _Fr(1) if k == P else (_Fr(0) if k == D else None)

    def analyse(self, f, argw=None, ctx=None):
        params = f.params()
        seeds = tuple((argw[i] if (argw is not None and i < len(argw)) else self.seed(p)) for i, p in enumerate(params))
        key = (f.key, seeds)
        if key in self.memo:
            return self.memo[key]
        if key in self.busy:
            return None
        self.busy.add(key)
        self.analysed.add(f.key)
        env = dict(zip(params, seeds))
        rets = []
        saved_ctx = self._ctx
        self._ctx = ctx          # only helpers analysed for a call site have a context: there the parameter kinds are facts, not naming conventions
        self._block(f, f.node.body, env, rets, ctx or ("%s with its documented parameter kinds" % f.name))
        self._ctx = saved_ctx
        self.busy.discard(key)
        out = None
        for r in rets:
            if out is None:
                out = r
            elif isinstance(out, tuple) and isinstance(r, tuple) and len(out) == len(r):
                out = tuple(a if a == b else None for a, b in zip(out, r))
            elif out != r:
                out = None
        self.memo[key] = out
        return out

    def num(self, e):
        if isinstance(e, ast.Constant) and isinstance(e.value, (int, float)) and not isinstance(e.value, bool):
            return _Fr(e.value).limit_denominator(10 ** 6)
        if isinstance(e, ast.UnaryOp) and isinstance(e.op, ast.USub):
            v = self.num(e.operand)
            return -v if v is not None else None
        if isinstance(e, ast.BinOp) and isinstance(e.op, (ast.Mult, ast.Div, ast.Add, ast.Sub)):
            a, b = self.num(e.left), self.num(e.right)
            if a is None or b is None:
                return None
            if isinstance(e.op, ast.Mult):
                return a * b
            if isinstance(e.op, ast.Div):
                return a / b if b != 0 else None
            return a + b if isinstance(e.op, ast.Add) else a - b
        return None

    def w(self, f, e, env):
        if isinstance(e, ast.Name):
            return env.get(e.id)
        if isinstance(e, ast.UnaryOp) and isinstance(e.op, ast.USub):
            v = self.w(f, e.operand, env)
            return -v if isinstance(v, _Fr) else None
        if isinstance(e, ast.Subscript):
            v = self.w(f, e.value, env)
            return v if isinstance(v, _Fr) else None
        if isinstance(e, ast.BinOp):
            if isinstance(e.op, (ast.Add, ast.Sub)):
                a, b = self.w(f, e.left, env), self.w(f, e.right, env)
                if isinstance(a, _Fr) and isinstance(b, _Fr):
                    if isinstance(e.op, ast.Sub) and a == 0 and b == 1 and getattr(self, "_ctx", None) is not None:
                        # direction - position: not an operation of affine geometry (point - point, point +- vector, vector +- vector are).  In a helper
                        # this is what `x - centre` becomes when the caller has ALREADY made x centre-relative: the centre is subtracted twice
                        self.illtyped.setdefault((f.key, e.lineno), (e, self._ctx))
                    return a + b if isinstance(e.op, ast.Add) else a - b
                return None
            if isinstance(e.op, (ast.Mult, ast.Div)):
                for vec, sc, left_is_vec in ((e.left, e.right, True), (e.right, e.left, False)):
                    if isinstance(e.op, ast.Div) and not left_is_vec:
                        continue
                    wv = self.w(f, vec, env)
                    if isinstance(wv, _Fr) and self.w(f, sc, env) is None:
                        c = self.num(sc)
                        if c is not None:
                            return wv * c if isinstance(e.op, ast.Mult) else (wv / c if c != 0 else None)
                        return _Fr(0) if wv == 0 else None
                return None
            return None
        if isinstance(e, ast.Call):
            cn = call_name(e) or ""
            short = cn.split(".")[-1]
            if short in ("copy", "array", "asarray", "ascontiguousarray") and e.args and not isinstance(e.args[0], (ast.List, ast.Tuple)):
                return self.w(f, e.args[0], env)
            if short == "norm_vector" and e.args:
                return _Fr(0) if self.w(f, e.args[0], env) == 0 else None
            if short == "cross" and len(e.args) == 2:
                return _Fr(0) if self.w(f, e.args[0], env) == 0 and self.w(f, e.args[1], env) == 0 else None
            callee = self.idx.resolve_call(f.module, e, f.cls)
            if callee is not None and getattr(callee, "cls", None) is None and callee.name.startswith("_") and not callee.name.startswith("__") \
                    and not e.keywords and not any(isinstance(a, ast.Starred) for a in e.args):
                argw = [self.w(f, a, env) for a in e.args]
                r = self.analyse(callee, argw, "%s called from %s with (%s)" % (callee.name, f.name, ", ".join(
                    "%s: %s" % (p_, {None: "?", _Fr(0): "direction/offset", _Fr(1): "position"}.get(w_, "weight %s" % w_)) for p_, w_ in zip(callee.params(), argw))))
                return r
            for a_ in e.args:          # scalar-valued calls (np.dot, norms): their vector arguments are still expressions of this algebra
                if not isinstance(a_, ast.Starred):
                    self.w(f, a_, env)
            if isinstance(e.func, ast.Attribute):
                self.w(f, e.func.value, env)
            return None
        return None

    def _block(self, f, body, env, rets, ctx):
        for st in body:
            if isinstance(st, ast.Assign):
                v = self.w(f, st.value, env)
                for t in st.targets:
                    if isinstance(t, ast.Name):
                        env[t.id] = v if not isinstance(v, tuple) else None
                    elif isinstance(t, ast.Tuple) and isinstance(v, tuple) and len(v) == len(t.elts):
                        for te, ve in zip(t.elts, v):
                            if isinstance(te, ast.Name):
                                env[te.id] = ve
                    elif isinstance(t, ast.Tuple):
                        for te in t.elts:
                            if isinstance(te, ast.Name):
                                env[te.id] = None
            elif isinstance(st, ast.AugAssign) and isinstance(st.target, ast.Name):
                a, b = env.get(st.target.id), self.w(f, st.value, env)
                if isinstance(st.op, (ast.Add, ast.Sub)) and isinstance(a, _Fr) and isinstance(b, _Fr):
                    env[st.target.id] = a + b if isinstance(st.op, ast.Add) else a - b
                elif isinstance(st.op, (ast.Mult, ast.Div)) and isinstance(a, _Fr) and self.num(st.value) is not None and self.num(st.value) != 0:
                    env[st.target.id] = a * self.num(st.value) if isinstance(st.op, ast.Mult) else a / self.num(st.value)
                elif isinstance(st.op, (ast.Mult, ast.Div)) and a == 0:
                    env[st.target.id] = _Fr(0)
                else:
                    env[st.target.id] = None
            elif isinstance(st, ast.If):
                e1, e2 = dict(env), dict(env)
                self._block(f, st.body, e1, rets, ctx)
                self._block(f, st.orelse, e2, rets, ctx)
                for k in set(e1) | set(e2):
                    env[k] = e1.get(k) if e1.get(k) == e2.get(k) else None
            elif isinstance(st, (ast.For, ast.While)):
                for n in ast.walk(st):
                    if isinstance(n, ast.Name) and isinstance(n.ctx, ast.Store):
                        env[n.id] = None
                self._block(f, st.body, env, rets, ctx)
                for n in ast.walk(st):
                    if isinstance(n, ast.Name) and isinstance(n.ctx, ast.Store):
                        env[n.id] = None
            elif isinstance(st, ast.Return) and st.value is not None:
                elts = st.value.elts if isinstance(st.value, ast.Tuple) else [st.value]
                ws = [self.w(f, x, env) for x in elts]
                for i, (x, wv) in enumerate(zip(elts, ws)):
                    if isinstance(wv, _Fr) and wv not in (0, 1):
                        self.findings.setdefault((f.key, i), (st, x, wv, ctx))
                rets.append(tuple(w_ if isinstance(w_, _Fr) else None for w_ in ws) if isinstance(st.value, ast.Tuple) else (ws[0] if isinstance(ws[0], _Fr) else None))
            elif isinstance(st, ast.Expr):
                self.w(f, st.value, env)
            elif isinstance(st, (ast.With, ast.Try)):
                self._block(f, st.body, env, rets, ctx)


def r_affine(idx, rep, modules, rule="R-AFFINE", floor=20):
    rep.rule(rule, "every returned vector is an affine combination of positions (position weights sum to 1) or a direction (sum 0): position weights are "
                   "inferred through +, -, constant factors and — per call site — through private helpers; a weight of 2 (centre + absolute point) is a value "
                   "that moves twice as far as the scene when the scene is translated", floor=floor)
    W = _Weights(idx)
    funcs = []
    for mname in modules:
        m = idx.module(mname)
        for f in m.functions.values():
            if "<locals>" in f.qualname:
                continue
            funcs.append(f)
            if not (f.name.startswith("_") and not f.name.startswith("__")):
                W.analyse(f)
    for f in funcs:
        if f.key not in W.analysed:
            continue
        bad = [(k, v) for k, v in W.findings.items() if k[0] == f.key]
        key = "%s|returned vectors are affine combinations" % f.key
        if bad:
            (fk, i), (st, x, wv, ctx) = bad[0]
            rep.bad(rule, key, "%s:%d" % (f.module.relpath, st.lineno),
                    "element %d of `%s` (`%s`) has position weight %s in the context [%s]: it is the sum of %s positions, not a point — translating the whole scene by t moves it "
                    "by %s*t, so the returned 'closest point' does not lie on the primitive unless the frame origin happens to coincide with the reference point"
                    % (i, u(st)[:60], u(x)[:40], wv, ctx[:260], wv, wv))
        else:
            rep.ok(rule, key, f.where, "position weights of the returned vectors are 0, 1 or undetermined")
    for (fk, ln), (e, ctx) in sorted(W.illtyped.items()):
        g = idx.maybe_func(fk)
        rep.bad(rule, "%s|`%s` subtracts a position from a direction" % (fk, u(e)[:50]), "%s:%d" % (g.module.relpath if g else fk, ln),
                "in the context [%s] `%s` is (direction / centre-relative offset) - (position): the left operand has already been made relative by the caller, so the "
                "reference point is subtracted twice and the result depends on where the scene sits relative to the world origin" % (ctx[:220], u(e)[:60]))
