"""R-ORIGINFREE: a membership / orientation decision must not depend on where the coordinate origin is.
Small intraprocedural affine-kind inference (P position, D direction or difference of positions, S scalar): the sign test of an
inner product <D, P> (np.dot / .dot / @ / np.sum(D * P)) against a constant is origin dependent — it silently assumes that the
origin lies inside the shape.  <D, P - Q> is fine.  Seeds: parameter names (the repository's convention) and pose slots."""
import ast

from ..core.astutil import u, call_name, dot_args, ncmp, const
from ..engines.frames import POINT_WORDS, DIR_WORDS, pose_frames

P, D, S = "P", "D", "S"


def _seed(name):
    n = name.lower()
    if pose_frames(name):
        return "POSE"
    if any(w in n for w in DIR_WORDS):
        return D
    if any(w in n for w in POINT_WORDS) or n in ("points", "p"):
        return P
    return None


class _Aff:
    def __init__(self, f):
        self.f = f
        self.env = {p: _seed(p) for p in f.params()}
        self.findings = []

    def ev(self, e):
        if isinstance(e, ast.Name):
            return self.env.get(e.id)
        if isinstance(e, ast.Constant):
            return S if isinstance(e.value, (int, float)) else None
        if isinstance(e, ast.Attribute):
            if e.attr == "T":
                return self.ev(e.value)
            return None
        if isinstance(e, ast.Subscript):
            b = self.ev(e.value)
            if b == "POSE":
                txt = u(e.slice).replace(" ", "")
                if txt.endswith(",3") or txt.endswith(",3)"):
                    return P
                if txt in (":3,:3", "(:3,:3)"):
                    return "ROT"
                return D
            return b if b in (P, D) else None
        if isinstance(e, ast.UnaryOp):
            return self.ev(e.operand)
        if isinstance(e, ast.BinOp):
            a, b = self.ev(e.left), self.ev(e.right)
            if isinstance(e.op, ast.Sub):
                if a == P and b == P:
                    return D
                if a == P and b == D:
                    return P
                if a == D and b == D:
                    return D
                return None
            if isinstance(e.op, ast.Add):
                if {a, b} == {P, D} or {a, b} == {P, "RP"}:
                    return P            # translation + rotated position = position in the target frame
                if a == D and b == D:
                    return D
                return None
            if isinstance(e.op, (ast.Mult, ast.Div)):
                if {a, b} == {D, P}:
                    return "DxP"          # elementwise product direction * position
                if a == S or a is None:
                    return b if b in (D,) else None
                if b == S or b is None:
                    return a if a in (D,) else None
                return None
            if isinstance(e.op, ast.MatMult):
                return self._dot(a, b)
            return None
        if isinstance(e, ast.Call):
            cn = call_name(e) or ""
            short = cn.split(".")[-1]
            da = dot_args(e)
            if da is not None:
                return self._dot(self.ev(da[0]), self.ev(da[1]))
            args = [self.ev(a) for a in e.args]
            a0 = args[0] if args else None
            if short == "cross" and len(args) == 2:
                return D if args[0] == D and args[1] == D else None
            if short in ("mean", "copy", "array", "asarray", "ascontiguousarray", "atleast_2d", "abs"):
                return a0 if a0 in (P, D) else None
            if short == "sum":
                return "<D,P>" if a0 == "DxP" else None
            if short in ("norm_vector",):
                return D if a0 == D else None
            if short == "invert_transform":
                return "POSE" if a0 == "POSE" else None
            if short == "angles_between_vectors" and len(args) == 2:
                return self._dot(args[0], args[1])       # the angle between a direction and a POSITION is as origin dependent as their inner product
            return None
        return None

    def _dot(self, a, b):
        if {a, b} == {D, P}:
            return "<D,P>"
        if a == "ROT" or b == "ROT":
            other = b if a == "ROT" else a
            return "RP" if other == P else (D if other == D else None)     # a rotated position is not a position of the same frame
        return S if (a in (D, P) and b in (D, P)) else None

    def run(self):
        for st in ast.walk(self.f.node):
            pass
        self._block(self.f.node.body)
        return self.findings

    def _block(self, body):
        for st in body:
            if isinstance(st, ast.Assign):
                v = self.ev(st.value)
                self._scan(st.value)
                for t in st.targets:
                    if isinstance(t, ast.Name):
                        self.env[t.id] = v if v is not None else ("POSE" if _seed(t.id) == "POSE" else None)
                    elif isinstance(t, ast.Subscript):
                        self._scan(t)
            elif isinstance(st, ast.AugAssign):
                self._scan(st.value)
                self._scan(st.target)
                if isinstance(st.target, ast.Name) and isinstance(st.op, (ast.Add, ast.Sub)):
                    a, b = self.env.get(st.target.id), self.ev(st.value)
                    self.env[st.target.id] = P if (a == P and b == D) else (a if a == b == D else None)
            elif isinstance(st, (ast.If, ast.While)):
                self._scan(st.test)
                self._block(st.body)
                self._block(st.orelse)
            elif isinstance(st, ast.For):
                it = self.ev(st.iter)
                if isinstance(st.iter, ast.Call) and call_name(st.iter) == "enumerate" and st.iter.args and isinstance(st.target, ast.Tuple) and len(st.target.elts) == 2:
                    if isinstance(st.target.elts[1], ast.Name):
                        self.env[st.target.elts[1].id] = self.ev(st.iter.args[0])
                elif isinstance(st.target, ast.Name):
                    self.env[st.target.id] = it if it in (P, D) else None
                self._block(st.body)
                self._block(st.orelse)
            elif isinstance(st, (ast.Return, ast.Expr)) and st.value is not None:
                self._scan(st.value)
            elif isinstance(st, (ast.With, ast.Try)):
                self._block(st.body)

    def _scan(self, e):
        for c in ast.walk(e):
            if isinstance(c, ast.Compare) and len(c.ops) == 1:
                t = ncmp(c)
                if t is None:
                    continue
                for side, other in ((t[1], t[2]), (t[2], t[1])):
                    if self.ev(side) == "<D,P>" and (isinstance(const(other), (int, float)) or (isinstance(other, ast.Name) and other.id.isupper())):
                        self.findings.append(c)


def r_originfree(idx, rep, modules, rule="R-ORIGINFREE", floor=5):
    rep.rule(rule, "orientation / membership tests are translation invariant: no comparison of an inner product <direction, POSITION> with a "
                   "constant (only <direction, position - position>); such a test assumes the frame's origin lies inside the shape", floor=floor)
    for mname in modules:
        m = idx.module(mname)
        for f in m.functions.values():
            if "<locals>" in f.qualname:
                continue
            fs = _Aff(f).run()
            key = "%s|no origin-dependent sign test" % f.key
            if fs:
                c = fs[0]
                rep.bad(rule, key, "%s:%d" % (m.relpath, c.lineno),
                        "`%s` compares the inner product of a direction with a POSITION (not a difference of positions) with a constant: the outcome changes "
                        "when the same shape is described in a frame whose origin lies elsewhere (e.g. a mesh given relative to a joint frame, an offset box) — "
                        "faces get flipped / points misclassified for valid inputs" % u(c)[:90])
            else:
                rep.ok(rule, key, f.where, "no <D, P> sign test")
