"""Symbolic length / segment interpreter for AabbTree.insert_aabbs (R-BOOKKEEP, R-INDEXSPACE).

The four per-node containers (nodes, aabbs, external_data_list, insert_index_list) are sequences along axis 0.  The interpreter runs the
method (private helpers and private methods are entered) over an abstract state in which

    an integer is a linear form over  F (filled_len at entry), n (batch size), M (insert_index_max at entry), F2 (filled_len returned
    by the compiled insertion);
    a sequence is a list of segments (kind, length):  old rows | batch payload | range(a, b) | padding | prefix | unknown.

Nothing is matched textually: `np.append` twice, one `np.concatenate`, `+=`, `.extend`, a `_padding(...)` helper, a `_reserve` method, pad counts
bound to locals first ... all evaluate to the same state.  Undecided branches fork the path; every path must satisfy the obligations."""
import ast
import copy
from fractions import Fraction

from ..core.astutil import u, call_name, strip_docstring


class Lin(dict):
    @staticmethod
    def const(c):
        return Lin({"1": Fraction(c)}) if c else Lin()

    @staticmethod
    def sym(s):
        return Lin({s: Fraction(1)})

    def __add__(self, o):
        r = Lin(self)
        for k, v in o.items():
            r[k] = r.get(k, 0) + v
            if r[k] == 0:
                del r[k]
        return r

    def __neg__(self):
        return Lin({k: -v for k, v in self.items()})

    def __sub__(self, o):
        return self + (-o)

    def scale(self, c):
        return Lin({k: v * c for k, v in self.items() if v * c != 0})

    def is_const(self):
        return all(k == "1" for k in self)

    def value(self):
        return self.get("1", Fraction(0))

    def __eq__(self, o):
        return isinstance(o, Lin) and dict(self) == dict(o)

    def __ne__(self, o):
        return not self == o

    __hash__ = None

    def __repr__(self):
        if not self:
            return "0"
        parts = []
        for k in sorted(self, key=lambda k: (k == "1", k)):
            v = self[k]
            s = ("%s" % (v if v.denominator != 1 else int(v)))
            parts.append(s if k == "1" else (k if v == 1 else "%s*%s" % (s, k)))
        return " + ".join(parts).replace("+ -", "- ")


class Seq:
    def __init__(self, segs=()):
        self.segs = [(k, l) for k, l in segs if not (isinstance(l, Lin) and not l)]

    def length(self):
        t = Lin()
        for _, l in self.segs:
            if l is None:
                return None
            t = t + l
        return t

    def concat(self, o):
        return Seq(self.segs + o.segs)

    def offset_of(self, pred):
        off = Lin()
        for k, l in self.segs:
            if pred(k):
                return off, l
            if l is None:
                return None
            off = off + l
        return None

    def slice(self, lo, hi):
        """sub-sequence [lo:hi] when both bounds fall on segment boundaries (or hi is the total / beyond a symbolic prefix)"""
        lo = lo if lo is not None else Lin()
        off = Lin()
        out, started = [], lo == Lin()
        if hi is not None and started and hi == lo:
            return Seq()
        for k, l in self.segs:
            if l is None:
                break
            if not started:
                off = off + l
                if off == lo:
                    started = True
                    if hi is not None and off == hi:
                        return Seq()
                continue
            out.append((k, l))
            off = off + l
            if hi is not None and off == hi:
                return Seq(out)
        if hi is None and started:
            return Seq(out)
        if hi is not None and (lo == Lin()):
            return Seq([(("prefix",), hi)])
        if hi is not None:
            return Seq([(("unk",), hi - lo)])
        return None

    def __repr__(self):
        return "[" + " | ".join("%s:%r" % ("/".join(map(str, k)), l) for k, l in self.segs) + "]"


class _None:
    def __repr__(self):
        return "None"


NONE = _None()
UNK = None


class Perm:
    """start + permutation of range(len): an index set {start .. start+len-1} in some order"""

    def __init__(self, start, length, over):
        self.start, self.len, self.over = start, length, over

    def __repr__(self):
        return "perm(start=%r, len=%r, over=%s)" % (self.start, self.len, self.over)


class Interp:
    def __init__(self, idx, cls, module):
        self.idx, self.cls, self.module = idx, cls, module
        self.checkpoints = []
        self.notes = []

    # ------------------------------------------------------------------ expressions
    def ev(self, e, env, depth=0):
        if isinstance(e, ast.Constant):
            if e.value is None:
                return NONE
            if isinstance(e.value, bool):
                return UNK
            if isinstance(e.value, int):
                return Lin.const(e.value)
            return UNK
        if isinstance(e, ast.Name):
            return env.get(e.id, UNK)
        if isinstance(e, ast.Attribute):
            return env.get(u(e), UNK)
        if isinstance(e, ast.UnaryOp) and isinstance(e.op, ast.USub):
            v = self.ev(e.operand, env, depth)
            return -v if isinstance(v, Lin) else UNK
        if isinstance(e, (ast.List, ast.Tuple)):
            return Seq([(("unk",), Lin.const(len(e.elts)))]) if e.elts else Seq()
        if isinstance(e, ast.IfExp):
            c = self.cond(e.test, env)
            if c is None:
                a, b = self.ev(e.body, env, depth), self.ev(e.orelse, env, depth)
                return a if repr(a) == repr(b) else UNK
            return self.ev(e.body if c else e.orelse, env, depth)
        if isinstance(e, ast.BinOp):
            if isinstance(e.op, ast.Mult):
                for x, y in ((e.left, e.right), (e.right, e.left)):
                    if isinstance(x, ast.List) and len(x.elts) == 1:
                        k = self.ev(y, env, depth)
                        return Seq([(("pad",), k)]) if isinstance(k, Lin) else UNK
            a, b = self.ev(e.left, env, depth), self.ev(e.right, env, depth)
            if isinstance(e.op, ast.Add):
                if isinstance(a, Lin) and isinstance(b, Lin):
                    return a + b
                if isinstance(a, Seq) and isinstance(b, Seq):
                    # list + list; for index arrays (range + offset) see below
                    return a.concat(b)
                for x, y in ((a, b), (b, a)):
                    if isinstance(x, Lin) and isinstance(y, Perm):
                        return Perm(y.start + x, y.len, y.over)
                    if isinstance(x, Lin) and isinstance(y, Seq) and len(y.segs) == 1 and y.segs[0][0][0] == "range":
                        return Seq([(("range", y.segs[0][0][1] + x), y.segs[0][1])])
                return UNK
            if isinstance(e.op, ast.Sub) and isinstance(a, Lin) and isinstance(b, Lin):
                return a - b
            if isinstance(e.op, ast.Mult) and isinstance(a, Lin) and isinstance(b, Lin):
                if a.is_const():
                    return b.scale(a.value())
                if b.is_const():
                    return a.scale(b.value())
            return UNK
        if isinstance(e, ast.Subscript):
            base = self.ev(e.value, env, depth)
            if isinstance(e.slice, ast.Slice) and e.slice.step is None and isinstance(base, Seq):
                lo = self.ev(e.slice.lower, env, depth) if e.slice.lower is not None else None
                hi = self.ev(e.slice.upper, env, depth) if e.slice.upper is not None else None
                if (e.slice.lower is not None and not isinstance(lo, Lin)) or (e.slice.upper is not None and not isinstance(hi, Lin)):
                    return UNK
                r = base.slice(lo, hi)
                return r if r is not None else UNK
            if isinstance(base, Seq):
                ix = self.ev(e.slice, env, depth)
                # fancy index by an index range: the rows it names
                if isinstance(ix, Seq) and len(ix.segs) == 1 and ix.segs[0][0][0] == "range":
                    start, ln = ix.segs[0][0][1], ix.segs[0][1]
                    r = base.slice(start, start + ln)
                    return r if r is not None else UNK
            return UNK
        if isinstance(e, ast.Call):
            return self.call(e, env, depth)
        return UNK

    def call(self, e, env, depth):
        name = call_name(e) or ""
        short = name.split(".")[-1]
        args = e.args
        if name == "len" and len(args) == 1:
            v = self.ev(args[0], env, depth)
            return v.length() if isinstance(v, Seq) else UNK
        if short in ("range", "arange") and 1 <= len(args) <= 2 and name in ("range", "np.arange"):
            vs = [self.ev(a, env, depth) for a in args]
            if all(isinstance(v, Lin) for v in vs):
                a, b = (Lin(), vs[0]) if len(vs) == 1 else vs
                return Seq([(("range", a), b - a)])
            return UNK
        if name in ("list", "np.array", "np.asarray", "np.ascontiguousarray", "tuple") and args:
            return self.ev(args[0], env, depth)
        if name in ("np.zeros", "np.empty", "np.ones", "np.full") and args:
            sh = args[0]
            first = sh.elts[0] if isinstance(sh, (ast.List, ast.Tuple)) and sh.elts else sh
            k = self.ev(first, env, depth)
            return Seq([(("pad",), k)]) if isinstance(k, Lin) else UNK
        if name in ("np.append", "np.concatenate", "np.vstack", "np.row_stack"):
            axis0 = name in ("np.vstack", "np.row_stack") or any(k.arg == "axis" and isinstance(k.value, ast.Constant) and k.value.value == 0 for k in e.keywords)
            parts = list(args[0].elts) if name != "np.append" and args and isinstance(args[0], (ast.Tuple, ast.List)) else list(args[:2] if name == "np.append" else [])
            if not axis0 or not parts:
                return UNK
            out = Seq()
            for p in parts:
                v = self.ev(p, env, depth)
                if not isinstance(v, Seq):
                    return UNK
                out = out.concat(v)
            return out
        if short in ("_sort_aabbs", "argsort") or short.endswith("argsort"):
            arg = args[0] if args else (e.func.value if isinstance(e.func, ast.Attribute) else None)
            v = self.ev(arg, env, depth) if arg is not None else UNK
            if isinstance(v, Seq):
                over = "batch" if len(v.segs) == 1 and v.segs[0][0][0] == "payload" else "other rows"
                return Perm(Lin(), v.length(), over)
            return Perm(Lin(), None, "unknown rows")
        # private helpers / private methods are entered
        if depth < 3:
            r_ = self.enterable(e)
            if r_ is not None:
                return self.enter(r_[0], e, env, depth, r_[1])
        return UNK

    def enterable(self, e):
        if isinstance(e.func, ast.Attribute) and u(e.func.value) == "self" and self.cls is not None and e.func.attr in self.cls.methods:
            return self.cls.methods[e.func.attr].node, True
        if isinstance(e.func, ast.Name):
            callee = self.idx.resolve_call(self.module, e, None)
            if callee is not None and getattr(callee, "cls", None) is None and isinstance(getattr(callee, "node", None), ast.FunctionDef) \
                    and not getattr(callee, "njit", False) and callee.module is self.module:
                return callee.node, None
        return None

    def enter(self, fn, call, env, depth, is_method):
        params = [a.arg for a in fn.args.args]
        if is_method:
            params = params[1:]
        local = {k: v for k, v in env.items() if k.startswith("self.")}
        defaults = fn.args.defaults
        for i, p in enumerate(params):
            if i < len(call.args):
                local[p] = self.ev(call.args[i], env, depth)
            else:
                kw = [k for k in call.keywords if k.arg == p]
                if kw:
                    local[p] = self.ev(kw[0].value, env, depth)
                else:
                    di = i - (len(params) - len(defaults))
                    local[p] = self.ev(defaults[di], {}, depth) if 0 <= di < len(defaults) else UNK
        outs = self.run(strip_docstring(fn.body), [local], depth + 1)
        # a helper that forks is summarised only when all paths agree
        rets = [o.get("<ret>", NONE) for o in outs]
        for o in outs[:1]:
            for k, v in o.items():
                if k.startswith("self.") and all(repr(o2.get(k)) == repr(v) for o2 in outs):
                    env[k] = v
                elif k.startswith("self."):
                    env[k] = UNK
        # a list handed over is the caller's object: what the callee appends to it in place (`data += ...`, `.extend`, `.append`) is visible to the
        # caller; a parameter the callee REBINDS (`data = ...`) is its own from then on
        rebound = {t.id for st_ in ast.walk(fn) if isinstance(st_, ast.Assign) for t in st_.targets if isinstance(t, ast.Name)}
        for i, p in enumerate(params):
            if i < len(call.args) and p not in rebound and isinstance(call.args[i], (ast.Name, ast.Attribute)):
                finals = [o.get(p) for o in outs]
                if finals and all(repr(x) == repr(finals[0]) for x in finals) and isinstance(finals[0], Seq):
                    key = call.args[i].id if isinstance(call.args[i], ast.Name) else u(call.args[i])
                    env[key] = finals[0]
        return rets[0] if rets and all(repr(r) == repr(rets[0]) for r in rets) else UNK

    def enter_paths(self, fn, call, env, depth, is_method):
        """one caller environment per path of the helper: [(returned value, env after the call)] — used where the helper's result is what the caller
        assigns, so that `if mode == "sort": return A` / `return B` stays two paths instead of an unknown"""
        params = [a.arg for a in fn.args.args]
        if is_method:
            params = params[1:]
        local = {k: v for k, v in env.items() if k.startswith("self.")}
        defaults = fn.args.defaults
        for i, p in enumerate(params):
            if i < len(call.args):
                local[p] = self.ev(call.args[i], env, depth)
            else:
                kw = [k for k in call.keywords if k.arg == p]
                di = i - (len(params) - len(defaults))
                local[p] = self.ev(kw[0].value, env, depth) if kw else (self.ev(defaults[di], {}, depth) if 0 <= di < len(defaults) else UNK)
        outs = self.run(strip_docstring(fn.body), [local], depth + 1)
        rebound = {t.id for st_ in ast.walk(fn) if isinstance(st_, ast.Assign) for t in st_.targets if isinstance(t, ast.Name)}
        res = []
        for o in outs:
            e2 = copy.copy(env)
            for k, v in o.items():
                if k.startswith("self."):
                    e2[k] = v
            for i, p in enumerate(params):
                if i < len(call.args) and p not in rebound and isinstance(call.args[i], (ast.Name, ast.Attribute)) and isinstance(o.get(p), Seq):
                    e2[call.args[i].id if isinstance(call.args[i], ast.Name) else u(call.args[i])] = o[p]
            res.append((o.get("<ret>", NONE), e2))
        return res

    def cond(self, t, env):
        """True / False / None (undecided)"""
        if isinstance(t, ast.UnaryOp) and isinstance(t.op, ast.Not):
            c = self.cond(t.operand, env)
            return None if c is None else not c
        if isinstance(t, ast.Compare) and len(t.ops) == 1 and isinstance(t.ops[0], (ast.Is, ast.IsNot)) \
                and isinstance(t.comparators[0], ast.Constant) and t.comparators[0].value is None:
            v = self.ev(t.left, env)
            if v is NONE:
                return isinstance(t.ops[0], ast.Is)
            if v is not UNK:
                return isinstance(t.ops[0], ast.IsNot)
        return None

    # ------------------------------------------------------------------ statements
    def run(self, stmts, envs, depth=0):
        """list of environments after the statements; an environment that returned carries '<ret>' and is passed through unchanged"""
        for st in stmts:
            nxt = []
            for env in envs:
                if "<ret>" in env:
                    nxt.append(env)
                    continue
                nxt.extend(self.step(st, env, depth))
            envs = nxt[:16]
        return envs

    def store(self, t, v, env, st):
        if isinstance(t, ast.Name):
            env[t.id] = v
            env["<def>" + t.id] = st
        elif isinstance(t, ast.Attribute):
            env[u(t)] = v

    def step(self, st, env, depth):
        if isinstance(st, ast.Return):
            env["<ret>"] = self.ev(st.value, env, depth) if st.value is not None else NONE
            return [env]
        if isinstance(st, ast.Assign):
            if isinstance(st.value, ast.Call) and call_name(st.value) == "insert_aabbs" and len(st.targets) == 1:
                order_ = self.ev(st.value.args[4], env, depth) if len(st.value.args) > 4 else UNK
                self.checkpoints.append((copy.copy(env), st, order_))
                tg = st.targets[0].elts if isinstance(st.targets[0], ast.Tuple) else [st.targets[0]]
                argtxt = [u(a) for a in st.value.args]
                for t in tg:
                    if u(t).endswith("filled_len"):
                        self.store(t, Lin.sym("F2"), env, st)
                    elif u(t) in argtxt:
                        pass                       # the compiled function hands the same array back
                    else:
                        self.store(t, UNK, env, st)
                return [env]
            if isinstance(st.value, ast.Call) and len(st.targets) == 1 and isinstance(st.targets[0], ast.Name) and depth < 3:
                r_ = self.enterable(st.value)
                if r_ is not None:
                    outs_ = []
                    for ret_, e2 in self.enter_paths(r_[0], st.value, env, depth, r_[1]):
                        self.store(st.targets[0], ret_, e2, st)
                        outs_.append(e2)
                    return outs_ or [env]
            for t in st.targets:
                if isinstance(t, (ast.Tuple, ast.List)) and isinstance(st.value, (ast.Tuple, ast.List)) and len(t.elts) == len(st.value.elts):
                    vals = [self.ev(v, env, depth) for v in st.value.elts]
                    for tt, vv in zip(t.elts, vals):
                        self.store(tt, vv, env, st)
                elif isinstance(t, (ast.Tuple, ast.List)):
                    self.ev(st.value, env, depth)
                    for tt in t.elts:
                        self.store(tt, UNK, env, st)
                else:
                    self.store(t, self.ev(st.value, env, depth), env, st)
            return [env]
        if isinstance(st, ast.AugAssign):
            cur = self.ev(st.target, env, depth)
            v = self.ev(st.value, env, depth)
            new = UNK
            if isinstance(st.op, ast.Add):
                if isinstance(cur, Lin) and isinstance(v, Lin):
                    new = cur + v
                elif isinstance(cur, Seq) and isinstance(v, Seq):
                    new = cur.concat(v)
            elif isinstance(st.op, ast.Sub) and isinstance(cur, Lin) and isinstance(v, Lin):
                new = cur - v
            self.store(st.target, new, env, st)
            return [env]
        if isinstance(st, ast.Expr) and isinstance(st.value, ast.Call):
            c = st.value
            if isinstance(c.func, ast.Attribute) and c.func.attr in ("extend", "append") and len(c.args) == 1:
                cur = self.ev(c.func.value, env, depth)
                v = self.ev(c.args[0], env, depth) if c.func.attr == "extend" else Seq([(("unk",), Lin.const(1))])
                self.store(c.func.value, cur.concat(v) if isinstance(cur, Seq) and isinstance(v, Seq) else UNK, env, st)
                return [env]
            if call_name(c) in ("np.random.shuffle", "random.shuffle"):
                return [env]                       # in place, same index set
            self.ev(c, env, depth)
            return [env]
        if isinstance(st, ast.If):
            c = self.cond(st.test, env)
            if c is True:
                return self.run(st.body, [env], depth)
            if c is False:
                return self.run(st.orelse, [env], depth)
            return self.run(st.body, [copy.copy(env)], depth) + self.run(st.orelse, [copy.copy(env)], depth)
        if isinstance(st, ast.For) and isinstance(st.iter, (ast.Tuple, ast.List)) and isinstance(st.target, ast.Name) and not st.orelse \
                and all(isinstance(e_, (ast.Attribute, ast.Name)) for e_ in st.iter.elts) \
                and not any(isinstance(n_, ast.Assign) and any(isinstance(t_, ast.Name) and t_.id == st.target.id for t_ in n_.targets) for n_ in ast.walk(st)):
            # `for payload in (self.a, self.b): payload += [None] * (...)`: the loop variable is an alias of each container in turn (lists are updated in place):
            # the body once per container, with the container written in place of the variable
            var_ = st.target.id

            class _Sub(ast.NodeTransformer):
                def __init__(self, repl):
                    self.repl = repl

                def visit_Name(self, n_):
                    if n_.id == var_:
                        new_ = copy.deepcopy(self.repl)
                        new_.ctx = type(n_.ctx)()
                        return ast.copy_location(new_, n_)
                    return n_
            envs = [env]
            for e_ in st.iter.elts:
                body_ = [ast.fix_missing_locations(_Sub(e_).visit(copy.deepcopy(b_))) for b_ in st.body]
                envs = self.run(body_, envs, depth)
            return envs
        if isinstance(st, (ast.For, ast.While)):
            for n in ast.walk(st):
                if isinstance(n, (ast.Name, ast.Attribute)) and isinstance(getattr(n, "ctx", None), ast.Store):
                    self.store(n, UNK, env, st)
                if isinstance(n, ast.Call) and isinstance(n.func, ast.Attribute) and n.func.attr in ("append", "extend", "pop", "insert"):
                    self.store(n.func.value, UNK, env, st)
            return [env]
        return [env]


ATTRS = ["nodes", "aabbs", "external_data_list", "insert_index_list"]


def analyse(idx, cls, module):
    """-> dict with the paths' states at the compiled call and at the end, for both variants of the optional payload"""
    f = cls.methods["insert_aabbs"]
    params = f.params()
    p_batch, p_ext = params[1], (params[2] if len(params) > 2 else None)
    out = []
    for variant in ("with external data", "without external data"):
        it = Interp(idx, cls, module)
        F, n = Lin.sym("F"), Lin.sym("n")
        env = {"self.filled_len": F, "self.insert_index_max": Lin.sym("M"), p_batch: Seq([(("payload", "batch"), n)])}
        for a in ATTRS:
            env["self." + a] = Seq([(("old", a), F)])
        if p_ext:
            env[p_ext] = Seq([(("payload", "ext"), n)]) if variant.startswith("with ") else NONE
        finals = it.run(strip_docstring(f.node.body), [env])
        out.append((variant, it.checkpoints, finals, p_batch, p_ext))
    return out


def initial_state(idx, cls, module):
    """lengths of the containers and the fill level after __init__ (must be 0 / 0: the entry invariant len(X) == filled_len)"""
    init = cls.methods.get("__init__")
    if init is None:
        return None
    it = Interp(idx, cls, module)
    finals = it.run(strip_docstring(init.node.body), [{}])
    return finals[0] if len(finals) == 1 else None
