"""R-SIGNALIGN (C03): path-sensitive sign abstract interpretation of the closed-form support functions.

For every return path, every local component of the returned support point is a non-negative multiple of the same
component of the (local) search direction, or a constant whose sign is justified by the path's tests on that
component, or zero — i.e. <support - centre, d> >= 0, a necessary condition of extremeness.  The cone chooses between
two candidates by comparing their projections on the direction (the larger must win).
Sizes (radius, length, height, radii, half_lengths) are > 0 by domain D.
"""
import ast

from ..core.astutil import u, call_name, const, index_elts, dot_args, ncmp, compare_triples, resolved
from ..core.index import AnalysisError
from ..core.inline import expand_helpers

G = "distance3d.geometry"
POS_PARAMS = ("radius", "length", "height", "radii", "half_lengths", "size")


class T:
    """term: sign * (d_k | const)"""
    __slots__ = ("sgn", "base")

    def __init__(self, sgn, base):
        self.sgn, self.base = sgn, base   # sgn in +1 -1 0 None ; base ('d', k) | 'c'

    def __repr__(self):
        return "%s%s" % ({1: "+", -1: "-", 0: "0", None: "?"}[self.sgn], "d%d" % self.base[1] if self.base != "c" else "c")


def _neg(t):
    return T(None if t.sgn is None else -t.sgn, t.base)


class Path:
    def __init__(self, env=None, facts=None, sfacts=None):
        self.env = dict(env or {})        # name -> value: ('vec', [comp terms...]) | ('s', sign) | ('D',) ...
        self.facts = dict(facts or {})    # k -> set of relations on d_k
        self.sfacts = dict(sfacts or {})  # scalar name -> '==0' | '!=0'
        self.ret = None
        self.notes = []

    def fork(self):
        return Path(self.env, {k: set(v) for k, v in self.facts.items()}, self.sfacts)


class SignAlign:
    def __init__(self, f, dname, ncomp):
        self.f = f
        self.dname = dname       # name of the local direction vector
        self.n = ncomp
        self.norm_of = {}        # scalar name -> set of components whose euclidean norm it is
        self.problems = []

    # ---- scalars: '+', '-', '0', '>=0', '?'
    def sc(self, node, p):
        if isinstance(node, ast.Constant) and isinstance(node.value, (int, float)):
            return "0" if node.value == 0 else ("+" if node.value > 0 else "-")
        if isinstance(node, ast.Name):
            if node.id in p.env and p.env[node.id][0] == "s":
                s = p.env[node.id][1]
                if s == ">=0" and p.sfacts.get(node.id) == "!=0":
                    return "+"
                if p.sfacts.get(node.id) == "==0":
                    return "0"
                return s
            if any(node.id == w or node.id.endswith(w) for w in POS_PARAMS):
                return "+"
            return "?"
        if isinstance(node, ast.UnaryOp) and isinstance(node.op, ast.USub):
            s = self.sc(node.operand, p)
            return {"+": "-", "-": "+", "0": "0", ">=0": "?", "?": "?"}[s]
        if isinstance(node, ast.BinOp):
            a, b = self.sc(node.left, p), self.sc(node.right, p)
            if isinstance(node.op, (ast.Mult, ast.Div)):
                if "?" in (a, b):
                    return "?"
                if a == "0":
                    return "0"
                if b == "0":
                    return "0" if isinstance(node.op, ast.Mult) else "?"
                na = -1 if a == "-" else 1
                nb = -1 if b == "-" else 1
                if ">=0" in (a, b):
                    return ">=0" if na * nb > 0 and isinstance(node.op, ast.Mult) else "?"
                return "+" if na * nb > 0 else "-"
            if isinstance(node.op, ast.Add):
                if a == b and a in ("+", ">=0", "0", "-"):
                    return a
                if {a, b} <= {"+", ">=0", "0"}:
                    return "+" if "+" in (a, b) else ">=0"
                return "?"
            return "?"
        if isinstance(node, ast.Call):
            cn = call_name(node) or ""
            if cn in ("math.sqrt", "np.sqrt", "np.linalg.norm", "abs", "np.abs"):
                return ">=0"
            return "?"
        if isinstance(node, ast.Subscript) and isinstance(node.value, ast.Name) and any(node.value.id.endswith(w) for w in POS_PARAMS):
            return "+"
        return "?"

    # ---- vectors: list of component term-lists
    def vec(self, node, p):
        if isinstance(node, ast.Name):
            v = p.env.get(node.id)
            if v and v[0] == "vec":
                return [list(c) for c in v[1]]
            if node.id == self.dname:
                return [[T(1, ("d", k))] for k in range(self.n)]
            if any(node.id == w or node.id.endswith(w) for w in POS_PARAMS):
                return "posvec"
            return None
        if isinstance(node, ast.Call):
            cn = call_name(node) or ""
            short = cn.split(".")[-1]
            if short == "array" and node.args and isinstance(node.args[0], ast.List):
                comps = []
                for e in node.args[0].elts:
                    comps.append(self.comp(e, p))
                return comps
            if short == "zeros" and node.args and isinstance(const(node.args[0]), int):
                return [[T(0, "c")] for _ in range(const(node.args[0]))]
            if short in ("norm_vector", "copy"):
                return self.vec(node.args[0], p)        # positive scaling (or zero)
            if short == "sign" and node.args:
                v = self.vec(node.args[0], p)
                return v
            return None
        if isinstance(node, ast.BinOp) and isinstance(node.op, (ast.Mult, ast.Div)):
            lv, rv = self.vec(node.left, p), self.vec(node.right, p)
            if isinstance(lv, list) and (rv == "posvec"):
                return lv
            if isinstance(rv, list) and (lv == "posvec") and isinstance(node.op, ast.Mult):
                return rv
            if isinstance(lv, list) and rv is None:
                s = self.sc(node.right, p)
                return self._scale(lv, s)
            if isinstance(rv, list) and lv is None and isinstance(node.op, ast.Mult):
                s = self.sc(node.left, p)
                return self._scale(rv, s)
            return None
        return None

    def _scale(self, v, s):
        out = []
        for c in v:
            if s in ("+", ">=0"):
                out.append(list(c))
            elif s == "-":
                out.append([_neg(t) for t in c])
            elif s == "0":
                out.append([T(0, "c")])
            else:
                out.append([T(None, t.base) for t in c])
        return out

    def comp(self, e, p):
        """terms of a scalar component expression"""
        if isinstance(e, ast.Subscript) and isinstance(e.value, ast.Name):
            k = const(e.slice)
            v = p.env.get(e.value.id)
            if v and v[0] == "vec" and isinstance(k, int) and k < len(v[1]):
                return list(v[1][k])
            if e.value.id == self.dname and isinstance(k, int):
                return [T(1, ("d", k))]
        if isinstance(e, ast.BinOp) and isinstance(e.op, (ast.Mult, ast.Div)):
            for x, y in ((e.left, e.right), (e.right, e.left)):
                cx = self.comp(x, p) if (isinstance(x, ast.Subscript) or (isinstance(x, ast.Name) and p.env.get(x.id) and p.env[x.id][0] == "comp")) else None
                if cx and (x is e.left or isinstance(e.op, ast.Mult)):
                    s = self.sc(y, p)
                    return self._scale([cx], s)[0]
        if isinstance(e, ast.Name) and e.id in p.env and p.env[e.id][0] == "comp":
            return list(p.env[e.id][1])
        s = self.sc(e, p)
        return [T({"+": 1, "-": -1, "0": 0, ">=0": None, "?": None}[s], "c")]

    # ---- statements
    def run(self):
        p = Path()
        return self._block(self.f.node.body, [p])

    def _block(self, body, paths):
        done = []
        live = paths
        for st in body:
            nxt = []
            for p in live:
                if p.ret is not None:
                    done.append(p)
                    continue
                nxt.extend(self._stmt(st, p))
            live = nxt
        return done + live

    def _facts_from_test(self, test, p, positive):
        """apply the facts of a test to path p (in place)"""
        if isinstance(test, ast.UnaryOp) and isinstance(test.op, ast.Not):
            return self._facts_from_test(test.operand, p, not positive)
        if isinstance(test, ast.Compare) and len(test.ops) == 1 and isinstance(test.ops[0], ast.NotEq):
            return self._facts_from_test(ast.copy_location(ast.Compare(left=test.left, ops=[ast.Eq()], comparators=test.comparators), test), p, not positive)
        n = ncmp(test)
        if n is None and isinstance(test, ast.Compare) and len(test.ops) == 1 and isinstance(test.ops[0], ast.Eq):
            n = ("==", test.left, test.comparators[0])
        if n is None:
            return
        op, a, b = n
        # D[k] < 0  /  0 < D[k] ...   (D[k] itself or a name bound to it)
        def dk(x):
            if isinstance(x, ast.Subscript) and isinstance(x.value, ast.Name) and x.value.id == self.dname and isinstance(const(x.slice), int):
                return const(x.slice)
            if isinstance(x, ast.Name) and p.env.get(x.id) and p.env[x.id][0] == "comp" and len(p.env[x.id][1]) == 1 \
                    and p.env[x.id][1][0].base != "c" and p.env[x.id][1][0].sgn == 1:
                return p.env[x.id][1][0].base[1]
            return None
        ka, kb = dk(a), dk(b)
        if ka is not None and const(b) in (0, 0.0):
            rel = {("<", True): "<0", ("<", False): ">=0", ("<=", True): "<=0", ("<=", False): ">0"}.get((op, positive))
            if rel:
                p.facts.setdefault(ka, set()).add(rel)
        elif kb is not None and const(a) in (0, 0.0):
            rel = {("<", True): ">0", ("<", False): "<=0", ("<=", True): ">=0", ("<=", False): "<0"}.get((op, positive))
            if rel:
                p.facts.setdefault(kb, set()).add(rel)
        elif op == "==" and isinstance(a, ast.Name) and const(b) in (0, 0.0):
            p.sfacts[a.id] = "==0" if positive else "!=0"
            if positive:
                for k in self.norm_of.get(a.id, ()):
                    p.facts.setdefault(k, set()).add("==0")

    def _stmt(self, st, p):
        if isinstance(st, ast.Expr):
            return [p]
        if isinstance(st, ast.Return):
            p.ret = st.value
            return [p]
        if isinstance(st, ast.If):
            a, b = p.fork(), p.fork()
            self._facts_from_test(st.test, a, True)
            self._facts_from_test(st.test, b, False)
            outa = self._block(st.body, [a])
            outb = self._block(st.orelse, [b])
            info = _proj_info(st.test, self.dname)
            if info is not None:
                rim_on_true, cand, k, hname = info
                for q in outa:
                    q.env["__proj"] = ("rim" if rim_on_true else "apex", cand, k, hname, st)
                for q in outb:
                    q.env["__proj"] = ("apex" if rim_on_true else "rim", cand, k, hname, st)
            return outa + outb
        if isinstance(st, ast.Assign) and len(st.targets) == 1 and isinstance(st.targets[0], ast.Tuple) and isinstance(st.value, ast.Tuple) \
                and len(st.targets[0].elts) == len(st.value.elts):
            # x, y = d[0], d[1]: one assignment per element (no element reads a name bound by the same statement)
            out = [p]
            for t_, v_ in zip(st.targets[0].elts, st.value.elts):
                nxt = []
                for q in out:
                    nxt.extend(self._stmt(ast.copy_location(ast.Assign(targets=[t_], value=v_), st), q))
                out = nxt
            return out
        if isinstance(st, ast.Assign) and len(st.targets) == 1 and isinstance(st.value, ast.IfExp):
            a, b = p.fork(), p.fork()
            self._facts_from_test(st.value.test, a, True)
            self._facts_from_test(st.value.test, b, False)
            return self._stmt(ast.copy_location(ast.Assign(targets=st.targets, value=st.value.body), st), a) + \
                self._stmt(ast.copy_location(ast.Assign(targets=st.targets, value=st.value.orelse), st), b)
        if isinstance(st, ast.Assign) and len(st.targets) == 1:
            t = st.targets[0]
            if isinstance(t, ast.Name) and t.id == self.dname and dot_args(st.value) is not None:
                return [p]       # the definition of the local direction itself
            if isinstance(t, ast.Name) and isinstance(st.value, ast.Subscript) and isinstance(st.value.value, ast.Name) and st.value.value.id == self.dname \
                    and isinstance(const(st.value.slice), int):
                p.env[t.id] = ("comp", [T(1, ("d", const(st.value.slice)))])      # x = d[0]
                return [p]
            if isinstance(t, ast.Name):
                val = st.value
                p.env.pop("__alias_" + t.id, None)
                if isinstance(val, ast.Name):
                    p.env["__alias_" + t.id] = p.env.get("__alias_" + val.id, val.id)
                negate = False
                if isinstance(val, ast.BinOp) and isinstance(val.op, ast.Add):
                    for c, o in ((val.left, val.right), (val.right, val.left)):
                        if isinstance(c, ast.Name) and "center" in c.id:
                            val = o        # offset relative to the centre
                            break
                elif isinstance(val, ast.BinOp) and isinstance(val.op, ast.Sub) and isinstance(val.left, ast.Name) and "center" in val.left.id:
                    val, negate = val.right, True
                p.env["__expr_" + t.id] = st.value          # the defining expression on THIS path (a result variable assigned in both arms of an if / else)
                if isinstance(val, ast.Call) and call_name(val) in ("np.empty", "np.zeros") and val.args and isinstance(const(val.args[0]), int) and 1 <= const(val.args[0]) <= 4:
                    p.env[t.id] = ("vec", [[] for _ in range(const(val.args[0]))])          # a fresh buffer filled component by component
                    return [p]
                v = self.vec(val, p)
                if negate and isinstance(v, list):
                    v = [[_neg(t) for t in c] for c in v]
                if isinstance(v, list):
                    p.env[t.id] = ("vec", v)
                    return [p]
                # scalar definitions: norm of components of D
                comps = self._norm_components(st.value, p)
                if comps is not None:
                    self.norm_of[t.id] = comps
                    p.env[t.id] = ("s", ">=0")
                    return [p]
                if isinstance(st.value, ast.Name) and st.value.id in p.env:
                    p.env[t.id] = p.env[st.value.id]
                    return [p]
                p.env[t.id] = ("s", self.sc(st.value, p))
                return [p]
            if isinstance(t, ast.Subscript) and isinstance(t.value, ast.Name):
                if t.value.id == self.dname and self.dname not in p.env:
                    p.env[self.dname] = ("vec", [[T(1, ("d", k))] for k in range(self.n)])
                v = p.env.get(t.value.id)
                k = const(t.slice)
                if v and v[0] == "vec" and isinstance(k, int) and k < len(v[1]):
                    comps = [list(c) for c in v[1]]
                    comps[k] = self.comp(st.value, p)
                    p.env[t.value.id] = ("vec", comps)
            return [p]
        if isinstance(st, ast.AugAssign) and isinstance(st.value, ast.IfExp):
            a, b = p.fork(), p.fork()
            self._facts_from_test(st.value.test, a, True)
            self._facts_from_test(st.value.test, b, False)
            return self._stmt(ast.copy_location(ast.AugAssign(target=st.target, op=st.op, value=st.value.body), st), a) + \
                self._stmt(ast.copy_location(ast.AugAssign(target=st.target, op=st.op, value=st.value.orelse), st), b)
        if isinstance(st, ast.AugAssign):
            t = st.target
            if isinstance(t, ast.Subscript) and isinstance(t.value, ast.Name):
                v = p.env.get(t.value.id)
                k = const(t.slice)
                if v and v[0] == "vec" and isinstance(k, int) and k < len(v[1]):
                    comps = [list(c) for c in v[1]]
                    add = self.comp(st.value, p)
                    if isinstance(st.op, ast.Sub):
                        add = [_neg(x) for x in add]
                    if isinstance(st.op, (ast.Add, ast.Sub)):
                        comps[k] = comps[k] + add
                    p.env[t.value.id] = ("vec", comps)
            elif isinstance(t, ast.Name):
                if t.id == self.dname and self.dname not in p.env:
                    p.env[self.dname] = ("vec", [[T(1, ("d", k))] for k in range(self.n)])
                v = p.env.get(t.id)
                if v and v[0] == "vec" and isinstance(st.op, (ast.Mult, ast.Div)):
                    p.env[t.id] = ("vec", self._scale(v[1], self.sc(st.value, p)))
                elif v and v[0] == "vec":
                    p.env[t.id] = ("vec", [[T(None, "c")] for _ in v[1]])
            return [p]
        return [p]

    def _projection_compare(self, test):
        n = ncmp(test)
        if n is None:
            return False
        op, a, b = n
        d = dot_args(b)
        return d is not None and self.dname in {u(x) for x in d} and isinstance(a, ast.BinOp) and any(
            isinstance(x, ast.Subscript) and u(x.value) == self.dname for x in (a.left, a.right))

    def _norm_components(self, node, p):
        """math.sqrt(D[0]*D[0] + D[1]*D[1] ...) / np.linalg.norm(vector) -> set of D components it measures"""
        if isinstance(node, ast.Call):
            cn = call_name(node) or ""
            if cn in ("math.sqrt", "np.sqrt") and node.args:
                ks = set()
                ok = True
                def flat(e):
                    nonlocal ok
                    if isinstance(e, ast.BinOp) and isinstance(e.op, ast.Add):
                        flat(e.left); flat(e.right)
                    elif isinstance(e, ast.BinOp) and isinstance(e.op, ast.Mult) and u(e.left) == u(e.right):
                        c = self.comp(e.left, p)
                        if len(c) == 1 and c[0].base != "c":
                            ks.add(c[0].base[1])
                        else:
                            ok = False
                    else:
                        ok = False
                flat(resolved(self.f.node, node.args[0]))
                return ks if ok and ks else None
            if cn == "np.linalg.norm" and node.args:
                v = self.vec(node.args[0], p)
                if isinstance(v, list):
                    ks = set()
                    for c in v:
                        for t in c:
                            if t.base != "c" and t.sgn != 0:
                                ks.add(t.base[1])
                            elif t.base == "c" and t.sgn != 0:
                                return None
                    return ks or None
        return None

    # ---- judging a returned local vertex
    def aligned(self, comps, p):
        bad = []
        for k, terms in enumerate(comps):
            rel = p.facts.get(k, set())
            for t in terms:
                if t.sgn == 0:
                    continue
                if "==0" in rel:
                    continue          # d_k == 0: any value has zero projection
                if t.base != "c":
                    if t.base[1] == k and t.sgn == 1:
                        continue
                    bad.append("component %d is %r" % (k, t))
                else:
                    if t.sgn == 1 and (rel & {">=0", ">0"}):
                        continue
                    if t.sgn == -1 and (rel & {"<=0", "<0"}):
                        continue
                    bad.append("component %d gets a %s constant while the path only knows %s about direction component %d" % (
                        k, {1: "positive", -1: "negative", None: "sign-unknown"}[t.sgn], sorted(rel) or "nothing", k))
        return bad


def _local_direction(f):
    """(name of the local direction vector, number of components)"""
    params = f.params()
    sd = params[0]
    for st in f.node.body:
        if isinstance(st, ast.Assign) and isinstance(st.targets[0], ast.Name) and dot_args(st.value) is not None:
            a, b = dot_args(st.value)
            if u(b) == sd or u(a) == sd:
                other = a if u(b) == sd else b
                n = 2 if u(other) == "axes" else 3
                return st.targets[0].id, n
    return sd, 3


def _name_local_direction(f):
    """When the local direction dot(R.T, d) is used in place instead of being named, analyse an equivalent function in which it
    is assigned to a synthetic local first (the rule tracks components of a NAMED local direction)."""
    import copy
    params = f.params()
    sd = params[0]
    for st in f.node.body:
        if isinstance(st, ast.Assign) and isinstance(st.targets[0], ast.Name) and dot_args(st.value) is not None and sd in [u(x) for x in dot_args(st.value)]:
            return f
    node = copy.deepcopy(f.node)
    hits = [n for n in ast.walk(node) if dot_args(n) is not None and sd in [u(x) for x in dot_args(n)]]
    if not hits or len({u(h) for h in hits}) != 1:
        return f
    txt = u(hits[0])
    first = copy.deepcopy(hits[0])

    class R(ast.NodeTransformer):
        def visit_Call(self, n):
            if u(n) == txt:
                return ast.copy_location(ast.Name(id="local_dir__", ctx=ast.Load()), n)
            return self.generic_visit(n)
    node = R().visit(node)
    k = 1 if (node.body and isinstance(node.body[0], ast.Expr) and isinstance(node.body[0].value, ast.Constant)) else 0
    asg = ast.Assign(targets=[ast.Name(id="local_dir__", ctx=ast.Store())], value=first)
    ast.copy_location(asg, node.body[k] if k < len(node.body) else node)
    node.body.insert(k, asg)
    ast.fix_missing_locations(node)
    g = copy.copy(f)
    g.node = node
    return g


def r_signalign(idx, rep, rule="R-SIGNALIGN"):
    rep.rule(rule, "closed-form support functions: on every return path each local component of the support point is a "
                   "non-negative multiple of the same direction component, a constant whose sign the path's tests justify, or "
                   "zero (<support - centre, d> >= 0); the cone takes the candidate with the larger projection", floor=12, unknown_ceiling=4)
    names = ["support_function_cylinder", "support_function_capsule", "support_function_ellipsoid", "support_function_box",
             "support_function_sphere", "support_function_disk", "support_function_ellipse", "support_function_cone"]
    for name in names:
        f0 = idx.func(G + "::" + name)
        # private one-expression helpers of the module (e.g. a shared `direction in the local frame`) are read as the expression they return
        import copy as _copy
        f1 = _copy.copy(f0)
        f1.node = expand_helpers(idx, f0.module, f0.node, only=lambda c: c.name.startswith("_") and c.module is f0.module)
        f = _name_local_direction(f1)
        dname, n = _local_direction(f)
        sa = SignAlign(f, dname, n)
        paths = sa.run()
        if name.endswith("cone"):
            _cone_choice(rep, rule, f, sa, paths)
        npaths = 0
        for p in paths:
            if p.ret is None:
                continue
            npaths += 1
            if isinstance(p.ret, ast.Name) and not (p.env.get(p.ret.id) and p.env[p.ret.id][0] == "vec"):
                pe_ = p.env.get("__expr_" + p.ret.id)
                if isinstance(pe_, ast.AST):
                    p.ret = ast.copy_location(pe_, p.ret) if not hasattr(pe_, "lineno") else pe_          # the expression bound on this path
                else:
                    p.ret = resolved(f.node, p.ret)          # `tmp = transform_point(T, v); return tmp`
            local = _local_vertex(p.ret, p)
            where = "%s:%d" % (f.module.relpath, p.ret.lineno)
            pathtxt = ", ".join("d%d %s" % (k, "/".join(sorted(v))) for k, v in sorted(p.facts.items())) or "no tests"
            key = "%s|return %s [%s]" % (f.key, u(p.ret)[:60], pathtxt)
            if local == "zero":
                rep.ok(rule, key, where, "returns the centre (zero offset)")
                continue
            if local is None:
                rep.unknown(rule, key, where, "local support point expression `%s` not recognised: this return path is not decided" % u(p.ret)[:80])
                continue
            v = sa.vec(local, p)
            if not isinstance(v, list):
                rep.unknown(rule, key, where, "components of `%s` not tracked: this return path is not decided" % u(local))
                continue
            if name.endswith("cone") and p.env.get("__proj") and p.env["__proj"][0] == "apex" and _apex_like(v, p.env["__proj"][2]):
                rep.ok(rule, key, where, "apex candidate (selected by the projection comparison)")
                continue
            bad = sa.aligned(v, p)
            rep.check(not bad, rule, key, where,
                      "on the path [%s] the local support point `%s` is not aligned with the search direction: %s; the returned point can lie "
                      "on the far side of the shape" % (pathtxt, u(local), "; ".join(bad)), "components %s" % v)
        if npaths == 0:
            rep.error("R-SIGNALIGN found no return path in %s" % f.key)


def _local_vertex(ret, p):
    """expression of the local-frame support point inside the return expression"""
    if isinstance(ret, ast.Call) and (call_name(ret) or "").split(".")[-1] == "transform_point" and len(ret.args) == 2:
        inner = ret.args[1]
        if isinstance(inner, ast.Call) and (call_name(inner) or "").split(".")[-1] == "transform_point" and len(inner.args) == 2:
            return inner.args[1]
        return inner
    if dot_args(ret) is not None:
        for x in dot_args(ret):
            if isinstance(x, ast.Name) and x.id in p.env and p.env[x.id][0] == "vec":
                return x
    if isinstance(ret, ast.Call) and call_name(ret) == "np.copy":
        return "zero"
    if isinstance(ret, ast.Name):
        v = p.env.get(ret.id)
        if v and v[0] == "vec":
            return ret
        return None
    if isinstance(ret, ast.BinOp) and isinstance(ret.op, ast.Add):
        for c, o in ((ret.left, ret.right), (ret.right, ret.left)):
            if isinstance(c, ast.Name) and "center" in c.id:
                d = dot_args(o)
                if d is not None:
                    # center + R . point   /  center + local_vertex . axes
                    for x in d:
                        if isinstance(x, ast.Name) and x.id in p.env and p.env[x.id][0] == "vec":
                            return x
                    return None
                return o
    return None


def _proj_info(test, dname):
    """dot(D, cand) >= D[k] * h  (either orientation)  ->  (rim point is taken when the test is TRUE, cand, k, h name)"""
    n = ncmp(test)
    if n is None:
        return None
    op, a, b = n                      # a <= b  or  a < b
    if op not in ("<=", "<"):
        return None
    rim_on_true = True
    d = dot_args(b)
    if d is None or dname not in {u(x) for x in d}:
        d = dot_args(a)
        if d is None or dname not in {u(x) for x in d}:
            return None
        a, b = b, a                   # the projection of the rim point is on the small side: the rim is taken when the test is false
        rim_on_true = False
    cand = [u(x) for x in d if u(x) != dname]
    if len(cand) != 1 or not (isinstance(a, ast.BinOp) and isinstance(a.op, ast.Mult)):
        return None
    for x, y in ((a.left, a.right), (a.right, a.left)):
        if isinstance(x, ast.Subscript) and u(x.value) == dname and isinstance(const(x.slice), int):
            return rim_on_true, cand[0], const(x.slice), u(y)
    return None


def _apex_like(v, k):
    """components: zero everywhere except a positive constant at k"""
    if not isinstance(v, list) or k >= len(v):
        return False
    for i, c in enumerate(v):
        for t in c:
            if i == k:
                if not (t.base == "c" and t.sgn == 1):
                    return False
            elif t.sgn != 0:
                return False
    return True


def _cone_choice(rep, rule, f, sa, paths):
    """the candidate with the LARGER projection on the direction is returned: on the paths where dot(D, rim) >= D[k] * h holds the rim
    point, on the others the apex [0, 0, h] — however the selection is written (assignment in two arms, early returns)"""
    tests = {}
    for p in paths:
        pr = p.env.get("__proj")
        if p.ret is None or pr is None:
            continue
        side, cand, k, hname, st = pr
        local = _local_vertex(p.ret, p)
        v = sa.vec(local, p) if local is not None and local != "zero" else None
        apex = _apex_like(v, k)
        if apex:
            node = resolved(f.node, local) if isinstance(local, ast.Name) else local
            if isinstance(node, ast.Call) and call_name(node) == "np.array" and node.args and isinstance(node.args[0], ast.List):
                apex = [u(e) for e in node.args[0].elts] == [("0.0" if i != k else hname) for i in range(len(node.args[0].elts))]
        rim = isinstance(local, ast.Name) and cand in (local.id, p.env.get("__alias_" + local.id))
        ok = (side == "rim" and rim) or (side == "apex" and apex)
        tests.setdefault(st, []).append((ok, side, u(local) if isinstance(local, ast.AST) else str(local)))
    if not tests:
        rep.error("R-SIGNALIGN: projection comparison of the cone not found")
    for st, res in tests.items():
        bad = [r for r in res if not r[0]]
        rep.check(not bad, rule, f.key + "|larger projection wins", "%s:%d" % (f.module.relpath, st.lineno),
                  "the cone must return the rim point when dot(d, rim) >= d[k] * height (= dot(d, apex)) and the apex [0, 0, height] otherwise; under the test `%s` "
                  "the side where the %s has the larger projection returns `%s`" % (u(st.test), bad[0][1] if bad else "", bad[0][2] if bad else ""),
                  "%d return paths" % len(res))
