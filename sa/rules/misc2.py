"""Small repository-specific rules written after the third round of blind seeded changes."""
import ast

from ..core.astutil import u, call_name, ncmp, const, resolved
from ..core.index import AnalysisError


def r_basisguard(idx, rep, rule="R-BASISGUARD"):
    """utils.plane_basis_from_normal divides by sqrt(n[a]^2 + n[c]^2): safe for a unit normal only on the branch where |n[a]| is the
    larger of the two compared magnitudes (then n[a]^2 + n[c]^2 >= 1/3... > 0)."""
    rep.rule(rule, "plane_basis_from_normal: the branch test compares the MAGNITUDES of two normal components and each branch divides by the "
                   "length built from the component that won (a signed comparison sends (0,-1,0) into the branch whose length is 0)", floor=1)
    f = idx.func("distance3d.utils::plane_basis_from_normal")
    n = f.params()[0]
    ifs = [st for st in f.node.body if isinstance(st, ast.If) and st.orelse]
    if not ifs:
        raise AnalysisError("plane_basis_from_normal: branch not found")
    st = ifs[0]
    t = ncmp(st.test)

    def abs_comp(e):
        e = resolved(f.node, e) if isinstance(e, ast.Name) else e                    # `abs_x = abs(n[0])` named first
        if isinstance(e, ast.Call) and call_name(e) in ("abs", "np.abs", "math.fabs") and e.args:
            a = resolved(f.node, e.args[0]) if isinstance(e.args[0], ast.Name) else e.args[0]      # `nx = n[0]` named first
            if isinstance(a, ast.Subscript) and u(a.value) == n and isinstance(const(a.slice), int):
                return const(a.slice)
        return None
    where = "%s:%d" % (f.module.relpath, st.lineno)
    ok = t is not None and t[0] in ("<=", "<") and abs_comp(t[1]) is not None and abs_comp(t[2]) is not None
    rep.check(ok, rule, f.key + "|branch on magnitudes", where,
              "the branch test `%s` does not compare abs() of two components of the normal: for a component that is negative the 'larger' one is not the "
              "larger magnitude and the chosen branch can divide by a length of exactly 0" % u(st.test), "abs vs abs")
    if not ok:
        return
    small, big = abs_comp(t[1]), abs_comp(t[2])       # |n[small]| <= |n[big]|  on the then-branch

    def length_comps(body):
        out = None
        for s in ast.walk(ast.Module(body=body, type_ignores=[])):
            if isinstance(s, ast.Call) and call_name(s) in ("math.sqrt", "np.sqrt") and s.args:
                comps = set()
                from ..core.astutil import inline_temps_in
                for sub in ast.walk(inline_temps_in(f.node, s.args[0])):
                    if isinstance(sub, ast.Subscript) and u(sub.value) == n and isinstance(const(sub.slice), int):
                        comps.add(const(sub.slice))
                out = comps
        return out
    lc_then, lc_else = length_comps(st.body), length_comps(st.orelse)
    rep.check(lc_then is not None and big in lc_then and small not in lc_then, rule, f.key + "|then-branch length uses the larger component", where,
              "on the then-branch |n[%d]| >= |n[%d]|, but the length is built from components %s" % (big, small, sorted(lc_then or [])), "uses n[%d]" % big)
    rep.check(lc_else is not None and small in lc_else and big not in lc_else, rule, f.key + "|else-branch length uses the larger component", where,
              "on the else-branch |n[%d]| > |n[%d]|, but the length is built from components %s" % (small, big, sorted(lc_else or [])), "uses n[%d]" % small)


class _SetInterp:
    """interpretation of adjacency-building code over LABELS: the three vertices of one generic triangle are the labels 'A', 'B', 'C'; dicts, sets, tuples,
    zip / enumerate / np.roll / range and the set / dict methods used to record neighbours are evaluated on them.  NotImplementedError = not modelled."""

    def __init__(self):
        self.env = {}

    def ev(self, e):
        if isinstance(e, ast.Constant):
            return e.value
        if isinstance(e, ast.Name):
            if e.id in self.env:
                return self.env[e.id]
            raise NotImplementedError("name %s" % e.id)
        if isinstance(e, (ast.Tuple, ast.List)):
            return tuple(self.ev(x) for x in e.elts)
        if isinstance(e, ast.Set):
            return {self.ev(x) for x in e.elts}
        if isinstance(e, ast.Dict):
            return {self.ev(k): self.ev(v) for k, v in zip(e.keys, e.values)}
        if isinstance(e, ast.UnaryOp) and isinstance(e.op, ast.USub):
            return -self.ev(e.operand)
        if isinstance(e, ast.UnaryOp) and isinstance(e.op, ast.Not):
            return not self.ev(e.operand)
        if isinstance(e, ast.BinOp):
            a, b = self.ev(e.left), self.ev(e.right)
            if isinstance(e.op, ast.BitOr) and isinstance(a, (set, frozenset)) and isinstance(b, (set, frozenset)):
                return set(a) | set(b)
            if isinstance(e.op, ast.Sub) and isinstance(a, (set, frozenset)) and isinstance(b, (set, frozenset)):
                return set(a) - set(b)
            if isinstance(a, int) and isinstance(b, int):
                return {ast.Add: a + b, ast.Sub: a - b, ast.Mod: a % b if b else 0, ast.Mult: a * b}.get(type(e.op), None)
            if isinstance(e.op, ast.Add) and isinstance(a, tuple) and isinstance(b, tuple):
                return a + b
            raise NotImplementedError("operator")
        if isinstance(e, ast.Compare) and len(e.ops) == 1:
            a, b = self.ev(e.left), self.ev(e.comparators[0])
            op = e.ops[0]
            if isinstance(op, ast.In):
                return a in b
            if isinstance(op, ast.NotIn):
                return a not in b
            if isinstance(op, ast.Eq):
                return a == b
            if isinstance(op, ast.NotEq):
                return a != b
            raise NotImplementedError("comparison")
        if isinstance(e, ast.Subscript):
            base = self.ev(e.value)
            if isinstance(e.slice, ast.Slice):
                lo = self.ev(e.slice.lower) if e.slice.lower is not None else None
                hi = self.ev(e.slice.upper) if e.slice.upper is not None else None
                return base[lo:hi]
            return base[self.ev(e.slice)]
        if isinstance(e, ast.Call):
            name = call_name(e) or ""
            args = [self.ev(a) for a in e.args]
            if isinstance(e.func, ast.Attribute) and not name.startswith(("np.", "numpy.")):
                recv = self.ev(e.func.value)
                meth = e.func.attr
                if isinstance(recv, dict) and meth == "setdefault" and len(args) == 2:
                    return recv.setdefault(args[0], args[1])
                if isinstance(recv, dict) and meth == "get":
                    return recv.get(*args)
                if isinstance(recv, set) and meth == "add" and len(args) == 1:
                    recv.add(args[0])
                    return None
                if isinstance(recv, set) and meth == "update":
                    for a_ in args:
                        recv.update(a_)
                    return None
                if isinstance(recv, set) and meth in ("union",):
                    return set(recv).union(*args)
                raise NotImplementedError("method %s" % meth)
            if name == "set":
                return set(args[0]) if args else set()
            if name in ("tuple", "list"):
                return tuple(args[0]) if args else ()
            if name == "zip":
                return tuple(zip(*args))
            if name == "enumerate":
                return tuple(enumerate(args[0]))
            if name == "range":
                return tuple(range(*args))
            if name == "len":
                return len(args[0])
            if name in ("np.roll", "numpy.roll") and len(args) == 2 and isinstance(args[0], tuple) and isinstance(args[1], int):
                k = args[1] % len(args[0]) if args[0] else 0
                return args[0][-k:] + args[0][:-k] if k else args[0]
            if name in ("int",) and len(args) == 1:
                return args[0]
            if name == "dict" and not args:
                return {}
            if name in ("defaultdict", "collections.defaultdict"):
                import collections
                return collections.defaultdict(set)
            raise NotImplementedError("call %s" % name)
        raise NotImplementedError(type(e).__name__)

    def assign(self, t, v):
        if isinstance(t, ast.Name):
            self.env[t.id] = v
        elif isinstance(t, (ast.Tuple, ast.List)):
            v = tuple(v)
            if len(v) != len(t.elts):
                raise NotImplementedError("unpacking")
            for tt, vv in zip(t.elts, v):
                self.assign(tt, vv)
        elif isinstance(t, ast.Subscript):
            self.ev(t.value)[self.ev(t.slice)] = v
        else:
            raise NotImplementedError("target")

    def run(self, stmts):
        for st in stmts:
            if isinstance(st, ast.Assign):
                v = self.ev(st.value)
                for t in st.targets:
                    self.assign(t, v)
            elif isinstance(st, ast.AugAssign):
                cur = self.ev(st.target)
                v = self.ev(st.value)
                if isinstance(st.op, ast.BitOr) and isinstance(cur, set):
                    cur |= set(v)
                else:
                    raise NotImplementedError("augmented assignment")
            elif isinstance(st, ast.Expr):
                if not isinstance(st.value, ast.Constant):
                    self.ev(st.value)
            elif isinstance(st, ast.If):
                self.run(st.body if self.ev(st.test) else st.orelse)
            elif isinstance(st, ast.For):
                for x in self.ev(st.iter):
                    self.assign(st.target, x)
                    self.run(st.body)
            elif isinstance(st, ast.Pass):
                continue
            else:
                raise NotImplementedError("statement %s" % type(st).__name__)


def r_adjacency(idx, rep, rule="R-ADJACENCY"):
    """MeshHillClimbingSupportFunction.__init__ builds the vertex adjacency from the triangles: every vertex of a triangle gets the OTHER TWO as
    neighbours (hill climbing reaches the extreme vertex of a convex mesh only over a complete adjacency; a directed edge list loses a link wherever two
    adjacent triangles are wound oppositely).  Decided by interpreting the body of the loop over the triangles for ONE generic triangle with the vertex
    labels A, B, C (rules above): however the links are recorded, the adjacency of that triangle must come out as A:{B,C}, B:{A,C}, C:{A,B}."""
    rep.rule(rule, "mesh adjacency: for each triangle (i, j, k) every vertex receives exactly the other two as neighbours (interpretation of the loop body over "
                   "vertex labels)", floor=3)
    ci = idx.module("distance3d.mesh").classes.get("MeshHillClimbingSupportFunction")
    init = ci.methods.get("__init__") if ci else None
    if init is None:
        raise AnalysisError("MeshHillClimbingSupportFunction.__init__ vanished")
    params = init.params()
    loops = [st for st in init.node.body if isinstance(st, ast.For) and isinstance(st.iter, ast.Name) and st.iter.id in params]
    if not loops:
        raise AnalysisError("MeshHillClimbingSupportFunction.__init__: loop over the triangles not found")
    lp = loops[0]
    it = _SetInterp()
    # containers created before the loop
    for st in init.node.body[:init.node.body.index(lp)]:
        if isinstance(st, ast.Assign) and len(st.targets) == 1 and isinstance(st.targets[0], ast.Name):
            try:
                it.env[st.targets[0].id] = it.ev(st.value)
            except (NotImplementedError, Exception):
                pass
    where = "%s:%d" % (init.module.relpath, lp.lineno)
    try:
        it.assign(lp.target, ("A", "B", "C"))
        it.run(lp.body)
    except NotImplementedError as e:
        for k in range(3):
            rep.unknown(rule, "%s|neighbours of vertex #%d of a triangle" % (init.key, k), where, "the loop body is not interpretable over labels (%s)" % e)
        return
    except Exception as e:      # an interpretation error on the generic triangle
        for k in range(3):
            rep.unknown(rule, "%s|neighbours of vertex #%d of a triangle" % (init.key, k), where, "interpretation failed: %s" % type(e).__name__)
        return
    adj = None
    for v in it.env.values():
        if isinstance(v, dict) and set(v) & {"A", "B", "C"}:
            adj = v
    labels = ("A", "B", "C")
    for k, x in enumerate(labels):
        want = set(labels) - {x}
        got = set(adj.get(x, ())) if adj is not None else set()
        rep.check(got == want, rule, "%s|neighbours of vertex #%d of a triangle" % (init.key, k), where,
                  "vertex #%d of a triangle receives the neighbours %s instead of the other two %s: a directed link is lost, hill climbing can stall on a mesh "
                  "whose neighbouring triangle does not restore it (mixed winding), and the support point then depends on the start vertex"
                  % (k, sorted(got), sorted(want)), "other two")


def r_dupcond(idx, rep, modules, rule="R-DUPCOND", floor=20):
    """copy-paste indicators that change behaviour: the same operand twice in one and/or, a comparison of an expression with itself, the
    same test twice in an if/elif chain (the second copy was meant to test something else)."""
    rep.rule(rule, "no conjunction / disjunction repeats an operand, no comparison has identical sides, no if/elif chain repeats a test", floor=floor)
    for mname in modules:
        m = idx.modules.get(mname)
        if m is None:
            continue
        for f in m.functions.values():
            if "<locals>" in f.qualname:
                continue
            bad = None
            for n in ast.walk(f.node):
                if isinstance(n, ast.BoolOp):
                    t = [u(v) for v in n.values]
                    if len(set(t)) < len(t):
                        bad = (n, "`%s` repeats the operand `%s`: the second copy was meant to test something else (other index / other side)" % (u(n)[:90], [x for x in t if t.count(x) > 1][0][:60]))
                elif isinstance(n, ast.Compare) and len(n.ops) == 1 and u(n.left) == u(n.comparators[0]) and not isinstance(n.left, ast.Constant):
                    bad = (n, "`%s` compares an expression with itself" % u(n)[:80])
                elif isinstance(n, ast.If) and n.orelse and len(n.orelse) == 1 and isinstance(n.orelse[0], ast.If) and u(n.test) == u(n.orelse[0].test):
                    bad = (n, "the if/elif chain tests `%s` twice" % u(n.test)[:80])
            key = "%s|no duplicated condition" % f.key
            if bad:
                rep.bad(rule, key, "%s:%d" % (m.relpath, bad[0].lineno), bad[1])
            else:
                rep.ok(rule, key, f.where, "")


def r_stiffness(idx, rep, rule="R-STIFFNESS"):
    """hydroelastic contact plane = locus of equal PRESSURE p_k = E_k * eps_k.  Dimensional bookkeeping with the two moduli as independent
    units (eps_k carries 1/E_k, youngs_modulus_k carries E_k, X_k is dimensionless): every term of the plane expression must have the same
    (E1, E2) exponents — `eps1.X1 - (E1/E2) eps2.X2` has (-1, 0) and (1, -2): the ratio is inverted."""
    rep.rule(rule, "contact_plane: every additive term of the plane expression has the same exponents in the two Young's moduli (each potential "
                   "field is weighted by its OWN modulus, or one field by E_other^-1 * E_own): the plane is where the two pressures are equal", floor=1)
    f = idx.func("distance3d.hydroelastic_contact._tetrahedron_intersection::contact_plane")
    ps = f.params()
    # parameter roles by suffix: X1 X2 epsilon1 epsilon2 youngs_modulus1 youngs_modulus2
    dim = {}
    for p in ps:
        if p.startswith("epsilon") and p[-1] in "12":
            dim[p] = (-1, 0) if p[-1] == "1" else (0, -1)
        elif "modulus" in p and p[-1] in "12":
            dim[p] = (1, 0) if p[-1] == "1" else (0, 1)
        elif p.startswith("X"):
            dim[p] = (0, 0)
    if len(dim) < 6:
        raise AnalysisError("contact_plane: parameters X1, X2, epsilon1, epsilon2, youngs_modulus1, youngs_modulus2 not found (%s)" % ps)
    defs = {}
    for st in f.node.body:
        if isinstance(st, ast.Assign) and len(st.targets) == 1 and isinstance(st.targets[0], ast.Name):
            defs.setdefault(st.targets[0].id, st.value)

    def add(a, b, s=1):
        return None if a is None or b is None else (a[0] + s * b[0], a[1] + s * b[1])

    def d(e, depth=0):
        if isinstance(e, ast.Constant):
            return (0, 0)
        if isinstance(e, ast.Name):
            if e.id in dim:
                return dim[e.id]
            if e.id in defs and depth < 4:
                return d(defs[e.id], depth + 1)
            return None
        if isinstance(e, ast.Subscript):
            return d(e.value, depth)
        if isinstance(e, ast.UnaryOp):
            return d(e.operand, depth)
        if isinstance(e, ast.BinOp):
            if isinstance(e.op, ast.Mult):
                return add(d(e.left, depth), d(e.right, depth))
            if isinstance(e.op, ast.Div):
                return add(d(e.left, depth), d(e.right, depth), -1)
            if isinstance(e.op, (ast.Add, ast.Sub)):
                l, r = d(e.left, depth), d(e.right, depth)
                return l if l == r else None
            return None
        if isinstance(e, ast.Call):
            from ..core.astutil import dot_args
            da = dot_args(e)
            if da is not None:
                return add(d(da[0], depth), d(da[1], depth))
            return None
        return None

    def terms(e):
        if isinstance(e, ast.BinOp) and isinstance(e.op, (ast.Add, ast.Sub)):
            return terms(e.left) + terms(e.right)
        return [e]
    target = None
    # the plane expression: the first assignment whose value — temporaries read through — is a two-term sum / difference that mentions BOTH barycentric
    # transforms (the function's first two parameters, whatever they are called)
    import copy as _copy
    from ..core.astutil import inline_temps_in
    _ps = f.params()
    for st in f.node.body:
        if not isinstance(st, ast.Assign):
            continue
        val_ = inline_temps_in(f.node, st.value)
        names_ = {n.id for n in ast.walk(val_) if isinstance(n, ast.Name)}
        if isinstance(val_, ast.BinOp) and isinstance(val_.op, (ast.Sub, ast.Add)) and len(terms(val_)) == 2 and len(_ps) >= 2 and {_ps[0], _ps[1]} <= names_:
            target = _copy.copy(st)
            target.value = val_
            break
    if target is None:
        raise AnalysisError("contact_plane: plane expression (difference of the two weighted fields) not found")
    ts = terms(target.value)
    ds = [d(t) for t in ts]
    key = f.key + "|both pressure fields in the same units"
    where = "%s:%d" % (f.module.relpath, target.lineno)
    if any(x is None for x in ds):
        rep.unknown(rule, key, where, "exponents of `%s` not inferred" % u(target.value)[:80])
        return
    rep.check(ds[0] == ds[1], rule, key, where,
              "`%s`: the two terms carry the Young's-modulus exponents (E1, E2) = %s and %s — they are not both pressures (or both pressures divided by the same "
              "modulus): the stiffness ratio is applied to the wrong field or inverted, so contact_forces(b1, b2) and contact_forces(b2, b1) use different surfaces"
              % (u(target.value)[:100], ds[0], ds[1]), "exponents %s" % (ds[0],))


def r_stiffness_chain(idx, rep, rule="R-STIFFNESS"):
    """The same bookkeeping followed from find_contact_surface down to contact_plane with the exponents of the ACTUAL arguments (a potential
    field carries 1/E_k, a modulus E_k, a pressure field E_k * potential nothing): whatever the intermediate parameters are called, the two
    terms of the plane expression must come out with equal exponents.  Passing a field that is already a pressure together with the modulus
    applies the stiffness twice (E^2): the plane moves towards the softer body, differently for (b1, b2) and (b2, b1)."""
    from ..core.astutil import dot_args
    from ..core.inline import bind_args
    HYP = "distance3d.hydroelastic_contact."
    rb = idx.cls(HYP + "_rigid_body::RigidBody")

    def add(a, b, s=1):
        return None if a is None or b is None else (a[0] + s * b[0], a[1] + s * b[1])

    def attr_exp(attr, depth=0):
        """exponent of the body's own modulus carried by RigidBody.<attr>"""
        m = rb.methods.get(attr)
        if m is not None and depth < 5 and any("property" in u(dec) for dec in m.node.decorator_list):
            rets = [st for st in ast.walk(m.node) if isinstance(st, ast.Return) and st.value is not None]
            if len(rets) == 1:
                return self_exp(rets[0].value, depth + 1)
            return None
        if "modulus" in attr:
            return 1
        if "potential" in attr:
            return -1
        if "pressure" in attr:
            return 0
        return 0

    def self_exp(e, depth):
        if isinstance(e, ast.Constant):
            return 0
        if isinstance(e, ast.Attribute) and isinstance(e.value, ast.Name) and e.value.id == "self":
            return attr_exp(e.attr, depth)
        if isinstance(e, ast.Subscript):
            return self_exp(e.value, depth)
        if isinstance(e, ast.UnaryOp):
            return self_exp(e.operand, depth)
        if isinstance(e, ast.BinOp) and isinstance(e.op, (ast.Mult, ast.Div)):
            a, b = self_exp(e.left, depth), self_exp(e.right, depth)
            return None if a is None or b is None else (a + b if isinstance(e.op, ast.Mult) else a - b)
        if isinstance(e, ast.BinOp) and isinstance(e.op, (ast.Add, ast.Sub)):
            a, b = self_exp(e.left, depth), self_exp(e.right, depth)
            return a if a == b else None
        return None

    def d(e, env, defs, depth=0):
        if isinstance(e, ast.Constant):
            return (0, 0)
        if isinstance(e, ast.Name):
            if e.id in env:
                return env[e.id]
            if e.id in defs and depth < 4:
                return d(defs[e.id], env, defs, depth + 1)
            return None
        if isinstance(e, ast.Attribute) and isinstance(e.value, ast.Name) and e.value.id[-1:] in "12" and "body" in e.value.id:
            x = attr_exp(e.attr)
            return None if x is None else ((x, 0) if e.value.id[-1] == "1" else (0, x))
        if isinstance(e, ast.Subscript):
            return d(e.value, env, defs, depth)
        if isinstance(e, ast.UnaryOp):
            return d(e.operand, env, defs, depth)
        if isinstance(e, ast.BinOp):
            if isinstance(e.op, ast.Mult):
                return add(d(e.left, env, defs, depth), d(e.right, env, defs, depth))
            if isinstance(e.op, ast.Div):
                return add(d(e.left, env, defs, depth), d(e.right, env, defs, depth), -1)
            if isinstance(e.op, (ast.Add, ast.Sub)):
                l, r = d(e.left, env, defs, depth), d(e.right, env, defs, depth)
                return l if l == r else None
            return None
        if isinstance(e, ast.Call):
            da = dot_args(e)
            if da is not None:
                return add(d(da[0], env, defs, depth), d(da[1], env, defs, depth))
        return None

    def defs_of(f):
        out = {}
        for st in ast.walk(f.node):
            if isinstance(st, ast.Assign) and len(st.targets) == 1 and isinstance(st.targets[0], ast.Name):
                out.setdefault(st.targets[0].id, st.value)
        return out
    chain = [(HYP + "_interface::find_contact_surface", "intersect_tetrahedron_pairs"),
             (HYP + "_tetrahedron_intersection::intersect_tetrahedron_pairs", "intersect_tetrahedron_pair"),
             (HYP + "_tetrahedron_intersection::intersect_tetrahedron_pair", "contact_plane")]
    env = {}
    for fkey, callee_name in chain:
        f = idx.func(fkey)
        cs = [c for c in ast.walk(f.node) if isinstance(c, ast.Call) and (call_name(c) or "").split(".")[-1] == callee_name]
        if len(cs) != 1:
            raise AnalysisError("%s: expected one call of %s, found %d" % (fkey, callee_name, len(cs)))
        callee = idx.resolve_call(f.module, cs[0], None)
        if callee is None:
            raise AnalysisError("%s: callee %s not resolved" % (fkey, callee_name))
        b = bind_args(callee.node, cs[0])
        if b is None:
            raise AnalysisError("%s: call of %s is not a plain call" % (fkey, callee_name))
        df = defs_of(f)
        env = {p_: d(a, env, df) for p_, a in b.items()}
        for p_ in env:
            if env[p_] is None and p_.startswith("X"):
                env[p_] = (0, 0)          # barycentric transforms are dimensionless
    cp = idx.func(HYP + "_tetrahedron_intersection::contact_plane")
    df = defs_of(cp)

    def terms(e):
        if isinstance(e, ast.BinOp) and isinstance(e.op, (ast.Add, ast.Sub)):
            return terms(e.left) + terms(e.right)
        return [e]
    target = None
    import copy as _copy
    from ..core.astutil import inline_temps_in
    _ps = cp.params()
    for st in cp.node.body:
        if not isinstance(st, ast.Assign):
            continue
        val_ = inline_temps_in(cp.node, st.value)
        names_ = {n.id for n in ast.walk(val_) if isinstance(n, ast.Name)}
        if isinstance(val_, ast.BinOp) and isinstance(val_.op, (ast.Sub, ast.Add)) and len(terms(val_)) == 2 and len(_ps) >= 2 and {_ps[0], _ps[1]} <= names_:
            target = _copy.copy(st)
            target.value = val_
            break
    if target is None:
        raise AnalysisError("contact_plane: plane expression (difference of the two weighted fields) not found")
    f0 = idx.func(chain[0][0])
    key = f0.key + "|the two pressure fields reach contact_plane in the same units"
    ds = [d(t, env, df) for t in terms(target.value)]
    if any(x is None for x in ds):
        rep.unknown(rule, key, f0.where, "exponents of the actual arguments not inferred (%s)" % {k: v for k, v in env.items() if "epsilon" in k or "modulus" in k})
        return
    rep.check(ds[0] == ds[1] == (0, 0), rule, key, f0.where,
              "followed from find_contact_surface, the arguments of contact_plane carry the Young's-modulus exponents %s, so the two terms of `%s` come out as (E1, E2)^%s and ^%s "
              "instead of two pressures (0, 0): a field that already contains the stiffness is multiplied by the modulus again (or a modulus is missing), the contact surface is "
              "where E1^2 e1 = E2^2 e2 and swapping the bodies changes it" % ({k: v for k, v in sorted(env.items()) if "epsilon" in k or "modulus" in k}, u(target.value)[:80], ds[0], ds[1]),
              "both terms are pressures")


def r_hplayout(idx, rep, rule="R-HPLAYOUT"):
    """a half-plane is the row (px, py, dx, dy): point = [:2], direction = [2:]; a slice that cuts a pair in half ([:1], [1:3], [3:]) reads half a vector"""
    rep.rule(rule, "half-plane rows (px, py, dx, dy) are only sliced at the pair boundaries 0 / 2 / 4 (or indexed by single components)", floor=2)
    m = idx.module("distance3d.hydroelastic_contact._halfplanes")
    mods = [m, idx.module("distance3d.hydroelastic_contact._tetrahedron_intersection")]
    for mm in mods:
        for f in mm.functions.values():
            if f.name.startswith("plot"):
                continue
            bad = None
            n = 0
            for s in ast.walk(f.node):
                if isinstance(s, ast.Subscript) and isinstance(s.value, ast.Name) and s.value.id.startswith("halfplane"):
                    sl = s.slice
                    last = sl.elts[-1] if isinstance(sl, ast.Tuple) else sl
                    # an (n, 4) array of half-planes: recognised by a 2-D subscript somewhere in the function or a 2-D allocation
                    two_d = any(isinstance(t_, ast.Subscript) and isinstance(t_.value, ast.Name) and t_.value.id == s.value.id and isinstance(t_.slice, ast.Tuple)
                                for t_ in ast.walk(f.node)) or s.value.id.rstrip("_rn").endswith("s")
                    if two_d and not isinstance(sl, ast.Tuple):
                        continue          # halfplanes[k] / halfplanes[:n] select rows
                    if isinstance(last, ast.Slice):
                        n += 1
                        for b in (last.lower, last.upper):
                            if b is not None and const(b) not in (0, 2, 4):
                                bad = (s, u(s))
            key = "%s|half-plane slices at pair boundaries" % f.key
            if n == 0 and bad is None:
                continue
            rep.check(bad is None, rule, key, "%s:%d" % (mm.relpath, bad[0].lineno if bad else f.node.lineno),
                      "`%s` cuts the (px, py | dx, dy) layout in the middle of a pair: only one coordinate of the point / direction is used, so two parallel but "
                      "offset border lines compare as equal (or a 2-D quantity is silently truncated)" % (bad[1] if bad else ""), "%d slices" % n)


def r_shortcuts(idx, rep, rule="R-SHORTCUTS"):
    """hill climbing escapes plateaus through six shortcut vertices: the extreme vertices along +x, +y, +z, -x, -y, -z of the mesh frame"""
    rep.rule(rule, "MeshHillClimbingSupportFunction: the shortcut vertices are the extremes along all six signed axes (argmax/argmin over each "
                   "column, or a direction table whose rows are exactly the six signed unit vectors)", floor=1)
    ci = idx.module("distance3d.mesh").classes.get("MeshHillClimbingSupportFunction")
    init = ci.methods.get("__init__") if ci else None
    if init is None:
        raise AnalysisError("MeshHillClimbingSupportFunction.__init__ vanished")
    asg = [st for st in ast.walk(init.node) if isinstance(st, ast.Assign) and u(st.targets[0]) == "self.shortcut_connections"]
    if not asg:
        raise AnalysisError("self.shortcut_connections is no longer assigned in __init__")
    st = asg[-1]
    key = init.key + "|six signed axis extremes"
    where = "%s:%d" % (init.module.relpath, st.lineno)
    got = set()
    for c in ast.walk(st.value):
        if isinstance(c, ast.Call) and call_name(c) in ("np.argmax", "np.argmin") and c.args and isinstance(c.args[0], ast.Subscript):
            sl = c.args[0].slice
            k = const(sl.elts[-1]) if isinstance(sl, ast.Tuple) else None
            if isinstance(k, int):
                got.add(("+" if call_name(c) == "np.argmax" else "-", k))
    want = {(s, k) for s in "+-" for k in range(3)}
    if got:
        rep.check(got == want, rule, key, where, "the shortcut vertices cover %s instead of all six signed axes %s: a plateau facing a missing direction cannot be left"
                  % (sorted(got), sorted(want)), "6 extremes")
        return
    # direction-table form: argmax(vertices . D^T) with a literal table D
    tables = {}
    for s2 in ast.walk(init.node):
        if isinstance(s2, ast.Assign) and isinstance(s2.targets[0], ast.Name) and isinstance(s2.value, ast.Call) and call_name(s2.value) == "np.array" and s2.value.args:
            try:
                tables[s2.targets[0].id] = ast.literal_eval(s2.value.args[0])
            except Exception:
                pass
    used = [n.id for n in ast.walk(st.value) if isinstance(n, ast.Name) and n.id in tables]
    maxmin = [call_name(c) for c in ast.walk(st.value) if isinstance(c, ast.Call) and call_name(c) in ("np.argmax", "np.argmin")]
    if used and maxmin == ["np.argmax"]:
        rows = {tuple(float(x) for x in r) for r in tables[used[0]]}
        wantrows = {tuple(float(s) if i == k else 0.0 for i in range(3)) for k in range(3) for s in (1.0, -1.0)}
        rep.check(rows == wantrows and len(tables[used[0]]) == 6, rule, key, where,
                  "the direction table has the rows %s; the six signed unit vectors are required (a duplicated / missing direction loses one shortcut vertex, "
                  "so hill climbing can stall on a flat face opposite to it)" % sorted(rows), "6 directions")
        return
    rep.unknown(rule, key, where, "construction of the shortcut vertices not recognised")


def r_anglesort(idx, rep, rule="R-ANGLESORT"):
    """contact polygon vertices are put in counter-clockwise order by the polar angle atan2(y, x) about the centroid"""
    rep.rule(rule, "order_points sorts by np.arctan2(y, x) of the centred points (a hand-made pseudo-angle with np.sign(y) maps the whole negative x axis "
                   "to angle 0 because sign(0) == 0: bow-tie polygons)", floor=1, unknown_ceiling=0)
    f = idx.func("distance3d.hydroelastic_contact._tetrahedron_intersection::order_points")
    sorts = [c for c in ast.walk(f.node) if isinstance(c, ast.Call) and call_name(c) == "np.argsort" and c.args]
    if not sorts:
        raise AnalysisError("order_points: np.argsort not found")
    k = sorts[0].args[0]
    val = k
    if isinstance(k, ast.Name):
        ds = [st.value for st in ast.walk(f.node) if isinstance(st, ast.Assign) and u(st.targets[0]) == k.id]
        val = ds[-1] if ds else k
    key = f.key + "|sort key is the polar angle"
    where = "%s:%d" % (f.module.relpath, sorts[0].lineno)
    if isinstance(val, ast.Call) and call_name(val) == "np.arctan2" and len(val.args) == 2:
        y, x = val.args

        def col(e):
            """k when e is column k of the points, centred either as a whole (`(P - c)[:, k]`) or per column (`P[:, k] - c_k`)"""
            if isinstance(e, ast.BinOp) and isinstance(e.op, ast.Sub):
                e = e.left
            if isinstance(e, ast.Subscript):
                t = u(e.slice).replace(" ", "").strip("()")
                if t in (":,0", ":,1"):
                    return int(t[-1]), u(e.value)
            return None
        cy, cx = col(y), col(x)
        ok = cy is not None and cx is not None and cy[0] == 1 and cx[0] == 0 and cy[1] == cx[1]
        rep.check(ok, rule, key, where, "arctan2 is applied to `%s`, `%s` instead of (y, x) of the centred points" % (u(y), u(x)), "arctan2(y, x)")
    elif any(isinstance(c, ast.Call) and call_name(c) == "np.sign" for c in ast.walk(val)):
        rep.bad(rule, key, where, "the sort key `%s` is built with np.sign: sign(0) == 0 sends a vertex with y exactly equal to the centroid's y and x to its left to "
                                  "angle 0 instead of pi, so the polygon is ordered as a self-intersecting bow-tie (axis-aligned stacking)" % u(val)[:90])
    else:
        rep.unknown(rule, key, where, "sort key `%s` is not np.arctan2(y, x)" % u(val)[:80])


def r_parallelsign(idx, rep, modules, rule="R-PARALLELSIGN", floor=1):
    """parallelism of two directions / normals does not depend on their orientation: n1 || n2 iff |n1.n2| = 1 iff |n1 x n2| = 0"""
    rep.rule(rule, "tests for (non-)parallel directions are orientation independent: norm(cross(d1, d2)), 1 - (d1.d2)^2 or abs(d1.d2) — never the "
                   "signed inner product against 1 - eps (anti-parallel normals are parallel planes)", floor=floor)
    from ..engines.frames import DIR_WORDS
    from ..core.astutil import dot_args, parent_map
    for mname in modules:
        m = idx.modules.get(mname)
        if m is None:
            continue
        for f in m.functions.values():
            dirs = {p for p in f.params() if any(w in p.lower() for w in DIR_WORDS)}
            if len(dirs) < 2:
                continue
            pm = None
            sites = 0
            bad = None
            for c in ast.walk(f.node):
                if isinstance(c, ast.Compare) and len(c.ops) == 1:
                    for side, other in ((c.left, c.comparators[0]), (c.comparators[0], c.left)):
                        da = dot_args(side)
                        if da and all(isinstance(x, ast.Name) and x.id in dirs for x in da) and da[0].id != da[1].id:
                            sites += 1
                            # signed dot compared with something that is not 0: orientation dependent parallel test
                            if not (isinstance(other, ast.Constant) and other.value in (0, 0.0)):
                                bad = c
                if isinstance(c, ast.Call) and call_name(c) == "np.linalg.norm" and c.args and isinstance(c.args[0], ast.Call) and call_name(c.args[0]) == "np.cross":
                    sites += 1
            for st in ast.walk(f.node):
                if isinstance(st, ast.Assign) and isinstance(st.value, ast.Call) and call_name(st.value) == "np.cross" \
                        and all(isinstance(a, ast.Name) and a.id in dirs for a in st.value.args):
                    sites += 1
            if sites == 0:
                continue
            key = "%s|parallel test is orientation independent" % f.key
            rep.check(bad is None, rule, key, "%s:%d" % (m.relpath, bad.lineno if bad else f.node.lineno),
                      "`%s` decides parallelism from the SIGNED inner product of two directions: anti-parallel normals (n2 = -n1, the same plane family) give -1 and "
                      "take the 'not parallel' branch, where the intersection line is degenerate" % (u(bad) if bad else ""), "orientation independent")



def r_insidezero(idx, rep, rule="R-INSIDEZERO"):
    """point_to_ellipsoid and points_in_ellipsoid must agree: a point of the solid (normalised norm |R^T (p - c) / radii| < 1) has distance 0 and is its own
    closest point under the default arguments.  Decided by walking the function with three-valued conditions: the inside test is TRUE, flags have their
    default values, every other test is open; every `return` that can be reached must be `0.0, <the query point>`."""
    from ..core.astutil import inline_temps_in
    rep.rule(rule, "point_to_ellipsoid: with the default flags every return reachable for a point whose normalised norm is below 1 is (0.0, point) — the distance "
                   "agrees with the containment predicate on interior points, the centre included", floor=1)
    f = idx.func("distance3d.distance._ellipsoid::point_to_ellipsoid")
    ps = f.params()
    point = ps[0]
    defaults = {}
    a = f.node.args
    for p_, d_ in zip(a.args[len(a.args) - len(a.defaults):], a.defaults):
        if isinstance(d_, ast.Constant) and isinstance(d_.value, bool):
            defaults[p_.arg] = d_.value
    # the normalised norm: N = norm(<...> / radii)
    nn = None
    for st in ast.walk(f.node):
        if isinstance(st, ast.Assign) and len(st.targets) == 1 and isinstance(st.targets[0], ast.Name) and isinstance(st.value, ast.Call) \
                and (call_name(st.value) or "").endswith("norm") and st.value.args and isinstance(st.value.args[0], ast.BinOp) and isinstance(st.value.args[0].op, ast.Div):
            nn = st.targets[0].id
    if nn is None:
        rep.unknown(rule, f.key + "|interior points have distance 0", f.where, "the normalised norm |local point / radii| is not computed under a name")
        return
    env = dict(defaults)

    def tv(t):
        """True / False / None"""
        if isinstance(t, ast.Constant) and isinstance(t.value, bool):
            return t.value
        if isinstance(t, ast.Name):
            return env.get(t.id)
        if isinstance(t, ast.UnaryOp) and isinstance(t.op, ast.Not):
            v = tv(t.operand)
            return None if v is None else (not v)
        if isinstance(t, ast.BoolOp):
            vs = [tv(v) for v in t.values]
            if isinstance(t.op, ast.And):
                return False if any(v is False for v in vs) else (True if all(v is True for v in vs) else None)
            return True if any(v is True for v in vs) else (False if all(v is False for v in vs) else None)
        c = ncmp(t)
        if c is not None:
            op, lo, hi = c                       # lo < hi / lo <= hi
            if isinstance(lo, ast.Name) and lo.id == nn and const(hi) in (1, 1.0):
                return True                      # N < 1 (inside)
            if isinstance(hi, ast.Name) and hi.id == nn and const(lo) in (1, 1.0):
                return False                     # 1 <= N
        return None
    reached = []

    def walk(stmts):
        """True when every path through stmts returns"""
        for st in stmts:
            if isinstance(st, ast.Return):
                reached.append(st)
                return True
            if isinstance(st, ast.Assign) and len(st.targets) == 1 and isinstance(st.targets[0], ast.Name):
                v = tv(st.value) if isinstance(st.value, (ast.Compare, ast.BoolOp, ast.UnaryOp, ast.Constant, ast.Name)) else None
                if v is None:
                    env.pop(st.targets[0].id, None)
                else:
                    env[st.targets[0].id] = v
            elif isinstance(st, ast.If):
                v = tv(st.test)
                if v is True:
                    if walk(st.body):
                        return True
                elif v is False:
                    if walk(st.orelse):
                        return True
                else:
                    saved = dict(env)
                    r1 = walk(st.body)
                    env.clear()
                    env.update(saved)
                    r2 = walk(st.orelse)
                    env.clear()
                    env.update(saved)
                    if r1 and r2:
                        return True
            elif isinstance(st, (ast.For, ast.While)):
                walk(st.body)
        return False
    walk(f.node.body)
    bad = [r for r in reached if not (isinstance(r.value, ast.Tuple) and len(r.value.elts) == 2 and const(r.value.elts[0]) in (0, 0.0) and u(r.value.elts[1]) == point)]
    rep.check(bool(reached) and not bad, rule, f.key + "|interior points have distance 0", "%s:%d" % (f.module.relpath, (bad[0] if bad else f.node).lineno),
              "for a point inside the ellipsoid (normalised norm < 1) and default arguments `%s` can be reached: points_in_ellipsoid says inside while point_to_ellipsoid "
              "reports a positive distance" % (u(bad[0])[:80] if bad else "no return"), "(0.0, point) only")
