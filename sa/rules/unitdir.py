"""R-UNITDIR (C08): on every return path of mpr_penetration the depth is non-negative by construction and the direction is
norm_vector(.) or np.zeros(3) (engine: sa/engines/signs.py); touching contacts return the zero vector."""
import ast

from ..core.astutil import u, call_name, calls, iter_stmts, const, ncmp, resolved
from ..core.index import AnalysisError
from ..engines.signs import Signs, NONNEG, UNIT0, ZERO

M = "distance3d.mpr"


def r_unitdir(idx, rep, rule="R-UNITDIR"):
    rep.rule(rule, "MPR penetration results: depth is built from norm / point-to-triangle distance / 0.0 (>= 0 by construction), "
                   "the direction from norm_vector(.) or np.zeros(3) (unit or zero), on every return path of every helper", floor=5)
    sg = Signs(idx)
    f = idx.func(M + "::mpr_penetration")
    s = sg.summary(f)
    rets = [st for st in iter_stmts(f.node.body) if isinstance(st, ast.Return)]
    if not isinstance(s, tuple) or len(s) != 4:
        raise AnalysisError("mpr_penetration no longer returns a 4-tuple")
    rep.check(s[1] in (NONNEG, ZERO), rule, f.key + "|depth >= 0 by construction", f.where,
              "the returned depth is not provably built from norm/sqrt/abs/0.0 or a distance result (kind %s)" % s[1], s[1])
    rep.check(s[2] in (UNIT0, ZERO), rule, f.key + "|direction unit or zero", f.where,
              "the returned direction is not provably norm_vector(.) or np.zeros(3) on every path (kind %s)" % s[2], s[2])
    for name in ("_find_penetration_touch", "_find_penetration_segment", "_find_penetration_info"):
        g = idx.func(M + "::" + name)
        sm = sg.summary(g)
        ok = isinstance(sm, tuple) and len(sm) == 3 and sm[0] in (NONNEG, ZERO) and sm[1] in (UNIT0, ZERO)
        rep.check(ok, rule, g.key + "|(depth >= 0, unit-or-zero direction, position)", g.where,
                  "%s returns kinds %s; need (NONNEG|ZERO, UNIT0|ZERO, .)" % (name, sm), str(sm))
    # the three helper results are unpacked in the order (depth, direction, position) and returned in that order
    for st in iter_stmts(f.node.body):
        if isinstance(st, ast.Assign) and isinstance(st.targets[0], ast.Tuple) and isinstance(st.value, ast.Call) and (call_name(st.value) or "").startswith("_find_penetration"):
            tg = [u(e) for e in st.targets[0].elts]
            want = [u(e) for e in rets[-1].value.elts[1:]] if rets and isinstance(rets[-1].value, ast.Tuple) and len(rets[-1].value.elts) == 4 else None
            rep.check(tg == want, rule, f.key + "|unpack %s" % call_name(st.value), "%s:%d" % (f.module.relpath, st.lineno),
                      "%s's (depth, direction, position) is unpacked into %s" % (call_name(st.value), tg))
    # (the order is judged by the KINDS that reach each slot on every return path, not by how the returned values are called)
    ok = bool(rets) and isinstance(s, tuple) and len(s) == 4 and s[1] in (NONNEG, ZERO) and s[2] in (UNIT0, ZERO)
    rep.check(ok, rule, f.key + "|return order", f.where, "mpr_penetration must return (intersection, depth, penetration_direction, contact_position)")
    # touching contact: zero direction when |depth| < EPSILON
    p = idx.func(M + "::_penetration_info")
    iff = [st for st in p.node.body if isinstance(st, ast.If) and ncmp(st.test) is not None and ncmp(st.test)[0] == "<" and "depth" in u(ncmp(st.test)[1])]
    ok = bool(iff) and any(isinstance(s_, ast.Assign) and call_name(s_.value) == "np.zeros" for s_ in iff[0].body)
    rep.check(ok, rule, p.key + "|zero vector when touching", p.where, "a (near) zero depth must yield the zero direction")
    # depth and direction come from the closest point of the portal face v[1:] to the origin
    cs = calls(p.node, "point_to_triangle")
    ok = len(cs) == 1 and call_name(cs[0].args[0]) == "np.zeros" and u(cs[0].args[1]) == "%s[1:]" % p.params()[0]
    rep.check(ok, rule, p.key + "|closest point of the portal face to the origin", p.where,
              "depth/direction must be point_to_triangle(origin, v[1:]) (the portal face v1-v2-v3)")
    # contact position: same barycentric weights for v1 and v2, midpoint
    c = idx.func(M + "::_contact_position")
    ps = c.params()
    # the returned value is the midpoint 0.5 * (w . X + w . Y) with ONE weight vector w and {X, Y} = the two pre-image arrays, whatever the two
    # weighted sums are called
    rets = [st for st in iter_stmts(c.node.body) if isinstance(st, ast.Return)]
    ok = False
    if rets:
        rv = resolved(c.node, rets[-1].value)
        half = None
        if isinstance(rv, ast.BinOp) and isinstance(rv.op, ast.Mult):
            half = rv.right if const(rv.left) == 0.5 else (rv.left if const(rv.right) == 0.5 else None)
        elif isinstance(rv, ast.BinOp) and isinstance(rv.op, ast.Div) and const(rv.right) in (2, 2.0):
            half = rv.left
        if isinstance(half, ast.BinOp) and isinstance(half.op, ast.Add):
            terms = [resolved(c.node, half.left), resolved(c.node, half.right)]
            if all(isinstance(t_, ast.Call) and isinstance(t_.func, ast.Attribute) and t_.func.attr == "dot" and len(t_.args) == 1 for t_ in terms):
                ok = u(terms[0].func.value) == u(terms[1].func.value) and {u(terms[0].args[0]), u(terms[1].args[0])} == {ps[1], ps[2]}
    rep.check(ok, rule, c.key + "|same weights on both pre-image arrays, midpoint", c.where,
              "the contact position must be 0.5 * (w . v1 + w . v2) with one weight vector w")


def r_portaldir(idx, rep, rule="R-PORTALDIR"):
    """mpr._portal_reach_tolerance compares projections onto the portal direction with a LENGTH tolerance, so the direction it is handed
    must be a unit vector: _portal_direction (and every other producer of that argument) returns norm_vector(.)"""
    rep.rule(rule, "the direction handed to _portal_reach_tolerance (a length tolerance on projections) is unit by construction: it comes from "
                   "_portal_direction / norm_vector", floor=2)
    sg = Signs(idx)
    m = idx.module(M)
    pd = idx.func(M + "::_portal_direction")
    rets = [st for st in iter_stmts(pd.node.body) if isinstance(st, ast.Return)]
    # unit by construction: every return is norm_vector(.) or a helper whose own result is (sign lattice, interprocedural)
    s = "norm_vector(.)" if rets and (sg.summary(pd) == "UNIT0" or all(isinstance(r.value, ast.Call) and (call_name(r.value) or "").split(".")[-1] == "norm_vector" for r in rets)) \
        else "not normalised"
    rep.check(s == "norm_vector(.)", rule, pd.key + "|returns a unit vector", pd.where,
              "_portal_direction returns kind %s, not norm_vector(.): the stopping test `min((v4 - v_i) . dir) < mpr_tolerance` is then scaled by the portal's area, "
              "small shapes stop refining early (too small a depth), large ones late" % (s,), str(s))
    for f in m.functions.values():
        for c in calls(f.node):
            if (call_name(c) or "").endswith("_portal_reach_tolerance") and len(c.args) >= 3:
                a = c.args[2]
                ok = False
                if isinstance(a, ast.Name):
                    defs = [st.value for st in ast.walk(f.node) if isinstance(st, ast.Assign) and len(st.targets) == 1 and u(st.targets[0]) == a.id]
                    ok = bool(defs) and all(isinstance(d, ast.Call) and ((call_name(d) or "").split(".")[-1] in ("_portal_direction", "norm_vector")
                                                                          or sg.kind(d, f, {}) == "UNIT0") for d in defs)
                rep.check(ok, rule, "%s|direction of the reach test" % f.key, "%s:%d" % (m.relpath, c.lineno),
                          "the direction `%s` handed to _portal_reach_tolerance is not produced by _portal_direction / norm_vector on every definition" % u(a), "unit")
