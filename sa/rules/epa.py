"""EPA-specific rules (C07).

R-WINDING   must-pass-through: every method of Polytope that writes vertex rows of a face passes that face through
            compute_normal and then through the winding repair before the face can be selected; the repair itself tests
            dot(vertex0, normal) < 0, swaps two vertices (a real swap) and negates the normal.
R-MTV       on success the returned vector is normal * dot(new_point, normal) of the closest face, built from the support
            point of this iteration; success is reported only on the convergence path; the loop is capped by max_iter.
"""
import ast

from ..core.astutil import u, call_name, calls, iter_stmts, index_elts, const, compare_triples, parent_map, is_neg_of, ncmp, dot_args, guard_chain, resolved
from ..core.index import AnalysisError

EPA = "distance3d.epa"


def _face_store(st):
    """self.faces[X, k] = ... / self.faces[X, :k] = ...  -> (face index text, kind 'vertex'|'normal'|'whole')"""
    if not isinstance(st, ast.Assign) or not isinstance(st.targets[0], ast.Subscript):
        return None
    t = st.targets[0]
    if u(t.value) != "self.faces":
        return None
    el = index_elts(t)
    if len(el) == 1:
        return (u(el[0]), "whole")
    k = el[1]
    if isinstance(k, ast.List) and k.elts and all(const(e) in (0, 1, 2) for e in k.elts):
        return (u(el[0]), "vertex2")
    if isinstance(k, ast.Slice):
        hi = const(k.upper) if k.upper is not None else 4
        lo = const(k.lower) if k.lower is not None else 0
        if isinstance(hi, int) and hi <= 3:
            return (u(el[0]), "vertex")
        return (u(el[0]), "whole")
    kv = const(k)
    if kv == 3:
        return (u(el[0]), "normal")
    if kv in (0, 1, 2):
        return (u(el[0]), "vertex")
    return (u(el[0]), "?")


def r_winding(idx, rep, rule="R-WINDING"):
    rep.rule(rule, "every face whose vertex rows are written passes through compute_normal and then the winding repair "
                   "before it becomes selectable; the repair flips exactly when dot(vertex0, normal) < 0, by a real swap of "
                   "two vertices and negation of the normal", floor=5)
    ci = idx.cls(EPA + "::Polytope")
    # discover the two helper methods by what they do: the normal method stores only row 3 and takes a cross product; the repair method
    # negates row 3 (X = -X) and writes vertex rows
    normal_m, repair_m = None, None
    for name, m in ci.methods.items():
        sts = [(_face_store(st), st) for st in iter_stmts(m.node.body)]
        kinds = [k[1] for k, st in sts if k]
        if kinds == ["normal"] and calls(m.node, "cross"):
            normal_m = m
        if "normal" in kinds and any(k_ in ("vertex", "vertex2") for k_ in kinds) and not calls(m.node, "cross") and m.name != "__init__" \
                and all(k and k[0] in [p_ for p_ in m.params() if p_ != "self"] for k, st in sts if k):
            repair_m = m
    if normal_m is None or repair_m is None:
        raise AnalysisError("Polytope: normal computation or winding repair method not found")
    # --- the repair itself: under which condition does it act?  (an enclosing `if c:` and a guard clause `if not c: return` are the same)
    rk = repair_m.key
    fidx = [p for p in repair_m.params() if p != "self"][0]
    pm_r = parent_map(repair_m.node)
    neg_st = [st for st in iter_stmts(repair_m.node.body) if _face_store(st) and _face_store(st)[1] == "normal"][0]
    atoms = guard_chain(pm_r, neg_st, repair_m.node)
    ok = False
    t = None
    if len(atoms) == 1 and atoms[0][1] is True:
        t = resolved(repair_m.node, atoms[0][0])
        if ncmp(t) is not None:
            op, a, b = ncmp(t)
            dots = [dot_args(n) for n in ast.walk(a) if dot_args(n) is not None]
            dot_ok = any({u(x).replace(" ", "") for x in d} == {"self.faces[%s,0]" % fidx, "self.faces[%s,3]" % fidx} for d in dots)
            ok = dot_ok and op == "<" and const(b) in (0, 0.0)
    rep.check(ok, rule, rk + "|flip iff dot(v0, n) < 0", repair_m.where,
              "the repair acts under `%s`, which is not `dot(faces[i,0], faces[i,3]) (+bias) < 0`" % (u(t) if t is not None else [("" if p_ else "not ") + u(x) for x, p_ in atoms]))
    body_r = [st for st in iter_stmts(repair_m.node.body)]
    stores = [(_face_store(st), st) for st in body_r if _face_store(st)]
    vs = [(k, st) for k, st in stores if k[1] == "vertex"]
    v2 = [(k, st) for k, st in stores if k[1] == "vertex2"]
    ns = [(k, st) for k, st in stores if k[1] == "normal"]
    # swap: two vertex rows exchange; the saved temporary must be a copy
    sw_ok = False
    why = "the repair does not exchange two vertex rows"
    if len(v2) == 1 and not vs:
        # A[i, [a, b]] = A[i, [b, a]]: the fancy-indexed right-hand side is a copy, so this is a real exchange
        st = v2[0][1]
        rows_t = [const(e) for e in index_elts(st.targets[0])[1].elts]
        val = st.value
        if isinstance(val, ast.Subscript) and u(val.value) == "self.faces" and len(index_elts(val)) == 2 and isinstance(index_elts(val)[1], ast.List) \
                and u(index_elts(val)[0]) == u(index_elts(st.targets[0])[0]):
            rows_v = [const(e) for e in index_elts(val)[1].elts]
            sw_ok = len(rows_t) == 2 and rows_v == rows_t[::-1] and rows_t[0] != rows_t[1] and set(rows_t) <= {0, 1, 2}
        if not sw_ok:
            why = "`%s` is not an exchange of two vertex rows" % u(st)[:70]
    if len(vs) == 2:
        (k1, s1), (k2, s2) = vs
        r1, r2 = u(s1.targets[0]), u(s2.targets[0])
        tmp = [st for st in body_r if isinstance(st, ast.Assign) and isinstance(st.targets[0], ast.Name) and st.lineno < s1.lineno
               and (u(st.value) == r1 or (isinstance(st.value, ast.Call) and st.value.args and u(st.value.args[0]) == r1) or
                    (isinstance(st.value, ast.Call) and isinstance(st.value.func, ast.Attribute) and u(st.value.func.value) == r1))]
        if tmp and u(s1.value) == r2 and u(s2.value) == tmp[0].targets[0].id:
            tv = tmp[0].value
            src = tv
            copied = False
            if isinstance(tv, ast.Call) and call_name(tv) in ("np.copy", "np.array") and tv.args:
                src, copied = tv.args[0], True
            elif isinstance(tv, ast.Call) and isinstance(tv.func, ast.Attribute) and tv.func.attr == "copy":
                src, copied = tv.func.value, True
            sw_ok = u(src) == r1 and copied and tmp[0].lineno < s1.lineno < s2.lineno
            if u(src) == r1 and not copied:
                why = "the temporary `%s` is a NumPy view of %s: after `%s` it holds the overwritten row, both vertices end up equal" % (tmp[0].targets[0].id, r1, u(s1))
        elif isinstance(s1.targets[0], ast.Subscript) and u(s1.value) == r2 and u(s2.value) == r1:
            why = "rows are exchanged without a temporary: the second store copies the already overwritten row"
    rep.check(sw_ok, rule, rk + "|real swap of two vertices", repair_m.where, why)
    rep.check(len(ns) == 1 and is_neg_of(ns[0][1].value, ns[0][1].targets[0]), rule, rk + "|normal negated", repair_m.where,
              "the repair must negate the stored normal")
    # --- compute_normal: cross of (v1 - v0, v2 - v0), normalised, stored in row 3
    nk = normal_m.key
    nidx = [p for p in normal_m.params() if p != "self"][0]
    st = [st for st in iter_stmts(normal_m.node.body) if _face_store(st)][0]
    v = st.value
    ok = isinstance(v, ast.Call) and (call_name(v) or "").split(".")[-1] == "norm_vector" and v.args and isinstance(v.args[0], ast.Call) \
        and (call_name(v.args[0]) or "").endswith("cross")
    if ok:
        from ..core.astutil import inline_temps_in
        a, b = (inline_temps_in(normal_m.node, x) for x in v.args[0].args)
        f = lambda k: "self.faces[%s, %d]" % (nidx, k)
        ok = u(a) == "%s - %s" % (f(1), f(0)) and u(b) == "%s - %s" % (f(2), f(0))
    rep.check(ok, rule, nk + "|n = unit((v1 - v0) x (v2 - v0))", normal_m.where,
              "compute_normal is `%s`; need norm_vector(cross(v1 - v0, v2 - v0)) (counter-clockwise normal)" % u(v))
    # --- must-pass-through for every writer of vertex rows
    for name, m in sorted(ci.methods.items()):
        if m is normal_m or m is repair_m:
            continue
        writes = [(_face_store(st), st) for st in iter_stmts(m.node.body) if _face_store(st)]
        vwrites = [(k, st) for k, st in writes if k[1] == "vertex"]
        if not vwrites:
            continue
        faces = {}
        for k, st in vwrites:
            faces.setdefault(k[0], []).append(st)
        body = list(iter_stmts(m.node.body))
        for fi, sts in sorted(faces.items()):
            last = max(s.lineno for s in sts)
            key = "%s|face %s" % (m.key, fi)
            where = "%s:%d" % (ci.module.relpath, sts[0].lineno)
            # direct calls with the same index, or a loop over a range that covers a literal index
            def find_call(meth, after):
                for c in calls(m.node, meth.name):
                    if c.lineno <= after:
                        continue
                    a0 = u(c.args[0]) if c.args else ""
                    if a0 == fi:
                        return c
                    lit = const(ast.parse(fi, mode="eval").body)
                    if isinstance(lit, int):
                        pm = parent_map(m.node)
                        p = pm.get(c)
                        while p is not None and not isinstance(p, ast.For):
                            p = pm.get(p)
                        if isinstance(p, ast.For) and u(p.target) == a0 and isinstance(p.iter, ast.Call) and call_name(p.iter) == "range":
                            n = p.iter.args[0]
                            nv = const(n)
                            if nv is None and isinstance(n, ast.Name):
                                for s in body:
                                    if isinstance(s, ast.Assign) and u(s.targets[0]) == n.id and s.lineno < p.lineno:
                                        nv = const(s.value)
                            if isinstance(nv, int) and lit < nv:
                                return c
                return None
            c1 = find_call(normal_m, last - 1)
            c2 = find_call(repair_m, (c1.lineno - 1) if c1 else last)
            if c1 is None:
                rep.bad(rule, key + " normal", where, "%s writes the vertices of face %s but never recomputes its normal" % (name, fi))
                continue
            rep.ok(rule, key + " normal", where, "compute_normal after the last vertex store")
            good = c2 is not None and (c2.lineno > c1.lineno or (c2.lineno == c1.lineno and c2.col_offset > c1.col_offset))
            rep.check(good, rule, key + " repair", where,
                      "%s makes face %s selectable without passing it through %s after %s: an inward-pointing face has a negative "
                      "plane distance, is chosen as 'closest' forever and EPA returns a wrong vector or overflows its capacity"
                      % (name, fi, repair_m.name, normal_m.name), "repair after normal")
            # the counter is advanced only after the repair
            incs = [s for s in body if isinstance(s, ast.AugAssign) and u(s.target) == "self.n_faces" and isinstance(s.op, ast.Add)]
            if fi == "self.n_faces" and c2 is not None:
                rep.check(bool(incs) and all(i.lineno > c2.lineno for i in incs), rule, key + " counted after repair", where,
                          "n_faces is advanced before the new face has been repaired")


def r_mtv(idx, rep, rule="R-MTV"):
    rep.rule(rule, "EPA's success path returns closest_normal * dot(new support point, closest_normal); success=True only on "
                   "the convergence test of this iteration; the main loop is `for ... in range(max_iter)`", floor=4)
    f = idx.func(EPA + "::epa")
    fors = [st for st in f.node.body if isinstance(st, ast.For)]
    ok = len(fors) == 1 and isinstance(fors[0].iter, ast.Call) and call_name(fors[0].iter) == "range" and u(fors[0].iter.args[0]) in f.params()
    rep.check(ok, rule, f.key + "|capped loop", f.where, "the EPA main loop is no longer `for _ in range(max_iter)`")
    if not ok:
        return
    loop = fors[0]
    loc = {}
    for st in iter_stmts(loop.body):
        if isinstance(st, ast.Assign) and isinstance(st.targets[0], ast.Name):
            loc[st.targets[0].id] = st.value
        if isinstance(st, ast.Assign) and isinstance(st.targets[0], ast.Tuple):
            for i, t in enumerate(st.targets[0].elts):
                if isinstance(t, ast.Name):
                    loc[t.id] = ("tuple", i, st.value)
    rets = [s for s in iter_stmts(loop.body) if isinstance(s, ast.Return)]
    succ = [r for r in rets if isinstance(r.value, ast.Tuple) and const(r.value.elts[-1]) is True]
    rep.check(len(succ) == 1, rule, f.key + "|one success return", f.where, "expected exactly one `success=True` return inside the loop")
    all_true = [s for s in iter_stmts(f.node.body) if isinstance(s, ast.Return) and isinstance(s.value, ast.Tuple) and const(s.value.elts[-1]) is True]
    rep.check(len(all_true) == len(succ), rule, f.key + "|no success outside convergence", f.where,
              "success=True is returned outside the convergence test (the fall-through after max_iter must report False)")
    if len(succ) != 1:
        return
    r = succ[0]
    pm = parent_map(f.node)
    guard = pm.get(r)
    gtxt = u(guard.test) if isinstance(guard, ast.If) else ""
    # normal of the closest face / support point of this iteration
    face = [n for n, v in loc.items() if isinstance(v, tuple) and v[1] == 1 and "find_face_closest_to_origin" in u(v[2])]
    mind = [n for n, v in loc.items() if isinstance(v, tuple) and v[1] == 0 and "find_face_closest_to_origin" in u(v[2])]
    if not face or not mind:
        raise AnalysisError("epa: closest face / min distance unpacking not found")
    normal_txts = {"%s[3]" % face[0]} | {n for n, v in loc.items() if not isinstance(v, tuple) and u(v) == "%s[3]" % face[0]}
    newp = [n for n, v in loc.items() if not isinstance(v, tuple) and isinstance(v, ast.BinOp) and isinstance(v.op, ast.Sub)
            and all(isinstance(x, ast.Name) and x.id in loc and not isinstance(loc[x.id], tuple) and "support_function" in u(loc[x.id]) for x in (v.left, v.right))]
    if not newp:
        raise AnalysisError("epa: new Minkowski point not found")
    def res(e, depth=0):
        while isinstance(e, ast.Name) and e.id in loc and not isinstance(loc[e.id], tuple) and depth < 4 and u(e) not in normal_txts:
            e, depth = loc[e.id], depth + 1
        return e
    mtv = r.value.elts[0]
    mv = res(mtv)
    ok = False
    if isinstance(mv, ast.BinOp) and isinstance(mv.op, ast.Mult):
        for n_, d_ in ((mv.left, mv.right), (mv.right, mv.left)):
            d_ = res(d_)
            if u(n_) in normal_txts and dot_args(d_) is not None:
                a = {u(x) for x in dot_args(d_)}
                ok = newp[0] in a and bool(a & normal_txts)
    rep.check(ok, rule, f.key + "|mtv = n * dot(new_point, n)", "%s:%d" % (f.module.relpath, r.lineno),
              "success path returns `%s`; need closest normal * dot(new support point, closest normal)" % u(mv))
    # convergence test: dot(new_point, n) - min_dist < epsilon
    t = guard.test if isinstance(guard, ast.If) else None
    ok = False
    if ncmp(t) is not None:
        op, a, b = ncmp(t)
        al = res(a.left) if isinstance(a, ast.BinOp) else None
        if op == "<" and isinstance(a, ast.BinOp) and isinstance(a.op, ast.Sub) and u(a.right) == mind[0] and dot_args(al) is not None \
                and {u(x) for x in dot_args(al)} & normal_txts and newp[0] in {u(x) for x in dot_args(al)} and u(b) in f.params():
            ok = True
    rep.check(ok, rule, f.key + "|convergence test", "%s:%d" % (f.module.relpath, guard.lineno if guard else 0),
              "convergence test `%s` is not `dot(new_point, n) - min_dist < epsilon`" % gtxt)
    # search direction is the closest face's normal
    sup = [c for c in calls(loop, "support_function")]
    ok = bool(sup) and all(u(c.args[0]).lstrip("-") in normal_txts for c in sup)
    rep.check(ok, rule, f.key + "|support along the closest normal", f.where, "support queries do not use the closest face's normal")
    # closest face selection: argmin of dot(v0, n) over the first n_faces faces
    ci = idx.cls(EPA + "::Polytope")
    ff = ci.methods.get("find_face_closest_to_origin")
    if ff is None:
        raise AnalysisError("Polytope.find_face_closest_to_origin vanished")
    # decided on the argument of np.argmin with temporaries read through: sum over axis 1 of (column 0 of the LIVE faces) * (column 3 of the live faces),
    # the live faces being self.faces[:self.n_faces] however they are named (a slice, a view bound to a local, the accessor that returns that slice)
    from ..core.astutil import inline_temps_in

    def live_col(e):
        """k when e is column k of self.faces[:self.n_faces]"""
        if not isinstance(e, ast.Subscript):
            return None
        idxs = list(e.slice.elts) if isinstance(e.slice, ast.Tuple) else [e.slice]
        base = e.value
        # accessor method that returns the live slice
        if isinstance(base, ast.Call) and isinstance(base.func, ast.Attribute) and u(base.func.value) == "self" and base.func.attr in ci.methods and not base.args:
            rets_ = [r_ for r_ in iter_stmts(ci.methods[base.func.attr].node.body) if isinstance(r_, ast.Return) and r_.value is not None]
            base = rets_[0].value if len(rets_) == 1 else base
        t = u(base).replace(" ", "")
        if t == "self.faces" and len(idxs) == 2 and u(idxs[0]).replace(" ", "") == ":self.n_faces" and isinstance(const(idxs[1]), int):
            return const(idxs[1])
        if t == "self.faces[:self.n_faces]" and len(idxs) == 2 and u(idxs[0]) == ":" and isinstance(const(idxs[1]), int):
            return const(idxs[1])
        return None
    ok = False
    for c_ in calls(ff.node):
        if call_name(c_) == "np.argmin" and c_.args:
            v_ = inline_temps_in(ff.node, c_.args[0])
            if isinstance(v_, ast.Call) and call_name(v_) == "np.sum" and v_.args and any(k_.arg == "axis" and const(k_.value) == 1 for k_ in v_.keywords) \
                    and isinstance(v_.args[0], ast.BinOp) and isinstance(v_.args[0].op, ast.Mult):
                ok = {live_col(v_.args[0].left), live_col(v_.args[0].right)} == {0, 3}
    rep.check(ok, rule, ff.key + "|argmin over live faces of dot(v0, n)", ff.where,
              "closest face must be argmin over faces[:n_faces] of sum(v0 * normal, axis=1)")


def r_loudcap(idx, rep, rule="R-LOUDCAP"):
    """EPA's buffers have a fixed capacity.  Running out of room must be LOUD (the documented capacity assertion): a bare
    `if n >= max: break` silently leaves a hole in the polytope, the closest face is never generated and EPA still reports success with
    a vector that is too long."""
    rep.rule(rule, "every capacity exit of the EPA buffers (`if n >= max: break/continue/return`) is accompanied by an assertion / raise of "
                   "`n < max` in the same function: exhaustion is reported, never silently truncated", floor=1)
    m = idx.module("distance3d.epa")
    n_inst = 0
    for f in m.functions.values():
        asserts = set()
        for st in ast.walk(f.node):
            if isinstance(st, ast.Assert):
                t = ncmp(st.test)
                if t is not None and t[0] == "<":
                    asserts.add((u(t[1]), u(t[2])))
        for st in ast.walk(f.node):
            if isinstance(st, ast.If) and st.body and isinstance(st.body[-1], (ast.Break, ast.Continue)):   # `return False` hands the condition to the caller
                t = ncmp(st.test)
                if t is None or t[0] != "<=":
                    continue
                cap, cnt = u(t[1]), u(t[2])          # cap <= n   i.e.  n >= cap
                if "max" not in cap:
                    continue
                n_inst += 1
                key = "%s|capacity exit on %s is loud" % (f.key, cnt)
                rep.check((cnt, cap) in asserts, rule, key, "%s:%d" % (m.relpath, st.lineno),
                          "`if %s:` leaves the loop when the buffer is full, but no `assert %s < %s` reports it: the remaining horizon edges are skipped silently, "
                          "the polytope keeps a hole and EPA converges on a farther face while still returning success" % (u(st.test), cnt, cap), "asserted")
    if n_inst == 0:
        rep.error("R-LOUDCAP: no capacity exit found in distance3d.epa")


# ---------------------------------------------------------------------------------------------------------------------------------
# R-SWAPREMOVE: index discipline around swap-remove containers (Polytope.faces / LooseEdges.loose_edges)

def _swap_remove_methods(idx, modname):
    """{(class name, method name): (array attr, count attr, index parameter position)} for methods of the form
    self.A[p] = self.A[self.N - 1]; self.N -= 1"""
    out = {}
    for ci in idx.module(modname).classes.values():
        for mname, mi in ci.methods.items():
            params = mi.params()
            arr = cnt = pos = None
            for st in iter_stmts(mi.node.body):
                if isinstance(st, ast.Assign) and isinstance(st.targets[0], ast.Subscript) and isinstance(st.value, ast.Subscript) \
                        and u(st.targets[0].value) == u(st.value.value) and u(st.targets[0].value).startswith("self.") \
                        and isinstance(st.targets[0].slice, ast.Name) and st.targets[0].slice.id in params:
                    sl = st.value.slice
                    if isinstance(sl, ast.BinOp) and isinstance(sl.op, ast.Sub) and const(sl.right) == 1 and u(sl.left).startswith("self."):
                        arr, pos, last = u(st.targets[0].value), params.index(st.targets[0].slice.id), u(sl.left)
                        for st2 in iter_stmts(mi.node.body):
                            if isinstance(st2, ast.AugAssign) and isinstance(st2.op, ast.Sub) and u(st2.target) == last and const(st2.value) == 1:
                                cnt = last
            if arr and cnt:
                out[(ci.name, mname)] = (arr[5:], cnt[5:], pos - 1)      # position among call arguments (self excluded)
    return out


def r_swapremove(idx, rep, rule="R-SWAPREMOVE", modname=EPA, floor=2):
    rep.rule(rule, "a swap-remove (A[i] = A[n-1]; n -= 1) moves the last element to position i: (a) an index handed to it inside a loop that mutates "
                   "the container is computed in that iteration (not looked up before the loop — an earlier removal has moved the elements), and "
                   "(b) a scan that removes at its own position re-examines that position (i -= 1 before the increment) or stops", floor=floor)
    sr = _swap_remove_methods(idx, modname)
    if not sr:
        raise AnalysisError("%s: no swap-remove method (A[i] = A[n-1]; n -= 1) found" % modname)
    names = {m for (_, m) in sr}
    # methods that (transitively) change the container: swap-removes, appends (self.A[self.N] = ..; self.N += 1), and their callers
    mutating = set(names)
    mod = idx.module(modname)
    allf = [f for f in mod.functions.values()]
    for f in allf:
        for st in ast.walk(f.node):
            if isinstance(st, ast.AugAssign) and u(st.target).startswith("self.") and u(st.target)[5:] in {c for (_, c, _) in sr.values()}:
                mutating.add(f.name.split(".")[-1])
    changed = True
    while changed:
        changed = False
        for f in allf:
            short = f.name.split(".")[-1]
            if short not in mutating and any(isinstance(c, ast.Call) and isinstance(c.func, ast.Attribute) and c.func.attr in mutating for c in ast.walk(f.node)):
                mutating.add(short)
                changed = True
    n = 0
    for f in allf:
        pm = None
        for c in ast.walk(f.node):
            if not (isinstance(c, ast.Call) and isinstance(c.func, ast.Attribute) and c.func.attr in names):
                continue
            spec = [v for (cl, m), v in sr.items() if m == c.func.attr][0]
            if spec[2] >= len(c.args):
                continue
            n += 1
            pm = pm or parent_map(f.node)
            arg = c.args[spec[2]]
            key = "%s|%s(%s)" % (f.key, c.func.attr, u(arg))
            where = "%s:%d" % (mod.relpath, c.lineno)
            if not isinstance(arg, ast.Name):
                rep.unknown(rule, key, where, "index expression `%s` not tracked" % u(arg))
                continue
            k = arg.id
            # enclosing loops, innermost first, and the statement that contains the call
            stmt = c
            while not isinstance(stmt, ast.stmt):
                stmt = pm[stmt]
            loops = []
            cur = stmt
            while cur in pm:
                cur = pm[cur]
                if isinstance(cur, (ast.For, ast.While)):
                    loops.append(cur)
            verdict = None
            for L in loops:
                mutates = any(isinstance(x, ast.Call) and isinstance(x.func, ast.Attribute) and x.func.attr in mutating for b in L.body for x in ast.walk(b))
                if not mutates:
                    continue
                assigned = any((isinstance(x, ast.Assign) and any(isinstance(t, ast.Name) and t.id == k for t in x.targets)) or
                               (isinstance(x, ast.AugAssign) and isinstance(x.target, ast.Name) and x.target.id == k) or
                               (isinstance(x, ast.For) and k in {t.id for t in ast.walk(x.target) if isinstance(t, ast.Name)} and isinstance(x.iter, ast.Call) and call_name(x.iter) == "range")
                               for b in L.body for x in ast.walk(b))
                own_counter = isinstance(L, ast.For) and k in {t.id for t in ast.walk(L.target) if isinstance(t, ast.Name)} and isinstance(L.iter, ast.Call) and call_name(L.iter) == "range"
                if not assigned and not own_counter:
                    src = "the loop target of `for ... in %s`" % u(L.iter)[:50] if isinstance(L, ast.For) and k in {t.id for t in ast.walk(L.target) if isinstance(t, ast.Name)} else "a value computed before the loop"
                    verdict = ("the index `%s` handed to %s is %s, but the loop body changes the container (%s): after the first removal the last element "
                               "has been moved into the freed slot and the element count has dropped, so an index looked up earlier names a different element "
                               "(or one past the end); look it up in the iteration that uses it" % (k, c.func.attr, src, ", ".join(sorted(mutating & {x.func.attr for b in L.body for x in ast.walk(b) if isinstance(x, ast.Call) and isinstance(x.func, ast.Attribute)}))))
                    break
            if verdict:
                rep.bad(rule, key, where, verdict)
                continue
            # (b) a scan that removes at its own position: net change of the scan variable from the removal to the end of the iteration is 0, or exit
            scan = None
            for L in loops:
                if isinstance(L, ast.While) and k in {x.id for x in ast.walk(L.test) if isinstance(x, ast.Name)}:
                    scan = L
                    break
                if isinstance(L, ast.For) and k in {t.id for t in ast.walk(L.target) if isinstance(t, ast.Name)}:
                    scan = L
                    break
            if scan is None:
                rep.ok(rule, key, where, "index computed in the iteration that uses it")
                continue
            net, exits, unknown = 0, False, False
            cur = stmt
            while cur is not scan:
                par = pm[cur]
                for fld in ("body", "orelse"):
                    blk = getattr(par, fld, None)
                    if isinstance(blk, list) and cur in blk:
                        for later in blk[blk.index(cur) + 1:]:
                            if exits:
                                break
                            if isinstance(later, (ast.Break, ast.Return, ast.Raise)):
                                exits = True
                            elif isinstance(later, ast.AugAssign) and isinstance(later.target, ast.Name) and later.target.id == k and isinstance(const(later.value), int):
                                net += const(later.value) * (1 if isinstance(later.op, ast.Add) else -1 if isinstance(later.op, ast.Sub) else 0)
                            elif any(isinstance(x, ast.Name) and x.id == k and isinstance(x.ctx, ast.Store) for x in ast.walk(later)):
                                unknown = True
                cur = par
            if exits:
                rep.ok(rule, key, where, "the scan stops after the removal")
            elif unknown:
                rep.unknown(rule, key, where, "scan variable `%s` is reassigned conditionally after the removal" % k)
            elif isinstance(scan, ast.For):
                rep.bad(rule, key, where, "`for %s in %s` removes at its own position and moves on: the element swapped into slot %s is never examined (and the range bound is stale)" % (k, u(scan.iter)[:40], k))
            else:
                rep.check(net == 0, rule, key, where,
                          "after %s(%s) the scan variable advances by %+d before the next test: the element that the swap-remove moved into slot %s is skipped "
                          "(a face that faces the new point stays in the polytope / a shared edge stays loose)" % (c.func.attr, k, net, k),
                          "position re-examined (net advance 0)")
    if n == 0:
        raise AnalysisError("%s: swap-remove methods are never called" % modname)
