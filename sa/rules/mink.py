"""Minkowski-difference pairing rules.

R-MINK  every site that forms a support point of the Minkowski difference A - B queries the two colliders with mutually
        negated directions and subtracts (first collider) - (second collider); seed pairs likewise.
R-PAR   parallel arrays (Y/P/Q in the Jolt GJK, v/v1/v2 in MPR / libccd) are written together, same row, corresponding
        sources.
R-BARY  calculate_closest_points applies the barycentric weights computed for (Y[0..k]) to P[0..k] and Q[0..k] in order.
"""
import ast

from ..core.astutil import strip_docstring, resolved, u, call_name, calls, iter_stmts, is_neg_of, walk_ordered, parent_map, index_elts, const
from ..core.index import AnalysisError, FuncInfo

SCOPE = ["distance3d.gjk._gjk_jolt", "distance3d.gjk._gjk_libccd", "distance3d.gjk._gjk_original",
         "distance3d.gjk._gjk_nesterov_accelerated", "distance3d.gjk._gjk_nesterov_accelerated_primitives",
         "distance3d.mpr", "distance3d.minkowski", "distance3d.epa"]


def _result_name(pm, call):
    """Name that holds the support POINT returned by a `x.support_function(d)` call (last element when unpacked)."""
    par = pm.get(call)
    if isinstance(par, ast.Assign) and par.value is call:
        t = par.targets[0]
        if isinstance(t, ast.Name):
            return t.id
        if isinstance(t, ast.Tuple) and t.elts and isinstance(t.elts[-1], ast.Name):
            return t.elts[-1].id
    return None


def _callee_difference(idx, module, call, pos_a, pos_b, cls=None):
    """Does the resolved callee subtract its parameter pos_a - pos_b ('ab'), pos_b - pos_a ('ba'), or neither (None)?"""
    callee = idx.resolve_call(module, call, cls)
    if not isinstance(callee, FuncInfo):
        return None
    ps = callee.params()
    if max(pos_a, pos_b) >= len(ps):
        return None
    a, b = ps[pos_a], ps[pos_b]
    for n in ast.walk(callee.node):
        if isinstance(n, ast.BinOp) and isinstance(n.op, ast.Sub):
            if u(n.left) == a and u(n.right) == b:
                return "ab"
            if u(n.left) == b and u(n.right) == a:
                return "ba"
    return None


def r_mink(idx, rep, rule="R-MINK", modules=None, floor=9):
    rep.rule(rule, "support points of the Minkowski difference: the two colliders are queried with mutually negated "
                   "directions and the difference is (first collider) - (second collider)", floor=floor)
    mods = modules or SCOPE
    for mname in mods:
        m = idx.module(mname)
        for f in m.functions.values():
            if "<locals>" in f.qualname:
                continue
            params = f.params()
            pm = parent_map(f.node)
            sup = []
            for c in calls(f.node):
                if isinstance(c.func, ast.Attribute) and c.func.attr == "support_function" and isinstance(c.func.value, ast.Name) \
                        and c.func.value.id in params and len(c.args) == 1:
                    sup.append(c)
            # pair consecutive calls on different receivers
            i = 0
            while i + 1 < len(sup):
                a, b = sup[i], sup[i + 1]
                ra, rb = a.func.value.id, b.func.value.id
                if ra == rb:
                    i += 1
                    continue
                i += 2
                # order: a must be on the earlier parameter (first collider)
                first_is_a = params.index(ra) < params.index(rb)
                ca, cb = (a, b) if first_is_a else (b, a)
                where = "%s:%d" % (m.relpath, a.lineno)
                site = "%s|%s.support_function(%s) / %s.support_function(%s)" % (f.key, ca.func.value.id, u(ca.args[0]), cb.func.value.id, u(cb.args[0]))
                rep.check(is_neg_of(ca.args[0], cb.args[0]), rule, site + " negated", where,
                          "the two support queries use `%s` and `%s`, which are not mutual negations: the result is not a support "
                          "point of A - B" % (u(ca.args[0]), u(cb.args[0])), "directions are mutual negations")
                # the difference
                na, nb = _result_name(pm, ca), _result_name(pm, cb)
                verdict = None
                how = ""
                # the difference written in place: first.support_function(d) - second.support_function(-d)
                for n in ast.walk(f.node):
                    if isinstance(n, ast.BinOp) and isinstance(n.op, ast.Sub):
                        if n.left is ca and n.right is cb:
                            verdict, how = True, "difference of the two calls"
                        elif n.left is cb and n.right is ca:
                            verdict, how = False, "second call - first call"
                if na and nb:
                    for n in ast.walk(f.node):
                        if isinstance(n, ast.BinOp) and isinstance(n.op, ast.Sub):
                            if u(n.left) == na and u(n.right) == nb:
                                verdict, how = True, "%s - %s" % (na, nb)
                            elif u(n.left) == nb and u(n.right) == na:
                                verdict, how = False, "%s - %s" % (nb, na)
                    if verdict is None:
                        # handed to a callee that subtracts
                        for c in calls(f.node):
                            args = [u(x) for x in c.args]
                            if na in args and nb in args:
                                d = _callee_difference(idx, m, c, args.index(na), args.index(nb), f.cls)
                                if d is not None:
                                    verdict, how = (d == "ab"), "%s(...) computes %s" % (call_name(c), "first - second" if d == "ab" else "second - first")
                                    break
                if verdict is None:
                    # returned as a pair (s0, s1): check the callers
                    rets = [s for s in iter_stmts(f.node.body) if isinstance(s, ast.Return) and isinstance(s.value, ast.Tuple) and len(s.value.elts) == 2]
                    pair_ret = None
                    for r in rets:
                        e0, e1 = r.value.elts
                        if (e0 is ca or u(e0) == na) and (e1 is cb or u(e1) == nb):
                            pair_ret = "ab"
                        elif (e0 is cb or u(e0) == nb) and (e1 is ca or u(e1) == na):
                            pair_ret = "ba"
                    if pair_ret:
                        found = []
                        for g in m.functions.values():
                            pg = parent_map(g.node)
                            for c in calls(g.node, f.name):
                                par = pg.get(c)
                                if isinstance(par, ast.Assign) and isinstance(par.targets[0], ast.Tuple) and len(par.targets[0].elts) == 2:
                                    x, y = [u(e) for e in par.targets[0].elts]
                                    for n in ast.walk(g.node):
                                        if isinstance(n, ast.BinOp) and isinstance(n.op, ast.Sub):
                                            if u(n.left) == x and u(n.right) == y:
                                                found.append((g, True, "%s - %s in %s" % (x, y, g.qualname)))
                                            elif u(n.left) == y and u(n.right) == x:
                                                found.append((g, False, "%s - %s in %s" % (y, x, g.qualname)))
                        if found:
                            good = all((ok if pair_ret == "ab" else not ok) for _, ok, _ in found)
                            verdict, how = good, "; ".join(t for _, _, t in found)
                if verdict is None:
                    rep.unknown(rule, site + " difference", where, "could not locate the subtraction of the two support points")
                    rep.error("R-MINK: difference not located for %s" % site)
                else:
                    rep.check(verdict, rule, site + " difference", where,
                              "the support points are subtracted as %s: that is a point of B - A, not of A - B" % how, how)
            # seed pairs: make_support_point(c1.x(), c2.x()) / x1 - x2 with x from first_vertex()/center()
            for c in calls(f.node, "make_support_point"):
                if len(c.args) == 2 and all(isinstance(a, ast.Call) and isinstance(a.func, ast.Attribute) and isinstance(a.func.value, ast.Name) for a in c.args):
                    r0, r1 = c.args[0].func.value.id, c.args[1].func.value.id
                    m0, m1 = c.args[0].func.attr, c.args[1].func.attr
                    if r0 in params and r1 in params and r0 != r1:
                        key = "%s|seed %s" % (f.key, u(c))
                        rep.check(params.index(r0) < params.index(r1) and m0 == m1, rule, key, "%s:%d" % (m.relpath, c.lineno),
                                  "seed point pairs %s.%s() with %s.%s(): must be the same feature of (first, second) collider in that order" % (r0, m0, r1, m1),
                                  "first - second")
            seeds = {}
            for st in iter_stmts(f.node.body):
                if isinstance(st, ast.Assign) and isinstance(st.value, ast.Call) and isinstance(st.value.func, ast.Attribute) \
                        and st.value.func.attr in ("first_vertex", "center") and isinstance(st.value.func.value, ast.Name) and st.value.func.value.id in params:
                    t = st.targets[0]
                    nm = t.id if isinstance(t, ast.Name) else (t.elts[-1].id if isinstance(t, ast.Tuple) and isinstance(t.elts[-1], ast.Name) else None)
                    if nm:
                        seeds[nm] = st.value.func.value.id
            if len(set(seeds.values())) == 2:
                for n in ast.walk(f.node):
                    if isinstance(n, ast.BinOp) and isinstance(n.op, ast.Sub) and u(n.left) in seeds and u(n.right) in seeds and seeds[u(n.left)] != seeds[u(n.right)]:
                        key = "%s|seed %s" % (f.key, u(n))
                        rep.check(params.index(seeds[u(n.left)]) < params.index(seeds[u(n.right)]), rule, key, "%s:%d" % (m.relpath, n.lineno),
                                  "seed point is (second collider) - (first collider)", "first - second")
    # forwarding of the collider pair keeps its order
    for mname in mods:
        m = idx.module(mname)
        for f in m.functions.values():
            params = f.params()
            cps = [p for p in params if "collider" in p]
            if len(cps) < 2:
                continue
            for c in calls(f.node):
                callee = idx.resolve_call(m, c, f.cls)
                if not isinstance(callee, FuncInfo) or callee is f:
                    continue
                gps = callee.params()
                pos = [(i, u(a)) for i, a in enumerate(c.args) if isinstance(a, ast.Name) and a.id in cps]
                if len(pos) != 2 or any(i >= len(gps) or "collider" not in gps[i] for i, _ in pos):
                    continue
                key = "%s|forwards (%s, %s) to %s" % (f.key, pos[0][1], pos[1][1], callee.name)
                rep.check(params.index(pos[0][1]) < params.index(pos[1][1]), rule, key, "%s:%d" % (m.relpath, c.lineno),
                          "the collider pair is forwarded to %s in swapped order: the callee computes B - A" % callee.name, "order kept")
    # make_support_point itself
    msp = idx.func("distance3d.minkowski::make_support_point")
    ps = msp.params()
    rets = [s for s in iter_stmts(msp.node.body) if isinstance(s, ast.Return)]
    ok = len(rets) == 1 and isinstance(rets[0].value, ast.Tuple) and [u(e) for e in rets[0].value.elts] == ["%s - %s" % (ps[0], ps[1]), ps[0], ps[1]]
    rep.check(ok, rule, msp.key + "|returns (v1 - v2, v1, v2)", msp.where,
              "make_support_point must return (first - second, first, second)")
    sf = idx.func("distance3d.minkowski::support_function")
    cs = calls(sf.node, "make_support_point")
    pmap = parent_map(sf.node)
    names = {}
    for c in calls(sf.node):
        if isinstance(c.func, ast.Attribute) and c.func.attr == "support_function":
            nm = _result_name(pmap, c)
            if nm:
                names[nm] = c.func.value.id
    ok = len(cs) == 1 and len(cs[0].args) == 2 and [names.get(u(a)) for a in cs[0].args] == sf.params()[:2]
    if not cs:
        # the helper inlined: what is returned must be (s1 - s2, s1, s2) with s_k the support point of collider k — on the returned value with
        # one-expression helpers and temporaries read through
        from ..core.inline import expand_helpers as _exp
        from ..core.astutil import inline_temps_in as _inl
        rets_ = [s_ for s_ in iter_stmts(sf.node.body) if isinstance(s_, ast.Return) and s_.value is not None]
        if len(rets_) == 1:
            v_ = _inl(sf.node, _exp(idx, sf.module, rets_[0].value))
            if isinstance(v_, ast.Tuple) and len(v_.elts) == 3 and isinstance(v_.elts[0], ast.BinOp) and isinstance(v_.elts[0].op, ast.Sub):
                def recv(e):
                    return e.func.value.id if isinstance(e, ast.Call) and isinstance(e.func, ast.Attribute) and e.func.attr == "support_function" and isinstance(e.func.value, ast.Name) else None
                p1, p2 = sf.params()[:2]
                ok = recv(v_.elts[0].left) == p1 and recv(v_.elts[0].right) == p2 and recv(v_.elts[1]) == p1 and recv(v_.elts[2]) == p2
    rep.check(ok, rule, sf.key + "|make_support_point(first, second)", sf.where,
              "minkowski.support_function must pass (support of collider1, support of collider2) in that order")


def r_par(idx, rep, rule="R-PAR", floor=10):
    rep.rule(rule, "parallel arrays are stored row-wise together from corresponding sources: (Y,P,Q)[n] = (p-q, p, q); "
                   "(v,v1,v2)[k] = one support triple; Simplex.add_point likewise", floor=floor)
    # --- Jolt: _distance_loop
    J = "distance3d.gjk._gjk_jolt"
    f = idx.func(J + "::_distance_loop")
    ps = f.params()
    p, q = ps[0], ps[1]
    stores = {}
    for st in iter_stmts(f.node.body):
        if isinstance(st, ast.Assign) and isinstance(st.targets[0], ast.Subscript) and isinstance(st.targets[0].value, ast.Name):
            stores.setdefault(u(st.targets[0].slice), {})[st.targets[0].value.id] = st.value
    loc = {st.targets[0].id: st.value for st in iter_stmts(f.node.body) if isinstance(st, ast.Assign) and isinstance(st.targets[0], ast.Name)}
    grp = [g for g in stores.values() if {"Y", "P", "Q"} <= set(g)]
    ok = False
    why = "no statement group stores Y, P and Q at the same row"
    if grp:
        g = grp[0]
        yv = loc.get(u(g["Y"]), g["Y"])
        ok = u(yv) == "%s - %s" % (p, q) and u(g["P"]) == p and u(g["Q"]) == q
        why = "Y[n], P[n], Q[n] are stored from `%s`, `%s`, `%s`; need (p - q, p, q)" % (u(yv), u(g["P"]), u(g["Q"]))
    rep.check(ok, rule, f.key + "|Y/P/Q[n] = (p - q, p, q)", f.where, why)
    il = idx.func(J + "::_intersection_loop")
    ips = il.params()
    sl = {st.targets[0].id: st.value for st in iter_stmts(il.node.body) if isinstance(st, ast.Assign) and isinstance(st.targets[0], ast.Name)}
    ys = [st for st in iter_stmts(il.node.body) if isinstance(st, ast.Assign) and isinstance(st.targets[0], ast.Subscript) and u(st.targets[0].value) == "Y"]
    ok = bool(ys) and u(sl.get(u(ys[0].value), ys[0].value)) == "%s - %s" % (ips[0], ips[1])
    rep.check(ok, rule, il.key + "|Y[n] = p - q", il.where, "the stored Minkowski point is not p - q")
    # update_simplex_ypq: same source row for all three
    us = idx.func(J + "::update_simplex_ypq")
    rows = {}
    for st in iter_stmts(us.node.body):
        if isinstance(st, ast.Assign) and isinstance(st.targets[0], ast.Subscript) and isinstance(st.value, ast.Subscript):
            rows[u(st.targets[0].value)] = (u(st.targets[0].slice), u(st.value.value), u(st.value.slice))
    ok = set(rows) == {"Y", "P", "Q"} and all(rows[a][1] == a for a in rows) and len({(r[0], r[2]) for r in rows.values()}) == 1
    rep.check(ok, rule, us.key + "|Y,P,Q[j] = Y,P,Q[i]", us.where,
              "update_simplex_ypq must move row i of Y, P and Q to the same row j: %s" % rows)
    # bit test keeps exactly the rows whose bit is set
    for fn in ("update_simplex_y", "update_simplex_ypq"):
        g = idx.func(J + "::" + fn)
        ifs = [st for st in iter_stmts(g.node.body) if isinstance(st, ast.If)]
        fors = [st for st in iter_stmts(g.node.body) if isinstance(st, ast.For)]
        ok = False
        if ifs and fors:
            # the test is EVALUATED for every mask and row: however the bit is extracted (mask & 1 << i, mask >> i & 1, != 0, == 1, > 0, truthiness)
            from ..core.astutil import eval_pure
            i = u(fors[0].target)
            simplex = g.params()[-1]
            test = resolved(g.node, ifs[0].test) if isinstance(ifs[0].test, ast.Name) else ifs[0].test
            ok = all(bool(eval_pure(test, {simplex: mask, i: row})) == bool(mask >> row & 1) and eval_pure(test, {simplex: mask, i: row}) is not None
                     for mask in range(16) for row in range(4))
        rep.check(ok, rule, g.key + "|keep rows whose bit is set", g.where,
                  "row i must be kept iff bit i of the simplex mask is set; test is `%s`" % (u(ifs[0].test) if ifs else "?"))
    # --- Simplex.add_point
    sp = idx.cls("distance3d.minkowski::Simplex")
    ap = sp.methods.get("add_point")
    if ap is None:
        raise AnalysisError("Simplex.add_point vanished")
    aps = [x for x in ap.params() if x != "self"]
    st_ = {}
    for st in iter_stmts(ap.node.body):
        if isinstance(st, ast.Assign) and isinstance(st.targets[0], ast.Subscript):
            st_[u(st.targets[0].value)] = (u(st.targets[0].slice), u(st.value))
    ok = st_.get("self.v", (None, None))[1] == aps[0] and st_.get("self.v1", (None, None))[1] == aps[1] and st_.get("self.v2", (None, None))[1] == aps[2] \
        and len({v[0] for v in st_.values()}) == 1
    rep.check(ok, rule, sp.key + ".add_point|v,v1,v2[n] = (v, v1, v2)", ap.where, "add_point stores %s" % st_)
    # --- triple stores  X.v[k], X.v1[k], X.v2[k] = <triple>  in mpr / libccd
    for mname in ("distance3d.mpr", "distance3d.gjk._gjk_libccd"):
        m = idx.module(mname)
        for f in m.functions.values():
            for st in iter_stmts(f.node.body):
                if not isinstance(st, ast.Assign) or not isinstance(st.targets[0], ast.Tuple) or len(st.targets[0].elts) != 3:
                    continue
                tg = st.targets[0].elts
                if not all(isinstance(t, ast.Subscript) for t in tg):
                    continue
                bases = [u(t.value) for t in tg]
                idxs = [u(t.slice) for t in tg]
                tails = [b.split(".")[-1] for b in bases]
                if not (tails[0].rstrip("12") == tails[1].rstrip("12") == tails[2].rstrip("12")):
                    continue
                key = "%s|%s" % (f.key, u(st))
                where = "%s:%d" % (m.relpath, st.lineno)
                good = tails[1] == tails[0] + "1" and tails[2] == tails[0] + "2" and len(set(idxs)) == 1
                why = "targets %s with rows %s" % (bases, idxs)
                if good:
                    v = st.value
                    if isinstance(v, ast.Tuple) and len(v.elts) == 3:
                        # sources: (v[j], v1[j], v2[j]) or (x, x1, x2)/(v4, v14, v24)
                        src = v.elts
                        if all(isinstance(s, ast.Subscript) for s in src):
                            sb = [u(s.value) for s in src]
                            si = [u(s.slice) for s in src]
                            good = sb == bases and len(set(si)) == 1
                            why = "sources %s rows %s" % (sb, si)
                        elif isinstance(src[0], ast.BinOp) and isinstance(src[0].op, ast.Sub) and u(src[0].left) == u(src[1]) and u(src[0].right) == u(src[2]):
                            # (a - b, a, b): the DEFINITION of a support triple of the Minkowski difference, written out (make_support_point inlined)
                            good = True
                            why = "sources (%s - %s, %s, %s)" % (u(src[1]), u(src[2]), u(src[1]), u(src[2]))
                        else:
                            names = [u(s) for s in src]
                            ps_ = f.params()
                            if all(n in ps_ for n in names):
                                pos = [ps_.index(n) for n in names]
                                good = pos == sorted(pos) and pos[2] - pos[0] == 2
                                why = "source parameters %s are not the consecutive (v, v1, v2) triple" % names
                            else:
                                good = names[1].startswith(names[0]) and names[2].startswith(names[0]) and names[1].endswith("1") and names[2].endswith("2")
                                why = "sources %s" % names
                    elif isinstance(v, ast.Call):
                        cn = (call_name(v) or "").split(".")[-1]
                        good = cn in ("support_function", "make_support_point")
                        why = "triple taken from %s" % cn
                rep.check(good, rule, key, where, "parallel arrays are not updated together from one support triple: %s" % why, why)


    # --- call sites: a callee that takes (x, x1, x2) parameter triples must be handed coherent triples
    for mname in ("distance3d.mpr", "distance3d.gjk._gjk_libccd"):
        m = idx.module(mname)
        for f in m.functions.values():
            unpack = []      # tuple-unpacks of the caller: [names in order]
            for st in iter_stmts(f.node.body):
                if isinstance(st, ast.Assign) and isinstance(st.targets[0], ast.Tuple) and all(isinstance(e, ast.Name) for e in st.targets[0].elts):
                    unpack.append([e.id for e in st.targets[0].elts])
            fps = f.params()
            for c in calls(f.node):
                callee = idx.resolve_call(m, c, f.cls)
                if callee is None or not hasattr(callee, "params") or callee.module.name not in ("distance3d.mpr", "distance3d.gjk._gjk_libccd", "distance3d.minkowski"):
                    continue
                cps = [x for x in callee.params() if x != "self"]
                starts = {i for i in range(len(cps) - 2) if cps[i + 1] == cps[i] + "1" and cps[i + 2] == cps[i] + "2"}
                # parameter triples the callee stores into one row of (v, v1, v2):   v[k], v1[k], v2[k] = p, p1, p2
                for st_ in iter_stmts(callee.node.body):
                    if isinstance(st_, ast.Assign) and isinstance(st_.targets[0], ast.Tuple) and len(st_.targets[0].elts) == 3 and isinstance(st_.value, ast.Tuple) \
                            and len(st_.value.elts) == 3 and all(isinstance(e, ast.Name) and e.id in cps for e in st_.value.elts):
                        pos = [cps.index(e.id) for e in st_.value.elts]
                        if pos == [pos[0], pos[0] + 1, pos[0] + 2]:
                            starts.add(pos[0])
                for i in sorted(starts):
                    if i + 2 >= len(c.args):
                        continue
                    a = c.args[i:i + 3]
                    txt = [u(x) for x in a]
                    good = False
                    if all(isinstance(x, ast.Attribute) for x in a):
                        good = len({u(x.value) for x in a}) == 1 and a[1].attr == a[0].attr + "1" and a[2].attr == a[0].attr + "2"
                    elif all(isinstance(x, ast.Subscript) and isinstance(x.value, ast.Attribute) for x in a):
                        good = len({u(x.value.value) for x in a}) == 1 and len({u(x.slice) for x in a}) == 1 \
                            and a[1].value.attr == a[0].value.attr + "1" and a[2].value.attr == a[0].value.attr + "2"
                    elif all(isinstance(x, ast.Name) for x in a):
                        ids = [x.id for x in a]
                        good = any(ids == up[j:j + 3] for up in unpack for j in range(len(up) - 2)) \
                            or (all(n in fps for n in ids) and [fps.index(n) for n in ids] == list(range(fps.index(ids[0]), fps.index(ids[0]) + 3)))
                    key = "%s|call %s(%s..)" % (f.key, callee.name, cps[i])
                    rep.check(good, rule, key, "%s:%d" % (m.relpath, c.lineno),
                              "%s is handed (%s) for its (%s, %s, %s) parameters: the three values do not come from ONE support triple / one portal row, "
                              "so the pre-image arrays v1/v2 go out of step with v (the contact position is then interpolated from the wrong points)"
                              % (callee.name, ", ".join(txt), cps[i], cps[i + 1], cps[i + 2]), "coherent triple (%s)" % ", ".join(txt))


def r_bary(idx, rep, rule="R-BARY"):
    """Decided on the function SPECIALISED for n_points = 2, 3, 4 (core/peval.py with the parameter bound: the dispatch on n_points is folded, an
    accumulation loop `for i in range(1, n_points)` is unrolled), by evaluating the two returned values as sums of products weight * support point."""
    from ..core.peval import peval_node, module_tables
    from ..core.astutil import assign_pairs
    rep.rule(rule, "calculate_closest_points applies the weights computed for (Y[0],...,Y[k]) to P[0..k] and to Q[0..k] in "
                   "the same order with the same weight variables", floor=3)
    f = idx.func("distance3d.gjk._gjk_jolt::calculate_closest_points")
    ps = f.params()
    if len(ps) < 4:
        raise AnalysisError("calculate_closest_points signature changed")
    Yn, Pn, Qn, Nn = ps[:4]
    want_callee = {2: "get_barycentric_coordinates_line", 3: "get_barycentric_coordinates_plane", 4: "get_barycentric_coordinates_tetrahedron"}
    for k in (2, 3, 4):
        key = f.key + "|n_points == %d" % k
        spec = peval_node(f.node, module_tables(f.module), None, bind={Nn: k})
        st8 = {"cells": {}, "env": {}, "ret": None, "why": None}

        def val(e, st8=st8):
            """list of (weight label, support point) terms, a weight label, a support point, or None"""
            cells, env = st8["cells"], st8["env"]
            if isinstance(e, ast.Name):
                return env.get(e.id, cells.get(e.id))
            if isinstance(e, ast.Subscript):
                t = u(e)
                if t in cells:
                    return cells[t]
                if isinstance(e.value, ast.Name) and e.value.id in (Pn, Qn) and isinstance(const(e.slice), int):
                    return ("pt", e.value.id, const(e.slice))
                return None
            if isinstance(e, ast.BinOp) and isinstance(e.op, ast.Mult):
                a_, b_ = val(e.left), val(e.right)
                for x, y in ((a_, b_), (b_, a_)):
                    if isinstance(x, tuple) and x and x[0] == "w" and isinstance(y, tuple) and y and y[0] == "pt":
                        return [(x, y)]
                return None
            if isinstance(e, ast.BinOp) and isinstance(e.op, ast.Add):
                a_, b_ = val(e.left), val(e.right)
                return a_ + b_ if isinstance(a_, list) and isinstance(b_, list) else None
            return None

        for st in strip_docstring(spec.body):
            if st8["ret"] is not None or st8["why"]:
                break
            if isinstance(st, ast.Return):
                st8["ret"] = st.value
            elif isinstance(st, ast.Assign) and isinstance(st.value, ast.Call) and len(st.targets) == 1 and isinstance(st.targets[0], (ast.Tuple, ast.List)):
                for i, t in enumerate(st.targets[0].elts):
                    st8["cells"][u(t)] = ("w", st.value, i, len(st.targets[0].elts))
            elif isinstance(st, ast.Assign):
                for t, v in assign_pairs(st):
                    if isinstance(t, ast.Name):
                        st8["env"][t.id] = val(v)
            elif isinstance(st, ast.AugAssign) and isinstance(st.op, ast.Add) and isinstance(st.target, ast.Name):
                a_, b_ = st8["env"].get(st.target.id), val(st.value)
                st8["env"][st.target.id] = a_ + b_ if isinstance(a_, list) and isinstance(b_, list) else None
            elif isinstance(st, (ast.Expr, ast.Assert, ast.Pass)):
                continue
            else:
                st8["why"] = "after specialisation for n_points = %d a `%s` statement remains" % (k, type(st).__name__)
        ret, why = st8["ret"], st8["why"]
        if why or ret is None or not isinstance(ret, ast.Tuple) or len(ret.elts) != 2:
            rep.unknown(rule, key, f.where, why or "the specialised function does not end in `return a, b`")
            continue
        a_, b_ = val(ret.elts[0]), val(ret.elts[1])
        ok = isinstance(a_, list) and isinstance(b_, list) and len(a_) == k and len(b_) == k
        msg = "the returned points are not sums of %d products weight * support point" % k
        if ok:
            callsites = {id(w[1]) for w, _ in a_ + b_}
            call = a_[0][0][1]
            ok = len(callsites) == 1 and (call_name(call) or "").split(".")[-1] == want_callee[k] and [u(x) for x in call.args] == ["%s[%d]" % (Yn, i) for i in range(k)] \
                and a_[0][0][3] == k
            msg = "the weights must come from one call %s(%s)" % (want_callee[k], ", ".join("%s[%d]" % (Yn, i) for i in range(k)))
            if ok:
                ok = sorted((w[2], p[1], p[2]) for w, p in a_) == [(i, Pn, i) for i in range(k)] and sorted((w[2], p[1], p[2]) for w, p in b_) == [(i, Qn, i) for i in range(k)]
                msg = "weight i of %s must multiply %s[i] in the first and %s[i] in the second returned point; found %s and %s" % (
                    want_callee[k], Pn, Qn, sorted("w%d*%s[%d]" % (w[2], p[1], p[2]) for w, p in a_), sorted("w%d*%s[%d]" % (w[2], p[1], p[2]) for w, p in b_))
        rep.check(ok, rule, key, f.where, msg + ": the closest points are then not the images of the closest point of the Minkowski difference")
    rets = [s for s in iter_stmts(f.node.body) if isinstance(s, ast.Return)]
    ok = bool(rets) and isinstance(rets[-1].value, ast.Tuple) and len(rets[-1].value.elts) == 2
    rep.check(ok, rule, f.key + "|returns (a, b)", f.where, "calculate_closest_points must return (a, b)")



def r_swaprows(idx, rep, rule="R-SWAPROWS"):
    """mpr keeps three parallel arrays: row k of v is the Minkowski point v1[k] - v2[k] of the support points in rows k of v1 and v2.  A helper that only moves
    rows (its parameters are the three arrays and integer row indices) must move row s of ALL THREE to the same row: decided by interpreting it over
    labelled cells with numpy's view semantics (`tmp = v[i]` is a view of the row, `.copy()` a snapshot) for every pair of distinct row indices."""
    import itertools
    from ..core.concrete import Interp as _CI, NotModelled as _NM, Ref as _Ref
    rep.rule(rule, "row-moving helpers of the portal keep v, v1, v2 parallel: after the call row k of each array holds the old row s(k) of the SAME array for one "
                   "s(k) (interpretation over labelled cells, numpy view semantics, all pairs of distinct indices)", floor=1)
    M_ = "distance3d.mpr"
    m = idx.module(M_)
    n = 0
    for f in m.functions.values():
        ps = f.params()
        arrs = [p for p in ps if p in ("v", "v1", "v2")]
        if len(arrs) != 3 or len(ps) < 4:
            continue
        others = [p for p in ps if p not in arrs]
        # only helpers whose remaining parameters are row indices (they index one of the arrays)
        idx_like = all(any(isinstance(nn, ast.Subscript) and isinstance(nn.value, ast.Name) and nn.value.id in arrs and p in {x.id for x in ast.walk(nn.slice) if isinstance(x, ast.Name)}
                           for nn in ast.walk(f.node)) for p in others)
        if not idx_like or len(others) > 3:
            continue
        n += 1
        bad, unk = [], None
        for sel in itertools.permutations(range(4), len(others)):
            it = _CI(None, ndims={"v": 2, "v1": 2, "v2": 2})
            args = [(_Ref(p) if p in arrs else sel[others.index(p)]) for p in ps]
            try:
                it.call_function(f.node, args)
            except _NM as e:
                unk = str(e)
                break
            for k in range(4):
                src = [it.cells.load(a, (k,)) for a in arrs]
                rows = {s[1] if isinstance(s, tuple) and len(s) == 2 else None for s in src}
                names = [s[0] if isinstance(s, tuple) else None for s in src]
                if names != arrs or len(rows) != 1 or None in rows:
                    bad.append("%s(%s): row %d holds %s" % (f.name, ", ".join(map(str, sel)), k, ["%s[%s]" % (s[0], s[1]) if isinstance(s, tuple) and len(s) == 2 else str(s) for s in src]))
        key = "%s|rows of v, v1, v2 stay parallel" % f.key
        if unk:
            rep.unknown(rule, key, f.where, "not interpretable: %s" % unk)
        else:
            rep.check(not bad, rule, key, f.where,
                      "%s: the support points in v1 / v2 no longer belong to the Minkowski point in the same row of v (the contact position is interpolated from the "
                      "wrong witnesses while depth and direction stay right)" % "; ".join(bad[:2]), "parallel for all index pairs")
    if n == 0:
        rep.unknown(rule, M_ + "|row-moving helpers", m.relpath, "no helper of (v, v1, v2, <row indices>) found")


def r_sameRow(idx, rep, rule="R-SAMEROW", floor=2):
    """read side of the parallel containers of MPR: wherever ONE arithmetic expression combines rows of the two support containers (v1 = support points of
    collider 1, v2 = of collider 2), it combines the SAME row of both — `0.5 * (v1[k] + v2[k])`, `b[k] * v1[k]` next to `b[k] * v2[k]`: a contact position
    built from support point k of one collider and support point j of the other is not on the contact."""
    rep.rule(rule, "mpr: an expression that reads constant rows of both support containers (v1, v2) reads the same rows of both", floor=floor)
    m = idx.module("distance3d.mpr")
    for f in sorted(m.functions.values(), key=lambda f: f.key):
        if f.cls is not None:
            continue
        for st in iter_stmts(f.node.body):
            if not isinstance(st, (ast.Assign, ast.Return, ast.AugAssign)) or st.value is None:
                continue
            if isinstance(st, ast.Assign) and any(isinstance(t, (ast.Subscript, ast.Tuple)) for t in st.targets):
                continue          # row stores / tuple moves are R-PAR's business
            rows = {}
            for n in ast.walk(st.value):
                if isinstance(n, ast.Subscript):
                    base = u(n.value).split(".")[-1]
                    k = const(n.slice)
                    if base in ("v1", "v2") and isinstance(k, int) and not isinstance(k, bool):
                        rows.setdefault(base, []).append(k)
            if set(rows) != {"v1", "v2"}:
                continue
            key = "%s|`%s`" % (f.key, u(st)[:70])
            rep.check(sorted(rows["v1"]) == sorted(rows["v2"]), rule, key, "%s:%d" % (f.module.relpath, st.lineno),
                      "`%s` combines rows %s of the support points of collider 1 with rows %s of collider 2: row k of v1 and row k of v2 are the two halves of ONE "
                      "Minkowski support point; mixing rows gives a contact position that does not lie on both colliders" % (u(st)[:90], sorted(rows["v1"]), sorted(rows["v2"])),
                      "rows %s of both" % sorted(rows["v1"]))
