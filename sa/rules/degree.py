"""R-DEGREE: dimensional (length-degree) consistency, engine E3; R-FACEROLE = the same engine with the EPA face rows seeded
(rows 0-2 vertices: degree 1, row 3 the unit normal: degree 0)."""
import ast
from fractions import Fraction

from ..core.astutil import u
from ..engines.degrees import Degrees, POLY, POSE

SCOPE = ["distance3d.distance", "distance3d.distance._line", "distance3d.distance._plane", "distance3d.distance._triangle",
         "distance3d.distance._rectangle", "distance3d.distance._box", "distance3d.distance._line_to_box", "distance3d.distance._circle",
         "distance3d.distance._disk", "distance3d.distance._ellipsoid", "distance3d.distance._cylinder", "distance3d.geometry",
         "distance3d.containment", "distance3d.containment_test", "distance3d.colliders", "distance3d.utils", "distance3d.mesh",
         "distance3d.mpr", "distance3d.epa", "distance3d.minkowski", "distance3d.gjk._gjk_jolt", "distance3d.gjk._gjk_libccd",
         "distance3d.gjk._gjk_nesterov_accelerated", "distance3d.gjk._gjk_nesterov_accelerated_primitives", "distance3d.gjk._gjk_original",
         "distance3d.self_collision", "distance3d.broad_phase", "distance3d.aabb_tree"]

# construct -> reason (confirmed by reading)
_SENTINEL = ("`distance = -inflation - 1.` marks 'origin inside' with a value that is only required to be negative; every public wrapper "
             "clamps it with max(., 0.0), so the inhomogeneous offset never reaches a result")
EXCEPTIONS = {
    "distance3d.gjk._gjk_nesterov_accelerated::gjk_nesterov_accelerated|-_ - 1.0": _SENTINEL,
    "distance3d.gjk._gjk_nesterov_accelerated_primitives::run_gjk_nesterov_accelerated|-inflation - 1.0": _SENTINEL,
    "distance3d.gjk._gjk_nesterov_accelerated::gjk_nesterov_accelerated|_ * _ + (1.0 - _) * _":
        "ray_dir is a unit vector only on the normalize_support_direction path, selected by a loop-invariant flag; the two "
        "representations never meet at run time (path-insensitive join in the loop)",
}

EPA_FACES = {"self.faces": {0: Fraction(1), 1: Fraction(1), 2: Fraction(1), 3: Fraction(0)},
             "closest_face": {0: Fraction(1), 1: Fraction(1), 2: Fraction(1), 3: Fraction(0)},
             "faces.faces": {0: Fraction(1), 1: Fraction(1), 2: Fraction(1), 3: Fraction(0)},
             # the two end points of a loose edge are vertices of the polytope (copied from face rows 0..2)
             "self.loose_edges": {0: Fraction(1), 1: Fraction(1)}}


def run_engine(idx, modules, face_arrays=None):
    dg = Degrees(idx, face_arrays=face_arrays)
    per_func = {}
    for mname in modules:
        m = idx.modules.get(mname)
        if m is None:
            continue
        for f in m.functions.values():
            if "<locals>" in f.qualname:
                continue
            private = f.name.startswith("_") and not f.name.startswith("__")
            if private and f.cls is None:
                continue   # private module functions are analysed per call site with the caller's degrees
            before = dg.n_known
            dg.analyse(f)
            per_func[f.key] = dg.n_known - before
    return dg, per_func


def r_degree(idx, rep, modules=None, rule="R-DEGREE", floor=60, face_arrays=None):
    rep.rule(rule, "length-degree consistency: operands of + - comparisons min/max/stack have equal degree (points/lengths 1, "
                   "directions/normals 0, pose = rotation 0 + translation 1; products add, sqrt halves); seeds come from the "
                   "parameter naming convention, private helpers are evaluated with their call sites' degrees", floor=floor)
    mods = modules or SCOPE
    dg, per_func = run_engine(idx, mods, face_arrays)
    bad_funcs = {}
    for k, m in sorted(dg.mismatches.items()):
        if m.func.module.name not in mods and not any(m.func.module.name.startswith(x) for x in mods):
            continue
        if k in EXCEPTIONS:
            rep.note("R-DEGREE exception: %s — %s" % (k, EXCEPTIONS[k]))
            continue
        bad_funcs.setdefault(m.func.key, []).append(m)
        rep.bad(rule, k, "%s:%d" % (m.func.module.relpath, m.node.lineno),
                "%s of quantities with length degree %s and %s: `%s` is not homogeneous, so the result does not scale with the scene "
                "(typical causes: a squared length used as a length, a dropped factor, a transcription error in a closed form)"
                % (m.what, m.left, m.right, u(m.node)))
    for fk, n in sorted(per_func.items()):
        if fk not in bad_funcs and n > 0:
            rep.ok(rule, fk, fk.split("::")[0], "%d expression nodes with known degree, all consistent" % n)
    rep.extra.setdefault("degree_engine", {}).update({"expressions": dg.n_expr, "known": dg.n_known})
    return dg


def r_return_degrees(idx, rep, dg, rule="R-RETDEGREE"):
    rep.rule(rule, "public distance functions return (distance: degree 1, points: degree 1); a squared distance or a direction "
                   "in a point slot is a violation", floor=25)
    m = idx.module("distance3d.distance")
    for name in (m.all or []):
        r = idx.resolve_name(m, name)
        if not r or r[0] != "func":
            rep.bad(rule, "distance3d.distance|%s" % name, m.relpath, "exported name does not resolve to a function")
            continue
        f = r[1]
        res = dg.analyse(f)
        key = "%s|return degrees" % f.key
        if not isinstance(res, tuple):
            rep.unknown(rule, key, f.where, "return degrees not inferred (%r)" % (res,))
            continue
        bad = [(i, d) for i, d in enumerate(res) if isinstance(d, Fraction) and d != 1]
        if bad:
            rep.bad(rule, key, f.where, "returned tuple has length degrees %s; distance and closest points must have degree 1" % (res,))
        elif all(d is None for d in res):
            rep.unknown(rule, key, f.where, "no position inferred")
        else:
            rep.ok(rule, key, f.where, "degrees %s" % (res,))


TOL_EXCEPTIONS = {
    "distance3d.distance._disk::disk_to_disk|epsilon": "one epsilon serves as angle, squared-moment and length tolerance in the iterative disk/disk routine (as written upstream)",
    "distance3d.distance._ellipsoid::point_to_ellipsoid|epsilon": "epsilon bounds a normalised (dimensionless) norm and the bisection variable of Eberly's ellipsoid routine",
    "distance3d.distance._line::_line_to_line_segment|epsilon": "Ericson's code compares one EPSILON with the squared segment length and with the squared norm of the unit line direction",
}


def r_tolunit(idx, rep, modules, rule="R-TOLUNIT", floor=10, face_arrays=None):
    """a tolerance symbol (epsilon / tolerance / bias; per function, per class for self.<tol>) is compared with quantities of ONE length degree:
    a length tolerance applied to a squared length, an area or a volume makes the test scale dependent (small shapes look degenerate)."""
    rep.rule(rule, "each tolerance symbol is compared with quantities of a single length degree within its function / class (engine E3 records the "
                   "degree of the other side of every comparison that involves a bare tolerance symbol)", floor=floor)
    dg, _ = run_engine(idx, modules, face_arrays)
    agg = {}
    for (fk, name), uses in dg.tol_uses.items():
        if not any(fk.startswith(m) for m in modules):
            continue
        scope = fk.rsplit(".", 1)[0] if name.startswith("self.") else fk
        agg.setdefault((scope, name), []).extend((d, fk, n) for d, n in uses)
    # one tolerance handed on: `Polytope(simplex, max_faces, epsilon)` with `self.epsilon = epsilon` in the constructor makes the function's `epsilon` and the
    # class's `self.epsilon` ONE symbol — their comparisons must agree in degree with each other as well
    import ast as _ast
    from ..core.index import ClassInfo as _CI
    for m_ in idx.lib_modules():
        if not any(m_.name.startswith(x) for x in modules):
            continue
        for f_ in m_.functions.values():
            for c_ in _ast.walk(f_.node):
                if not isinstance(c_, _ast.Call):
                    continue
                ci_ = idx.resolve_call(m_, c_, f_.cls)
                if not isinstance(ci_, _CI):
                    continue
                init_ = ci_.methods.get("__init__")
                if init_ is None:
                    continue
                ps_ = init_.params()[1:]
                stores_ = {u(st.value): st.targets[0].attr for st in _ast.walk(init_.node) if isinstance(st, _ast.Assign) and len(st.targets) == 1
                           and isinstance(st.targets[0], _ast.Attribute) and u(st.targets[0].value) == "self" and isinstance(st.value, _ast.Name)}
                for p_, a_ in zip(ps_, c_.args):
                    if isinstance(a_, _ast.Name) and p_ in stores_:
                        k_from, k_to = (f_.key, a_.id), (ci_.key, "self." + stores_[p_])
                        if k_to in agg:
                            agg.setdefault(k_from, [])
                            agg[k_from] = agg[k_from] + [x for x in agg[k_to] if x not in agg[k_from]]
                            linked = agg.setdefault("__linked__", {})
                            linked.setdefault(k_from, []).append(k_to)
    linked = agg.pop("__linked__", {})
    for (scope, name), uses in sorted(agg.items()):
        if not uses:
            continue
        ds = sorted({d for d, _, _ in uses})
        key = "%s|%s" % (scope, name)
        if len(ds) > 1 and key in TOL_EXCEPTIONS:
            rep.note("R-TOLUNIT exception %s: %s" % (key, TOL_EXCEPTIONS[key]))
            continue
        d0, fk0, n0 = uses[0]
        mod = idx.modules.get(scope.split("::")[0])
        where = "%s:%d" % (mod.relpath if mod else scope, n0.lineno)
        rep.check(len(ds) == 1, rule, key, where,
                  "the tolerance `%s` is compared with quantities of different length degrees %s (%s): one of the tests applies a length tolerance to a squared length / area / "
                  "volume (or vice versa), so it triggers for small but valid shapes and never for large ones"
                  % (name, [str(d) for d in ds], "; ".join("`%s` [degree %s]" % (u(n)[:60], d) for d, _, n in uses[:4])), "degree %s (%d comparisons)" % (ds[0], len(uses)))
