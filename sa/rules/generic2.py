"""Generic contradiction rules added after round 11 (each is a belief stated by one piece of the code and contradicted by another):

R-INDEXTRUTH   an array that the function USES as an integer index is not reduced with np.any / np.all / bool / `if x:` — index 0 is falsy, so "is there any
               hit" silently drops the first element.  (A boolean mask may be reduced: names with a boolean-valued definition are excluded.)
R-DEFINITE     a closeness test `q < tolerance` on a vector difference uses a DEFINITE q (norm, max |.|, sum of squares / absolute values, dot(x, x)); a signed
               sum of the components vanishes for many non-zero differences.
R-AXISPAIR     in one conjunction, component tests of the same two arrays (`abs(s[0]) <= h[0] and abs(s[1]) <= h[1]`) pair every component with its own
               bound: the index map is injective.
R-GUARDAFTERUSE  (compiled functions) a scalar division is not evaluated before the function's own test that its divisor is non-zero / positive: numba
               raises ZeroDivisionError where the interpreted numpy scalar gives inf, so hoisting the division above the guard changes behaviour in one mode only."""
import ast

from ..core.astutil import u, call_name, const, assign_pairs, parent_map, guard_chain, resolved


def _names_in(e):
    return {n.id for n in ast.walk(e) if isinstance(n, ast.Name)}


# ---------------------------------------------------------------------------------------------------------------------- R-INDEXTRUTH
_BOOL_CALLS = {"np.all", "np.any", "np.isclose", "np.isin", "np.isfinite", "np.isnan", "np.isinf", "np.logical_and", "np.logical_or", "np.logical_not",
               "np.logical_xor", "np.zeros_like", "np.ones_like", "np.in1d", "np.array_equal", "np.allclose"}


def _is_boolean_expr(idx, f, e, depth=2):
    """True / False / None (unknown)"""
    if isinstance(e, (ast.Compare, ast.BoolOp)):
        return True
    if isinstance(e, ast.UnaryOp) and isinstance(e.op, (ast.Not, ast.Invert)):
        return True
    if isinstance(e, ast.BinOp) and isinstance(e.op, (ast.BitAnd, ast.BitOr, ast.BitXor)):
        a, b = _is_boolean_expr(idx, f, e.left, depth), _is_boolean_expr(idx, f, e.right, depth)
        return True if (a and b) else (None if a is None or b is None else False)
    if isinstance(e, ast.Constant):
        return isinstance(e.value, bool)
    if isinstance(e, ast.Call):
        cn = call_name(e) or ""
        if cn in _BOOL_CALLS and cn not in ("np.zeros_like", "np.ones_like"):
            return True
        if cn in ("np.zeros", "np.ones", "np.empty", "np.full", "np.zeros_like", "np.ones_like", "np.array", "np.asarray"):
            for k in e.keywords:
                if k.arg == "dtype":
                    return u(k.value) in ("bool", "np.bool_", "np.bool8")
            if cn in ("np.array", "np.asarray") and e.args:
                return _is_boolean_expr(idx, f, e.args[0], depth)
            return False
        if cn in ("np.unique", "np.where", "np.nonzero", "np.flatnonzero", "np.argsort", "np.argwhere", "np.arange", "np.argmax", "np.argmin", "len", "range"):
            return False
        if isinstance(e.func, ast.Attribute) and e.func.attr == "astype" and e.args:
            return u(e.args[0]) in ("bool", "np.bool_")
        if depth > 0:
            callee = idx.resolve_call(f.module, e, f.cls)
            node = getattr(callee, "node", None)
            if isinstance(node, ast.FunctionDef):
                rets = [r.value for r in ast.walk(node) if isinstance(r, ast.Return) and r.value is not None]
                vals = [_is_boolean_expr(idx, callee, resolved(node, r), depth - 1) for r in rets]
                if vals and all(v is True for v in vals):
                    return True
                if vals and all(v is False for v in vals):
                    return False
        return None
    if isinstance(e, (ast.List, ast.Tuple)):
        vals = [_is_boolean_expr(idx, f, x, depth) for x in e.elts]
        if vals and all(v is True for v in vals):
            return True
        return False if vals and all(v is False for v in vals) else None
    if isinstance(e, ast.Subscript):
        return _is_boolean_expr(idx, f, e.value, depth)
    if isinstance(e, ast.Name):
        return _name_boolean(idx, f, e.id, depth)
    return None


def _tuple_element_boolean(idx, f, call, k, depth):
    callee = idx.resolve_call(f.module, call, f.cls)
    if callee is None and isinstance(call.func, ast.Attribute):
        # method of some library class: every library method of that name
        cands = [m for mod in idx.lib_modules() for c in mod.classes.values() for n_, m in c.methods.items() if n_ == call.func.attr]
    else:
        cands = [callee] if getattr(callee, "node", None) is not None else []
    if not cands or depth <= 0:
        return None
    out = []
    for c in cands:
        for r in ast.walk(c.node):
            if isinstance(r, ast.Return) and isinstance(r.value, ast.Tuple) and len(r.value.elts) > k:
                out.append(_is_boolean_expr(idx, c, resolved(c.node, r.value.elts[k]), depth - 1))
            elif isinstance(r, ast.Return) and r.value is not None:
                out.append(None)
    if out and all(v is False for v in out):
        return False
    if out and all(v is True for v in out):
        return True
    return None


def _name_boolean(idx, f, name, depth=2):
    vals = []
    for st in ast.walk(f.node):
        if isinstance(st, ast.Assign):
            for t, v in assign_pairs(st):
                if isinstance(t, ast.Name) and t.id == name:
                    vals.append(_is_boolean_expr(idx, f, v, depth))
                elif isinstance(t, (ast.Tuple, ast.List)) and isinstance(v, ast.Call):
                    for k, x in enumerate(t.elts):
                        if isinstance(x, ast.Name) and x.id == name:
                            vals.append(_tuple_element_boolean(idx, f, v, k, depth))
        elif isinstance(st, ast.AugAssign) and isinstance(st.target, ast.Name) and st.target.id == name:
            vals.append(_is_boolean_expr(idx, f, st.value, depth))
    if name in f.params():
        vals.append(None)
    if not vals:
        return None
    if any(v is True for v in vals):
        return True
    return False if all(v is False for v in vals) else None


def r_indextruth(idx, rep, modules, rule="R-INDEXTRUTH", floor=1):
    rep.rule(rule, "an array that the function uses as an integer index (`A[x]`, `A[x.astype(int)]`) is never reduced to a truth value with np.any / np.all / "
                   ".any() / bool() / `if x:` (index 0 is falsy: `no hit` and `only element 0 hit` become the same answer); boolean masks are exempt", floor=floor)
    for mname in modules:
        m = idx.module(mname)
        for f in sorted(m.functions.values(), key=lambda f: f.key):
            used_as_index = {}
            as_int = set()
            for n in ast.walk(f.node):
                if isinstance(n, ast.Subscript):
                    sl = n.slice
                    elts = sl.elts if isinstance(sl, ast.Tuple) else [sl]
                    for e in elts:
                        if isinstance(e, ast.Call) and isinstance(e.func, ast.Attribute) and e.func.attr == "astype" and isinstance(e.func.value, ast.Name):
                            used_as_index.setdefault(e.func.value.id, n)
                            if e.args and u(e.args[0]) in ("int", "np.int64", "np.int32", "np.intp", "numba.int64"):
                                as_int.add(e.func.value.id)          # converted to integers FOR indexing: not a mask
                        elif isinstance(e, ast.Name):
                            used_as_index.setdefault(e.id, n)
            if not used_as_index:
                continue
            pm = None
            for name, site in sorted(used_as_index.items()):
                # array-valued? a loop counter / scalar index is not what this rule is about: it must be reduced somewhere to matter
                truth = []
                for n in ast.walk(f.node):
                    if isinstance(n, ast.Call):
                        cn = call_name(n) or ""
                        arg0 = n.args[0] if n.args else None
                        if cn in ("np.any", "np.all", "any", "all", "bool") and arg0 is not None and not n.keywords:
                            base = arg0
                            while isinstance(base, (ast.Subscript, ast.Call)) and not isinstance(base, ast.Name):
                                base = base.value if isinstance(base, ast.Subscript) else (base.func.value if isinstance(base.func, ast.Attribute) and base.func.attr == "astype" else None)
                                if base is None:
                                    break
                            if isinstance(base, ast.Name) and base.id == name:
                                truth.append(n)
                        if isinstance(n.func, ast.Attribute) and n.func.attr in ("any", "all") and isinstance(n.func.value, ast.Name) and n.func.value.id == name and not n.args:
                            truth.append(n)
                    elif isinstance(n, (ast.If, ast.While, ast.IfExp)):
                        t = n.test
                        while isinstance(t, ast.UnaryOp) and isinstance(t.op, ast.Not):
                            t = t.operand
                        if isinstance(t, ast.Name) and t.id == name:
                            truth.append(t)
                if not truth:
                    continue
                isb = False if name in as_int else _name_boolean(idx, f, name)
                key = "%s|index array `%s` reduced to a truth value" % (f.key, name)
                where = "%s:%d" % (f.module.relpath, truth[0].lineno)
                if isb is True:
                    rep.ok(rule, key, where, "`%s` is a boolean mask" % name)
                elif isb is None:
                    rep.unknown(rule, key, where, "`%s` is used as an index and as a truth value, its element type is not derivable" % name)
                else:
                    rep.bad(rule, key, where,
                            "`%s` holds integer indices (it indexes `%s`) and `%s` asks whether some INDEX is non-zero, not whether there is an index: a result that "
                            "consists of element 0 only is treated as empty (test `len(%s) > 0` / `.size`)" % (name, u(site.value)[:40], u(truth[0])[:50], name))
            # every function with an index-valued name is an instance even when nothing reduces it
            rep.ok(rule, "%s|index arrays %s never reduced" % (f.key, sorted(used_as_index)[:4]), f.where, "no truth reduction of an index array")


# ---------------------------------------------------------------------------------------------------------------------- R-DEFINITE
def _definite_arg(e):
    """is the argument of a sum non-negative by construction (abs / square / product with itself / boolean)?"""
    if isinstance(e, ast.Call) and (call_name(e) or "") in ("np.abs", "np.absolute", "np.fabs", "abs", "np.square"):
        return True
    if isinstance(e, ast.BinOp) and isinstance(e.op, ast.Pow) and const(e.right) in (2, 2.0, 4):
        return True
    if isinstance(e, ast.BinOp) and isinstance(e.op, ast.Mult) and u(e.left) == u(e.right):
        return True
    if isinstance(e, (ast.Compare, ast.BoolOp)):
        return True
    return False


def _is_difference(f, e, depth=2):
    e = resolved(f.node, e) if isinstance(e, ast.Name) else e
    return isinstance(e, ast.BinOp) and isinstance(e.op, ast.Sub)


def r_definite(idx, rep, modules, rule="R-DEFINITE", floor=3):
    rep.rule(rule, "a closeness test on a vector difference (`q(a - b) < eps`) uses a definite q — np.linalg.norm, max / sum of absolute values or squares, "
                   "dot(x, x): q = 0 only for a = b.  A (absolute value of a) plain sum of the components is zero for every difference whose components cancel", floor=floor)
    for mname in modules:
        m = idx.module(mname)
        for f in sorted(m.functions.values(), key=lambda f: f.key):
            for c in ast.walk(f.node):
                if not (isinstance(c, ast.Compare) and len(c.ops) == 1 and isinstance(c.ops[0], (ast.Lt, ast.LtE, ast.Gt, ast.GtE))):
                    continue
                small, _tol = (c.left, c.comparators[0]) if isinstance(c.ops[0], (ast.Lt, ast.LtE)) else (c.comparators[0], c.left)
                q = resolved(f.node, small) if isinstance(small, ast.Name) else small
                # peel abs(...)
                inner = q
                while isinstance(inner, ast.Call) and (call_name(inner) or "") in ("np.abs", "abs", "np.fabs", "np.absolute", "math.fabs") and inner.args:
                    inner = inner.args[0]
                kind = None
                arg = None
                if isinstance(inner, ast.Call) and (call_name(inner) or "") == "np.linalg.norm" and inner.args:
                    kind, arg = "norm", inner.args[0]
                elif isinstance(inner, ast.Call) and (call_name(inner) or "") in ("np.sum", "sum", "np.mean", "np.nansum") and inner.args:
                    kind, arg = "sum", inner.args[0]
                elif isinstance(inner, ast.Call) and isinstance(inner.func, ast.Attribute) and inner.func.attr in ("sum", "mean") and not inner.args:
                    kind, arg = "sum", inner.func.value
                if kind is None:
                    continue
                a = resolved(f.node, arg) if isinstance(arg, ast.Name) else arg
                if not _is_difference(f, a):
                    continue
                key = "%s|closeness test `%s`" % (f.key, u(c)[:70])
                where = "%s:%d" % (f.module.relpath, c.lineno)
                if kind == "norm" or _definite_arg(a):
                    rep.ok(rule, key, where, "definite")
                else:
                    rep.bad(rule, key, where,
                            "`%s` compares the plain SUM of the components of `%s` with a tolerance: it vanishes whenever the components cancel (e.g. (1, -1, 0)), "
                            "so different points are taken for the same point; use the norm / the sum of absolute values" % (u(c)[:90], u(a)[:50]))


# ---------------------------------------------------------------------------------------------------------------------- R-AXISPAIR
def _const_subscripts(e):
    out = []
    for n in ast.walk(e):
        if isinstance(n, ast.Subscript) and isinstance(n.value, (ast.Name, ast.Attribute)):
            k = const(n.slice)
            if isinstance(k, int) and not isinstance(k, bool):
                out.append((u(n.value), k, n))
    return out


def r_axispair(idx, rep, modules, rule="R-AXISPAIR", floor=3):
    rep.rule(rule, "component tests in one conjunction that compare component i of one array with component j of another (`abs(s[0]) <= h[0] and abs(s[1]) <= h[1]`) "
                   "use an injective index map: no bound is used for two different components", floor=floor)
    for mname in modules:
        m = idx.module(mname)
        for f in sorted(m.functions.values(), key=lambda f: f.key):
            for b in ast.walk(f.node):
                if not (isinstance(b, ast.BoolOp) and isinstance(b.op, ast.And)):
                    continue
                groups = {}
                for atom in b.values:
                    if not (isinstance(atom, ast.Compare) and len(atom.ops) == 1):
                        continue
                    ls, rs = _const_subscripts(atom.left), _const_subscripts(atom.comparators[0])
                    if len(ls) != 1 or len(rs) != 1 or ls[0][0] == rs[0][0]:
                        continue
                    (A, i, na), (B, j, nb) = ls[0], rs[0]
                    # shape of the atom with the two indices abstracted
                    shape = u(atom).replace(u(na), "%s[.]" % A).replace(u(nb), "%s[.]" % B)
                    groups.setdefault((A, B, shape), []).append((i, j, atom))
                for (A, B, shape), items in groups.items():
                    if len(items) < 2:
                        continue
                    iset, jset = [x[0] for x in items], [x[1] for x in items]
                    key = "%s|%s" % (f.key, shape[:80])
                    where = "%s:%d" % (f.module.relpath, items[0][2].lineno)
                    if len(set(iset)) == len(iset) and len(set(jset)) < len(jset):
                        dup = [j for j in set(jset) if jset.count(j) > 1][0]
                        rep.bad(rule, key, where, "components %s of `%s` are all compared with `%s[%d]`: each component has its own bound (%s)"
                                % ([i for i, j, _ in items if j == dup], A, B, dup, " and ".join(u(x[2]) for x in items)[:160]))
                    elif len(set(jset)) == len(jset) and len(set(iset)) < len(iset):
                        dup = [i for i in set(iset) if iset.count(i) > 1][0]
                        rep.bad(rule, key, where, "`%s[%d]` is compared with the bounds %s of `%s`: each bound belongs to its own component (%s)"
                                % (A, dup, [j for i, j, _ in items if i == dup], B, " and ".join(u(x[2]) for x in items)[:160]))
                    else:
                        rep.ok(rule, key, where, "index map %s" % sorted(zip(iset, jset)))


# ---------------------------------------------------------------------------------------------------------------------- R-GUARDAFTERUSE
def _is_njit(f):
    return any("njit" in u(d) or "jit" in u(d) for d in f.node.decorator_list)


def r_guardafteruse(idx, rep, modules, rule="R-GUARDAFTERUSE", floor=3):
    rep.rule(rule, "compiled functions: a scalar division `x / d` by a local d is not evaluated before the function's own test `d > 0` / `d != 0` / `d == 0` "
                   "(same name, later in the same block or an enclosing one): compiled code raises ZeroDivisionError where the interpreted numpy scalar gives inf, "
                   "so a division hoisted above its guard behaves differently in the two modes for exactly the inputs the guard exists for", floor=floor)
    for mname in modules:
        m = idx.module(mname)
        for f in sorted(m.functions.values(), key=lambda f: f.key):
            if not _is_njit(f):
                continue
            pm = parent_map(f.node)
            # tests of a local against zero
            guards = {}
            for n in ast.walk(f.node):
                if isinstance(n, (ast.If, ast.While, ast.IfExp)):
                    for c in ast.walk(n.test):
                        if isinstance(c, ast.Compare) and len(c.ops) == 1:
                            a, b = c.left, c.comparators[0]
                            for x, y in ((a, b), (b, a)):
                                if isinstance(x, ast.Name) and const(y) in (0, 0.0) and not isinstance(const(y), bool):
                                    guards.setdefault(x.id, []).append(n)
            if not guards:
                continue
            for d in ast.walk(f.node):
                if isinstance(d, ast.BinOp) and isinstance(d.op, (ast.Div, ast.FloorDiv, ast.Mod)) and isinstance(d.right, ast.Name) and d.right.id in guards:
                    name, node, numer = d.right.id, d, d.left
                elif isinstance(d, ast.AugAssign) and isinstance(d.op, (ast.Div, ast.FloorDiv, ast.Mod)) and isinstance(d.value, ast.Name) and d.value.id in guards:
                    name, node, numer = d.value.id, d, d.target
                else:
                    continue
                while isinstance(numer, ast.UnaryOp):
                    numer = numer.operand
                scalar = isinstance(numer, ast.Constant)
                # statement that contains the division
                st = node
                while st in pm and not isinstance(st, ast.stmt):
                    st = pm[st]
                key = "%s|division by `%s` and its zero test" % (f.key, name)
                where = "%s:%d" % (f.module.relpath, node.lineno)
                # guarded: some test of `name` against zero is on the guard chain of the statement (enclosing if / earlier guard clause)
                chain = guard_chain(pm, st, f.node)
                dominated = any(isinstance(t, ast.Compare) and name in _names_in(t) and any(const(x) in (0, 0.0) for x in [t.left] + t.comparators) for t, pol in chain)
                if isinstance(st, (ast.If, ast.While)) and node in list(ast.walk(st.test)):
                    dominated = dominated or False
                later = [g for g in guards[name] if g.lineno > st.lineno and not any(x is st for x in ast.walk(g))]
                # a redefinition of the divisor between the division and the later test makes them different values
                redefined = any(isinstance(x, ast.Name) and x.id == name and isinstance(x.ctx, ast.Store) and st.lineno < x.lineno <= (later[0].lineno if later else 0) for x in ast.walk(f.node))
                if dominated or not later or redefined:
                    rep.ok(rule, key, where, "guarded" if dominated else "no later test")
                elif not scalar:
                    rep.unknown(rule, key, where, "`%s` is evaluated before the test `%s` of its divisor; whether the numerator is a scalar (compiled code raises) or an "
                                                  "array (inf in both modes) is not derivable" % (u(node)[:50], u(later[0].test)[:40]))
                else:
                    rep.bad(rule, key, where,
                            "`%s` divides by `%s` at line %d, and line %d then tests `%s`: the author expects a zero divisor, but the division has already happened — compiled "
                            "code raises ZeroDivisionError there, the interpreted numpy scalar division returns inf and goes on to the guard"
                            % (u(node)[:60], name, node.lineno, later[0].lineno, u(later[0].test)[:50]))


# ---------------------------------------------------------------------------------------------------------------------- R-RESIDUALZERO
def _is_projection_residual(f, e):
    """e (resolved) == v - (v . a) * a   (the component of v orthogonal to a), in any operand order; returns (v text, a text) or None"""
    e = resolved(f.node, e) if isinstance(e, ast.Name) else e
    if not (isinstance(e, ast.BinOp) and isinstance(e.op, ast.Sub)):
        return None
    v, prod = e.left, e.right
    prod = resolved(f.node, prod) if isinstance(prod, ast.Name) else prod
    if not (isinstance(prod, ast.BinOp) and isinstance(prod.op, ast.Mult)):
        return None
    for t, a in ((prod.left, prod.right), (prod.right, prod.left)):
        t = resolved(f.node, t) if isinstance(t, ast.Name) else t
        args = None
        if isinstance(t, ast.Call) and (call_name(t) or "") in ("np.dot", "np.inner", "np.vdot") and len(t.args) == 2:
            args = [u(x) for x in t.args]
        elif isinstance(t, ast.Call) and isinstance(t.func, ast.Attribute) and t.func.attr == "dot" and len(t.args) == 1:
            args = [u(t.func.value), u(t.args[0])]
        if args is not None and sorted(args) == sorted([u(v), u(a)]):
            return u(v), u(a)
    return None


def r_residualzero(idx, rep, modules, rule="R-RESIDUALZERO", floor=0):
    rep.rule(rule, "a division by the length of a projection residual r = v - (v.a) a is not guarded by an EXACT zero test of that length: for v parallel to a rotated "
                   "axis a the residual is rounding noise (1e-17), never 0.0 — the guard does not fire and the noise is normalised to full length.  (Components in a "
                   "local frame, `R.T @ v`, are exactly 0 for exactly representable axes and may be tested with == 0.)", floor=floor)
    for mname in modules:
        m = idx.module(mname)
        for f in sorted(m.functions.values(), key=lambda f: f.key):
            for n in ast.walk(f.node):
                d = None
                if isinstance(n, ast.BinOp) and isinstance(n.op, ast.Div):
                    d = n.right
                elif isinstance(n, ast.AugAssign) and isinstance(n.op, ast.Div):
                    d = n.value
                if not isinstance(d, ast.Name):
                    continue
                s = resolved(f.node, d)
                arg = None
                if isinstance(s, ast.Call) and (call_name(s) or "") == "np.linalg.norm" and s.args:
                    arg = s.args[0]
                elif isinstance(s, ast.Call) and (call_name(s) or "") in ("math.sqrt", "np.sqrt") and s.args:
                    inner = s.args[0]
                    if isinstance(inner, ast.Call) and (call_name(inner) or "") in ("np.dot",) and len(inner.args) == 2 and u(inner.args[0]) == u(inner.args[1]):
                        arg = inner.args[0]
                if arg is None:
                    continue
                pr = _is_projection_residual(f, arg)
                if pr is None:
                    continue
                key = "%s|division by the length `%s` of the residual of %s along %s" % (f.key, d.id, pr[0], pr[1])
                where = "%s:%d" % (f.module.relpath, n.lineno)
                # tests of that length anywhere in the function
                exact = tol = None
                for c in ast.walk(f.node):
                    if isinstance(c, ast.Compare) and len(c.ops) == 1:
                        l, r_ = c.left, c.comparators[0]
                        for x, y in ((l, r_), (r_, l)):
                            if isinstance(x, ast.Name) and x.id == d.id:
                                if isinstance(c.ops[0], (ast.Eq, ast.NotEq)) and const(y) in (0, 0.0):
                                    exact = c
                                elif isinstance(c.ops[0], (ast.Lt, ast.LtE, ast.Gt, ast.GtE)) and const(y) not in (0, 0.0):
                                    tol = c
                if exact is not None and tol is None:
                    rep.bad(rule, key, "%s:%d" % (f.module.relpath, exact.lineno),
                            "`%s` is the only protection of `%s`, but `%s` is the length of `%s - (%s . %s) %s`: when %s is parallel to %s in a rotated pose the subtraction "
                            "leaves rounding noise of length ~1e-17 instead of 0.0, the test is false, and the noise direction is scaled to full length — a point off "
                            "the shape.  Test the residual against a tolerance, or compute the components in the local frame" % (
                                u(exact), u(n)[:50], d.id, pr[0], pr[0], pr[1], pr[1], pr[0], pr[1]))
                else:
                    rep.ok(rule, key, where, "tolerance test" if tol is not None else "no exact-zero guard relied upon")


# ---------------------------------------------------------------------------------------------------------------------- R-RIMPOINT
def r_rimpoint(idx, rep, modules, rule="R-RIMPOINT", floor=3):
    """a point constructed as `centre + radius * v` lies at distance `radius` from the centre only if v has unit length: v is a unit parameter (normal /
    direction / axis: domain P), a normalised vector (norm_vector(.), x / |x|), a column of a rotation matrix — never the raw result of a function that is
    documented not to normalise (pytransform3d's perpendicular_to_vector returns [1, 0, z]), a cross product or a difference of points."""
    from ..engines.signs import Signs
    rep.rule(rule, "in `centre + radius * v` (a point on a circle / disk rim / sphere) v is a unit vector: a unit parameter, norm_vector(.), x / |x| or a rotation column — "
                   "not the raw result of pr.perpendicular_to_vector (documented: not unit length), of a cross product or of a difference", floor=floor)
    sg = Signs(idx)
    for mname in modules:
        m = idx.module(mname)
        for f in sorted(m.functions.values(), key=lambda f: f.key):
            seen = set()
            for n in ast.walk(f.node):
                if not (isinstance(n, ast.BinOp) and isinstance(n.op, (ast.Add, ast.Sub))):
                    continue
                for c, prod in ((n.left, n.right), (n.right, n.left)):
                    if not (isinstance(prod, ast.BinOp) and isinstance(prod.op, ast.Mult)):
                        continue
                    for sc, v in ((prod.left, prod.right), (prod.right, prod.left)):
                        if not (isinstance(sc, (ast.Name, ast.Attribute)) and "radi" in u(sc).lower() and isinstance(v, (ast.Name, ast.Call, ast.Subscript))):
                            continue
                        if id(prod) in seen:
                            continue
                        seen.add(id(prod))
                        key = "%s|`%s`" % (f.key, u(n)[:60])
                        where = "%s:%d" % (f.module.relpath, n.lineno)
                        d = v
                        if isinstance(v, ast.Name):
                            defs_ = [(st_.lineno, val_) for st_ in ast.walk(f.node) if isinstance(st_, ast.Assign) and st_.lineno <= n.lineno
                                     for t_, val_ in assign_pairs(st_) if isinstance(t_, ast.Name) and t_.id == v.id]
                            if defs_:
                                d = max(defs_, key=lambda x: x[0])[1]          # the definition that reaches the use in straight-line code: the last one before it
                        if "radi" in u(v).lower():
                            continue          # radius * radius: a scalar
                        verdict = None
                        why = ""
                        if isinstance(v, ast.Name) and v.id in f.params() and any(w in v.id.lower() for w in ("normal", "direction", "axis")):
                            verdict, why = True, "unit parameter (domain P)"
                        elif isinstance(d, ast.Call) and (call_name(d) or "").split(".")[-1] == "norm_vector":
                            verdict, why = True, "norm_vector(.)"
                        elif isinstance(d, ast.Call) and (call_name(d) or "").split(".")[-1] == "perpendicular_to_vector":
                            verdict, why = False, "pr.perpendicular_to_vector returns [1, 0, -x/z] (or e_z): perpendicular, but of length sqrt(1 + (x/z)^2)"
                        elif isinstance(d, ast.Call) and (call_name(d) or "").split(".")[-1] == "cross":
                            verdict, why = False, "a cross product has the length |a||b| sin"
                        elif isinstance(d, ast.BinOp) and isinstance(d.op, ast.Div):
                            den = resolved(f.node, d.right) if isinstance(d.right, ast.Name) else d.right
                            if isinstance(den, ast.Call) and (call_name(den) or "") in ("np.linalg.norm", "math.sqrt", "np.sqrt"):
                                verdict, why = True, "x / |x|"
                        elif isinstance(d, ast.Subscript) and isinstance(d.slice, ast.Tuple) and len(d.slice.elts) == 2 and isinstance(d.slice.elts[0], ast.Slice) \
                                and isinstance(const(d.slice.elts[1]), int):
                            verdict, why = True, "column of a rotation matrix"
                        if verdict is None:
                            try:
                                k = sg.kind(v, f, {})
                            except Exception:
                                k = None
                            if k == "UNIT0":
                                verdict, why = True, "unit by construction (sign / unit lattice)"
                        if verdict is True:
                            rep.ok(rule, key, where, why)
                        elif verdict is False:
                            rep.bad(rule, key, where, "`%s` scales `%s` by the radius, but that vector is not unit: %s — the constructed point is not at distance `%s` from the "
                                                      "centre, i.e. not on the circle / rim it is returned for" % (u(n)[:70], u(v)[:40], why, u(sc)))
                        else:
                            rep.unknown(rule, key, where, "unit length of `%s` is not derivable" % u(v)[:40])


# ---------------------------------------------------------------------------------------------------------------------- R-CONVEXWEIGHTS
_POINT_ROWS = ("tetrahedron", "tetrahedra", "vertices", "points", "triangle", "polygon", "simplex")


def _is_point_rows(name):
    return name in _POINT_ROWS or name.endswith("_points") or name.endswith("_vertices") or name.endswith("vertices")


def _sum_of(e):
    """X when e is sum(X) / np.sum(X) / X.sum(), else None"""
    if isinstance(e, ast.Call) and (call_name(e) or "") in ("sum", "np.sum", "math.fsum") and len(e.args) == 1 and not e.keywords:
        return e.args[0]
    if isinstance(e, ast.Call) and isinstance(e.func, ast.Attribute) and e.func.attr == "sum" and not e.args and not e.keywords:
        return e.func.value
    return None


def r_convexweights(idx, rep, modules, rule="R-CONVEXWEIGHTS", floor=1):
    rep.rule(rule, "a weighted mean of points `w.dot(P)` / `np.dot(w, P)` / `w @ P` (P: rows of points) with w = x / D is a point of the affine hull only when the weights "
                   "sum to one, i.e. D is the SUM of x; with any other normaliser (a norm, a maximum, a constant) the result is scaled about the coordinate origin: it is no point "
                   "of the body and it does not move with the scene under a translation", floor=floor)
    for mname in modules:
        m = idx.module(mname)
        for f in sorted(m.functions.values(), key=lambda f: f.key):
            for c in ast.walk(f.node):
                w = P = None
                if isinstance(c, ast.Call) and isinstance(c.func, ast.Attribute) and c.func.attr == "dot" and len(c.args) == 1 and u(c.func.value) not in ("np", "numpy"):
                    w, P = c.func.value, c.args[0]
                elif isinstance(c, ast.Call) and (call_name(c) or "") == "np.dot" and len(c.args) == 2:
                    w, P = c.args
                elif isinstance(c, ast.BinOp) and isinstance(c.op, ast.MatMult):
                    w, P = c.left, c.right
                elif isinstance(c, ast.Call) and (call_name(c) or "") == "np.average" and c.args and isinstance(c.args[0], ast.Name) and _is_point_rows(c.args[0].id) \
                        and any(k.arg == "weights" for k in c.keywords):
                    rep.ok(rule, "%s|weighted mean `%s`" % (f.key, u(c)[:60]), "%s:%d" % (f.module.relpath, c.lineno), "np.average normalises by the sum of the weights")
                    continue
                if w is None or not (isinstance(P, ast.Name) and _is_point_rows(P.id)):
                    continue
                wd = resolved(f.node, w) if isinstance(w, ast.Name) else w
                if not (isinstance(wd, ast.BinOp) and isinstance(wd.op, ast.Div)):
                    continue
                x, D = wd.left, wd.right
                xd = resolved(f.node, x) if isinstance(x, ast.Name) else x
                if (isinstance(xd, ast.BinOp) and isinstance(xd.op, ast.Sub)) or any(w_ in u(x).lower() for w_ in ("dir", "normal", "axis")):
                    continue          # a normalised difference / direction is a unit vector, not a set of weights: its product with a matrix is a projection
                Dd = resolved(f.node, D) if isinstance(D, ast.Name) else D
                key = "%s|weights of the mean `%s`" % (f.key, u(c)[:60])
                where = "%s:%d" % (f.module.relpath, c.lineno)
                s = _sum_of(Dd)
                if s is not None and u(s) == u(x):
                    rep.ok(rule, key, where, "weights `%s` sum to one" % u(wd)[:60])
                elif isinstance(Dd, ast.Name) and Dd.id in f.params():
                    rep.unknown(rule, key, where, "the normaliser `%s` is a parameter" % Dd.id)
                else:
                    rep.bad(rule, key, where,
                            "the weights `%s` of the mean `%s` are normalised by `%s`, not by their sum: they do not sum to one, so the result is not the weighted centre of the rows of `%s` "
                            "but that centre scaled about the coordinate origin (by sum(x) / %s) — e.g. equal potentials on a tetrahedron give 2 x centroid with the Euclidean norm"
                            % (u(wd)[:60], u(c)[:50], u(Dd)[:40], P.id, u(Dd)[:30]))


# ---------------------------------------------------------------------------------------------------------------------- R-AXISUNIFORM
def _axis_terms(chain):
    """for a boolean chain of comparisons over box-like arrays `X[k, c]`: {axis k: sorted normalised terms}, or None when a term does not name exactly one axis"""
    import re
    groups = {}
    for t in chain:
        if not isinstance(t, ast.Compare):
            return None
        axes = set()
        two_d = False
        for n in ast.walk(t):
            if isinstance(n, ast.Subscript):
                if isinstance(n.slice, ast.Tuple) and len(n.slice.elts) >= 2 and all(isinstance(const(e), int) for e in n.slice.elts[-2:]):
                    axes.add(const(n.slice.elts[-2]))          # `X[k, c]`, also `X[i, k, c]` (a row alias `x = X[i]` is analysed in its direct form)
                    two_d = True
                elif isinstance(const(n.slice), int) and not isinstance(const(n.slice), bool):
                    axes.add(const(n.slice))
        if len(axes) != 1 or not two_d:
            return None
        k = axes.pop()
        txt = u(t)
        txt = re.sub(r"\b%d, (\d+)\]" % k, r"K, \1]", txt)
        txt = re.sub(r"\[%d\]" % k, "[K]", txt)
        groups.setdefault(k, []).append(txt)
    return {k: sorted(v) for k, v in groups.items()}


def r_axisuniform(idx, rep, modules, rule="R-AXISUNIFORM", floor=1):
    rep.rule(rule, "a hand-unrolled per-axis test over boxes (`a[0, 0] <= b[0, 1] and a[0, 1] >= b[0, 0] and a[1, 0] <= ...`) treats the three axes alike: with the axis index "
                   "replaced by K the groups of terms for axis 0, 1 and 2 are the same.  One axis tested with another column / another operand is a copy-paste slip that "
                   "makes the test wrong for boxes that differ along that axis only", floor=floor)
    for mname in modules:
        m = idx.module(mname)
        for f in sorted(m.functions.values(), key=lambda f: f.key):
            seen = set()
            for c in ast.walk(f.node):
                if not (isinstance(c, ast.BoolOp) and len(c.values) >= 6) or id(c) in seen:
                    continue
                g = _axis_terms(c.values)
                if g is None or set(g) != {0, 1, 2}:
                    continue
                key = "%s|per-axis chain `%s`" % (f.key, u(c)[:60])
                where = "%s:%d" % (f.module.relpath, c.lineno)
                if g[0] == g[1] == g[2]:
                    rep.ok(rule, key, where, "%d terms per axis" % len(g[0]))
                else:
                    odd = [k for k in (0, 1, 2) if sum(g[k] == g[j] for j in (0, 1, 2)) == 1]
                    k = odd[0] if len(odd) == 1 else 2
                    rep.bad(rule, key, where, "the terms for axis %d are %s, for the other axes %s: the axes are not treated alike — boxes that differ only along axis %d are "
                                              "classified wrongly" % (k, g[k], g[(k + 1) % 3], k))


# ---------------------------------------------------------------------------------------------------------------------- R-TWOSIDED
def r_twosided(idx, rep, modules, rule="R-TWOSIDED", floor=1):
    rep.rule(rule, "a containment predicate of a FLAT shape rejects points off the shape's plane on both sides: the signed plane distance `(p - c) . n` is compared with the "
                   "tolerance through its absolute value (or by a two-sided test)", floor=floor)
    for mname in modules:
        m = idx.module(mname)
        for f in sorted(m.functions.values(), key=lambda f: f.key):
            for c in ast.walk(f.node):
                if not (isinstance(c, ast.Compare) and len(c.ops) == 1 and isinstance(c.ops[0], (ast.Gt, ast.GtE, ast.Lt, ast.LtE))):
                    continue
                big, small = (c.left, c.comparators[0]) if isinstance(c.ops[0], (ast.Gt, ast.GtE)) else (c.comparators[0], c.left)
                if "EPSILON" not in u(small) and "eps" not in u(small).lower() and "tol" not in u(small).lower():
                    continue
                inner, absolute = big, False
                while isinstance(inner, ast.Call) and (call_name(inner) or "") in ("np.abs", "abs", "np.fabs", "np.absolute") and inner.args:
                    inner, absolute = inner.args[0], True
                d = resolved(f.node, inner) if isinstance(inner, ast.Name) else inner
                while isinstance(d, ast.Call) and (call_name(d) or "") in ("np.abs", "abs", "np.fabs", "np.absolute") and d.args:
                    d, absolute = d.args[0], True
                ops = None
                if isinstance(d, ast.Call) and isinstance(d.func, ast.Attribute) and d.func.attr == "dot" and len(d.args) == 1 and u(d.func.value) != "np":
                    ops = [d.func.value, d.args[0]]
                elif isinstance(d, ast.Call) and (call_name(d) or "") == "np.dot" and len(d.args) == 2:
                    ops = list(d.args)
                if ops is None or not any("normal" in u(o).lower() for o in ops):
                    continue
                key = "%s|plane distance test `%s`" % (f.key, u(c)[:70])
                where = "%s:%d" % (f.module.relpath, c.lineno)
                if absolute:
                    rep.ok(rule, key, where, "absolute value")
                else:
                    # a second comparison of the same quantity against the negated tolerance makes the test two-sided
                    other = [x for x in ast.walk(f.node) if isinstance(x, ast.Compare) and x is not c and u(inner) in u(x) and "-" in u(x)]
                    if other:
                        rep.unknown(rule, key, where, "no absolute value; a second test `%s` may cover the other side" % u(other[0])[:60])
                    else:
                        rep.bad(rule, key, where, "`%s` compares the SIGNED distance `%s` to the plane with the tolerance: points on the side opposite to the normal are never "
                                                  "rejected, however far from the plane they are — the flat shape contains a half-infinite prism" % (u(c)[:80], u(d)[:50]))


# ---------------------------------------------------------------------------------------------------------------------- R-DISTINCT
def r_distinct(idx, rep, modules, rule="R-DISTINCT", floor=0):
    rep.rule(rule, "two points are different when ANY coordinate differs: a per-coordinate distinctness test `abs(p[k] - q[k]) > eps` over several k is joined by `or` (or is a norm / "
                   "maximum of the difference).  Joined by `and` it asks for a difference in EVERY coordinate: points that share one coordinate are taken for duplicates", floor=floor)
    for mname in modules:
        m = idx.module(mname)
        for f in sorted(m.functions.values(), key=lambda f: f.key):
            for c in ast.walk(f.node):
                if not (isinstance(c, ast.BoolOp) and len(c.values) >= 2):
                    continue
                terms = []
                for t in c.values:
                    if isinstance(t, ast.Compare) and len(t.ops) == 1 and isinstance(t.ops[0], (ast.Gt, ast.GtE)) and isinstance(t.left, ast.Call) \
                            and (call_name(t.left) or "") in ("abs", "np.abs", "np.fabs", "math.fabs") and t.left.args \
                            and isinstance(t.left.args[0], ast.BinOp) and isinstance(t.left.args[0].op, ast.Sub):
                        a, b = t.left.args[0].left, t.left.args[0].right
                        if isinstance(a, ast.Subscript) and isinstance(b, ast.Subscript) and u(a.value) == u(b.value):
                            ka = a.slice.elts[-1] if isinstance(a.slice, ast.Tuple) else a.slice
                            kb = b.slice.elts[-1] if isinstance(b.slice, ast.Tuple) else b.slice
                            if isinstance(const(ka), int) and const(ka) == const(kb):
                                terms.append(const(ka))
                if len(terms) < 2 or len(set(terms)) < 2 or len(terms) != len(c.values):
                    continue
                key = "%s|per-coordinate distinctness `%s`" % (f.key, u(c)[:60])
                where = "%s:%d" % (f.module.relpath, c.lineno)
                if isinstance(c.op, ast.Or):
                    rep.ok(rule, key, where, "any coordinate")
                else:
                    rep.bad(rule, key, where, "`%s` keeps a point only when it differs from its predecessor in EVERY one of the coordinates %s: a vertex that shares one coordinate "
                                              "with the previous vertex (an edge parallel to a basis axis) is dropped as a duplicate" % (u(c)[:90], sorted(set(terms))))


# ---------------------------------------------------------------------------------------------------------------------- R-AXISSCALE
def _rotation_of(f, e):
    """(pose name, transposed?) when e is `P[:3, :3]`, `P[:3, :3].T`, `np.transpose(P[:3, :3])` or a local bound to one of them"""
    if isinstance(e, ast.Name):
        e = resolved(f.node, e) or e
    tr = False
    while True:
        if isinstance(e, ast.Attribute) and e.attr == "T":
            e, tr = e.value, not tr
        elif isinstance(e, ast.Call) and (call_name(e) or "") == "np.transpose" and len(e.args) == 1:
            e, tr = e.args[0], not tr
        else:
            break
    if isinstance(e, ast.Subscript) and isinstance(e.slice, ast.Tuple) and len(e.slice.elts) == 2 and all(isinstance(x, ast.Slice) and const(x.upper) == 3 and x.lower is None for x in e.slice.elts) \
            and isinstance(e.value, (ast.Name, ast.Attribute)) and "2" in u(e.value).split(".")[-1]:
        return u(e.value), tr
    return None


def r_axisscale(idx, rep, modules, rule="R-AXISSCALE", floor=0):
    rep.rule(rule, "per-axis sizes of a shape scale the shape's OWN axes: in a broadcast product of the rotation block R = pose[:3, :3] (columns = the shape's axes in the world) "
                   "with a size vector s, `R * s` scales the columns — right — and `R.T * s` scales the columns of the transpose, i.e. the WORLD axes; the transposed block needs "
                   "`R.T * s[:, np.newaxis]`", floor=floor)
    for mname in modules:
        m = idx.module(mname)
        for f in sorted(m.functions.values(), key=lambda f: f.key):
            for c in ast.walk(f.node):
                if not (isinstance(c, ast.BinOp) and isinstance(c.op, ast.Mult)):
                    continue
                for R, s in ((c.left, c.right), (c.right, c.left)):
                    r = _rotation_of(f, R)
                    if r is None:
                        continue
                    column_vector = isinstance(s, ast.Subscript) and isinstance(s.slice, ast.Tuple) and len(s.slice.elts) == 2 and isinstance(s.slice.elts[0], ast.Slice) \
                        and u(s.slice.elts[1]) in ("np.newaxis", "None")
                    base = s.value if column_vector else s
                    if not (isinstance(base, ast.Name) and any(w in base.id.lower() for w in ("size", "length", "radii", "extent", "scale"))):
                        continue
                    key = "%s|axis scaling `%s`" % (f.key, u(c)[:60])
                    where = "%s:%d" % (f.module.relpath, c.lineno)
                    scales_columns = not column_vector
                    if scales_columns != r[1]:          # R * s (columns of R) or R.T * s[:, None] (rows of R.T = columns of R)
                        rep.ok(rule, key, where, "scales the shape's own axes")
                    else:
                        rep.bad(rule, key, where, "`%s` scales the %s of %s%s by the per-axis sizes `%s`: that stretches the shape along the WORLD axes, not along its own — right "
                                                  "only for unrotated poses or equal sizes" % (u(c)[:70], "columns" if scales_columns else "rows", r[0] + "[:3, :3]", ".T" if r[1] else "", u(base)))
                    break
