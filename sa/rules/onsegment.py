"""R-ONSEGMENT (C10: 'closest points lie on their primitives'): a point built as  start + p * d  with d = end - start (p in [0, 1]) or with
(d, L) = convert_segment_to_line(start, end) (p in [0, L]) lies on the segment only if p was clamped into that range on EVERY path that
reaches the construction.  Forward must-analysis over the structured ast: facts (p >= 0, p <= U) are established by constants,
min/max/np.clip clamps and by the else-sides of `p < 0` / `p > U` tests (incl. chained 0 <= p <= U), and are joined by AND at merges."""
import ast

from ..core.astutil import u, call_name, const, ncmp, is_const


def _segments(f):
    """{direction name: (start text, upper bound text)}"""
    out = {}
    params = f.params()
    for st in ast.walk(f.node):
        if not isinstance(st, ast.Assign) or len(st.targets) != 1:
            continue
        t, v = st.targets[0], st.value
        if isinstance(t, ast.Name) and isinstance(v, ast.BinOp) and isinstance(v.op, ast.Sub) and isinstance(v.left, ast.Name) and isinstance(v.right, ast.Name) \
                and v.left.id in params and v.right.id in params and "end" in v.left.id and "start" in v.right.id:
            out[t.id] = (v.right.id, "1.0")
        if isinstance(t, ast.Tuple) and len(t.elts) == 2 and all(isinstance(e, ast.Name) for e in t.elts) and isinstance(v, ast.Call) \
                and (call_name(v) or "").endswith("convert_segment_to_line") and len(v.args) == 2 and isinstance(v.args[0], ast.Name):
            out[t.elts[0].id] = (v.args[0].id, t.elts[1].id)
    return out


def _is_zero(e):
    return is_const(e, 0) or is_const(e, 0.0)


class _Range:
    def __init__(self, f, segs, rep, rule, idx=None):
        self.idx = idx
        self.f, self.segs, self.rep, self.rule = f, segs, rep, rule
        self.n = 0

    def upper_ok(self, e, U):
        return u(e) == U or (U == "1.0" and (is_const(e, 1) or is_const(e, 1.0)))

    def clamp(self, v, U, st=None):
        """(lo_ok, hi_ok) of an expression assigned to a parameter variable, for the bound U"""
        if isinstance(v, ast.Constant) and isinstance(v.value, (int, float)):
            return v.value >= 0, (v.value <= 1 if U == "1.0" else v.value == 0)
        if isinstance(v, ast.Name) and v.id == U:
            return True, True
        if isinstance(v, ast.Name) and st is not None and v.id in st:
            return st[v.id]          # a copy of a variable whose confinement is known (`s = s_clamped`)
        if isinstance(v, ast.Call):
            cn = call_name(v) or ""
            if cn in ("min", "np.minimum") and len(v.args) == 2:
                for a, b in ((v.args[0], v.args[1]), (v.args[1], v.args[0])):
                    if self.upper_ok(b, U):
                        lo, _ = self.clamp(a, U)
                        return lo, True
            if cn in ("max", "np.maximum") and len(v.args) == 2:
                for a, b in ((v.args[0], v.args[1]), (v.args[1], v.args[0])):
                    if _is_zero(b):
                        _, hi = self.clamp(a, U)
                        return True, hi
            if cn == "np.clip" and len(v.args) == 3:
                return _is_zero(v.args[1]), self.upper_ok(v.args[2], U)
            # a private helper with several exits (`if parallel: return 0.0` ... `return clamp(x)`): confined iff every value it returns is
            if self.idx is not None and U == "1.0" and getattr(self, "_depth", 0) < 2:
                callee = self.idx.resolve_call(self.f.module, v, None)
                node = getattr(callee, "node", None)
                if isinstance(node, ast.FunctionDef) and getattr(callee, "cls", None) is None and callee.name.startswith("_"):
                    from ..core.inline import expand_helpers as _expand
                    rets = [r.value for r in ast.walk(node) if isinstance(r, ast.Return) and r.value is not None]
                    if rets and not any(isinstance(r, ast.Tuple) for r in rets):
                        self._depth = getattr(self, "_depth", 0) + 1
                        try:
                            rs = [self.clamp(_expand(self.idx, callee.module, r, depth=2, only=lambda c: c.name.startswith("_")), U) for r in rets]
                        finally:
                            self._depth -= 1
                        return all(x[0] for x in rs), all(x[1] for x in rs)
        return False, False

    def run(self):
        self.block(self.f.node.body, {})

    def bounds_for(self, name):
        """upper bounds this variable is used with (a variable may parametrise one segment)"""
        us = set()
        for node in ast.walk(self.f.node):
            if isinstance(node, ast.BinOp) and isinstance(node.op, ast.Mult):
                for p, d in ((node.left, node.right), (node.right, node.left)):
                    if isinstance(p, ast.Name) and p.id == name and isinstance(d, ast.Name) and d.id in self.segs:
                        us.add(self.segs[d.id][1])
        return us

    def block(self, body, st):
        for s in body:
            st = self.stmt(s, st)
            if st is None:
                return None
        return st

    def refine(self, test, st, positive):
        """facts added when `test` is known to be true (positive) / false"""
        st = dict(st)
        # not X: the opposite;  A and B true: both true;  A or B false: both false (one-sided outcomes add nothing)
        if isinstance(test, ast.UnaryOp) and isinstance(test.op, ast.Not):
            return self.refine(test.operand, st, not positive)
        if isinstance(test, ast.BoolOp):
            if isinstance(test.op, ast.And) == positive:
                for v in test.values:
                    st = self.refine(v, st, positive)
            return st
        if isinstance(test, ast.Compare) and len(test.ops) == 2 and positive:
            # a <= p <= U
            a, p, b = test.left, test.comparators[0], test.comparators[1]
            if isinstance(p, ast.Name) and all(isinstance(o, (ast.LtE, ast.Lt)) for o in test.ops):
                lo, hi = st.get(p.id, (False, False))
                if _is_zero(a):
                    lo = True
                for U in self.bounds_for(p.id) or {"1.0"}:
                    if self.upper_ok(b, U):
                        hi = True
                st[p.id] = (lo, hi)
            return st
        t = ncmp(test)
        if t is None:
            return st
        op, a, b = t      # a < b  or a <= b
        if op not in ("<", "<="):
            return st
        if isinstance(a, ast.Name) and _is_zero(b) and not positive:
            lo, hi = st.get(a.id, (False, False))       # not (p < 0)  ->  p >= 0
            st[a.id] = (True, hi)
        if isinstance(b, ast.Name) and _is_zero(a) and positive:
            lo, hi = st.get(b.id, (False, False))       # 0 <= p
            st[b.id] = (True, hi)
        if isinstance(b, ast.Name) and not positive:
            for U in self.bounds_for(b.id) or {"1.0"}:
                if self.upper_ok(a, U):                 # not (U < p)  ->  p <= U
                    lo, hi = st.get(b.id, (False, False))
                    st[b.id] = (lo, True)
        if isinstance(a, ast.Name) and positive:
            for U in self.bounds_for(a.id) or {"1.0"}:
                if self.upper_ok(b, U):                 # p <= U
                    lo, hi = st.get(a.id, (False, False))
                    st[a.id] = (lo, True)
        return st

    def join(self, s1, s2):
        if s1 is None:
            return s2
        if s2 is None:
            return s1
        out = {}
        for k in set(s1) | set(s2):
            a, b = s1.get(k, (False, False)), s2.get(k, (False, False))
            out[k] = (a[0] and b[0], a[1] and b[1])
        return out

    def stmt(self, s, st):
        if isinstance(s, ast.Assign):
            self.uses(s.value, st)
            from ..core.astutil import assign_pairs
            st0 = st
            for e, val in assign_pairs(s):          # element-wise also for `s, t = (a, b)`
                if isinstance(e, ast.Name):
                    st = dict(st)
                    us = self.bounds_for(e.id) or {"1.0"}
                    r = [self.clamp(val, U, st0) for U in us]
                    st[e.id] = (all(x[0] for x in r), all(x[1] for x in r))
                elif isinstance(e, (ast.Tuple, ast.List)):
                    st = dict(st)
                    for x in e.elts:          # unpacking a call result: nothing known
                        if isinstance(x, ast.Name):
                            st[x.id] = (False, False)
            return st
        if isinstance(s, ast.AugAssign):
            if isinstance(s.target, ast.Name):
                st = dict(st)
                st[s.target.id] = (False, False)
            return st
        if isinstance(s, ast.If):
            s1 = self.block(s.body, self.refine(s.test, st, True))
            s2 = self.block(s.orelse, self.refine(s.test, st, False))
            if s1 is None and s2 is None:
                return None
            return self.join(s1, s2)
        if isinstance(s, (ast.For, ast.While)):
            # conservatively: facts about variables assigned in the loop are dropped before and after
            assigned = {n.id for x in ast.walk(s) for n in ast.walk(x) if isinstance(n, ast.Name) and isinstance(n.ctx, ast.Store)}
            st = {k: v for k, v in st.items() if k not in assigned}
            self.block(s.body, dict(st))
            return st
        if isinstance(s, ast.Return):
            if s.value is not None:
                self.uses(s.value, st)
            return None
        if isinstance(s, ast.Raise):
            return None
        if isinstance(s, ast.Expr):
            self.uses(s.value, st)
        return st

    def uses(self, e, st):
        for node in ast.walk(e):
            if not (isinstance(node, ast.BinOp) and isinstance(node.op, ast.Add)):
                continue
            for a, b in ((node.left, node.right), (node.right, node.left)):
                if isinstance(a, ast.Name) and isinstance(b, ast.BinOp) and isinstance(b.op, ast.Mult):
                    for p, d in ((b.left, b.right), (b.right, b.left)):
                        if isinstance(d, ast.Name) and d.id in self.segs and self.segs[d.id][0] == a.id:
                            self.n += 1
                            U = self.segs[d.id][1]
                            key = "%s|point %s + p * %s on the segment" % (self.f.key, a.id, d.id)
                            where = "%s:%d" % (self.f.module.relpath, node.lineno)
                            if isinstance(p, ast.Name):
                                lo, hi = st.get(p.id, (False, False))
                            else:
                                lo, hi = self.clamp(p, U)
                            self.rep.check(lo and hi, self.rule, key, where,
                                           "`%s` is returned as a point of the segment, but on some path that reaches it the parameter `%s` is not confined to [0, %s] "
                                           "(%s): the 'closest point on the segment' can lie on the infinite line outside the segment"
                                           % (u(node), u(p), U, "lower bound missing" if not lo else "upper bound missing"), "parameter in [0, %s] on every path" % U)


def r_onsegment(idx, rep, modules, rule="R-ONSEGMENT", floor=4):
    rep.rule(rule, "points returned as 'closest point on the segment' are start + p * d with p clamped into [0, 1] (d = end - start) or [0, L] "
                   "((d, L) = convert_segment_to_line) on every path (must-analysis with branch refinement)", floor=floor)
    for mname in modules:
        m = idx.modules.get(mname)
        if m is None:
            continue
        for f in m.functions.values():
            segs = _segments(f)
            if segs:
                # one-expression helpers (`_clamp_to_unit_interval(x)` = min(max(x, 0.0), 1.0)) are read as the expression they return
                import copy as _copy
                from ..core.inline import expand_helpers as _expand
                from ..core.inline import inline_single_exit_helpers as _open
                g = _copy.copy(f)
                # private single-exit helpers that compute the parameters (`s, t = _segment_and_line_parameters(a, b, c, e, f)`: an if / else around the clamp and one
                # tuple return) are opened at the call site first
                node = _open(idx, f.module, f.node, only=lambda c: getattr(c, "module", None) is f.module and c.name.startswith("_") and getattr(c, "cls", None) is None, depth=2)
                g.node = _expand(idx, f.module, node, depth=2, only=lambda c: c.name.startswith("_"))
                _Range(g, segs, rep, rule, idx=idx).run()


def r_clipsym(idx, rep, modules, rule="R-CLIPSYM", floor=4):
    """closest points on boxes / rectangles / cylinders are obtained by clipping local coordinates to the symmetric interval [-h, +h]
    with h HALF the size parameter (the shapes are centred in their frame)"""
    from ..core.astutil import is_neg_of
    rep.rule(rule, "local coordinates of centred shapes are clipped to [-h, +h] with h = 0.5 * <size parameter>: the lower bound is the negation "
                   "of the upper bound and the upper bound is half a size (a one-sided or full-size interval puts the 'closest point' outside the shape)",
             floor=floor)
    for mname in modules:
        m = idx.modules.get(mname)
        if m is None:
            continue
        for f in m.functions.values():
            k = 0
            params = f.params()
            halves = {}
            for st in ast.walk(f.node):
                if isinstance(st, ast.Assign) and len(st.targets) == 1 and isinstance(st.targets[0], ast.Name):
                    halves[st.targets[0].id] = st.value

            def is_half(e, depth=0):
                if isinstance(e, ast.Name):
                    if e.id in halves and depth < 2:
                        return is_half(halves[e.id], depth + 1)
                    return e.id in params and "half" in e.id
                if isinstance(e, ast.Subscript):
                    return is_half(e.value, depth)
                if isinstance(e, ast.BinOp) and isinstance(e.op, ast.Mult):
                    return (is_const(e.left, 0.5) and _sizeish(e.right)) or (is_const(e.right, 0.5) and _sizeish(e.left))
                if isinstance(e, ast.BinOp) and isinstance(e.op, ast.Div):
                    return (is_const(e.right, 2) or is_const(e.right, 2.0)) and _sizeish(e.left)
                return False

            def _sizeish(e):
                base = e
                while isinstance(base, ast.Subscript):
                    base = base.value
                return isinstance(base, ast.Name) and base.id in params
            def as_clip(c_):
                """(x, lo, hi) of a clamp however it is written, else None"""
                if isinstance(c_, ast.Call) and call_name(c_) == "np.clip" and len(c_.args) == 3:
                    return tuple(c_.args)
                if isinstance(c_, ast.Call) and call_name(c_) in ("min", "np.minimum") and len(c_.args) == 2:
                    for inner, hi_ in ((c_.args[0], c_.args[1]), (c_.args[1], c_.args[0])):
                        if isinstance(inner, ast.Call) and call_name(inner) in ("max", "np.maximum") and len(inner.args) == 2:
                            for x_, lo_ in ((inner.args[0], inner.args[1]), (inner.args[1], inner.args[0])):
                                if isinstance(lo_, ast.UnaryOp) and isinstance(lo_.op, ast.USub):
                                    return (x_, lo_, hi_)
                if isinstance(c_, ast.Call) and call_name(c_) in ("max", "np.maximum") and len(c_.args) == 2:
                    for inner, lo_ in ((c_.args[0], c_.args[1]), (c_.args[1], c_.args[0])):
                        if isinstance(inner, ast.Call) and call_name(inner) in ("min", "np.minimum") and len(inner.args) == 2 and isinstance(lo_, ast.UnaryOp) and isinstance(lo_.op, ast.USub):
                            for x_, hi_ in ((inner.args[0], inner.args[1]), (inner.args[1], inner.args[0])):
                                if u(hi_) == u(lo_.operand) or isinstance(hi_, (ast.Subscript, ast.Name)):
                                    return (x_, lo_, hi_)
                return None
            for c in ast.walk(f.node):
                clip_ = as_clip(c)
                if clip_ is not None and (call_name(c) == "np.clip" or (isinstance(clip_[2], (ast.Subscript, ast.Name)) and is_half(clip_[2]))):
                    class _C:          # the clamp in np.clip form: the clauses below read args[0..2]
                        args = list(clip_)
                        lineno = c.lineno
                    c_orig, c = c, _C
                    k += 1
                    key = "%s|np.clip #%d symmetric half-size interval" % (f.key, k)
                    where = "%s:%d" % (m.relpath, c.lineno)
                    lo, hi = c.args[1], c.args[2]
                    sym = is_neg_of(lo, hi)
                    if not sym and isinstance(lo, ast.BinOp) and isinstance(hi, ast.BinOp) and isinstance(lo.op, ast.Mult) and isinstance(hi.op, ast.Mult):
                        # -0.5 * L  vs  0.5 * L
                        for (cl, xl), (ch, xh) in (((lo.left, lo.right), (hi.left, hi.right)), ((lo.right, lo.left), (hi.right, hi.left))):
                            vl, vh = const(cl), const(ch)
                            if isinstance(vl, (int, float)) and isinstance(vh, (int, float)) and vl == -vh and vh > 0 and u(xl) == u(xh):
                                sym = True
                    half = is_half(hi)
                    rep.check(sym and half, rule, key, where,
                              "`%s`: %s" % (u(c_orig)[:90], "the lower bound is not the negation of the upper bound" if not sym else
                                            "the upper bound is not half of a size parameter (0.5 * size): the shape is centred in its frame, its extent is +-size/2"),
                              "[-h, +h], h = half size")
                    # the clipped coordinates and the bound select the SAME components: x[I] against h[I]
                    def sel(e, depth=0):
                        """index text of the outermost selection of an array expression (through one local definition), or None for the whole array"""
                        if isinstance(e, ast.UnaryOp):
                            return sel(e.operand, depth)
                        if isinstance(e, ast.Name) and e.id in halves and depth < 2 and not (e.id in params):
                            return sel(halves[e.id], depth + 1)
                        if isinstance(e, ast.BinOp) and isinstance(e.op, (ast.Mult, ast.Div)):
                            a_, b_ = sel(e.left, depth), sel(e.right, depth)
                            return a_ if a_ is not None else b_
                        if isinstance(e, ast.Subscript):
                            ix = e.slice
                            if isinstance(ix, ast.Name) and ix.id in halves and not (ix.id in params):
                                ix = halves[ix.id]
                            return u(ix).replace(" ", "")
                        return None
                    sx, sh = sel(c.args[0]), sel(hi)
                    if sx is not None and sh is not None:
                        rep.check(sx == sh, rule, "%s|np.clip #%d coordinates and bound select the same components" % (f.key, k), where,
                                  "`%s` clips the components [%s] against the half sizes of the components [%s]: each coordinate is bounded by the extent of ITS OWN axis "
                                  "(numpy broadcasting hides the mismatch)" % (u(c_orig)[:100], sx, sh), "[%s]" % sx)


CENTRED = ("cylinder", "capsule", "box", "rectangle")
SIZE_WORDS = ("length", "height", "size", "lengths")


def r_halfsize(idx, rep, modules, rule="R-HALFSIZE", floor=5):
    """cylinder / capsule / box / rectangle are centred in their frame: their extent along a sized axis is +-size/2.  A function that
    halves a size parameter somewhere uses it halved everywhere (apart from handing it on to another library function); a bare `length`
    next to `0.5 * length` is the full-size-for-half-size slip."""
    from ..core.astutil import parent_map
    rep.rule(rule, "functions of centred shapes (cylinder, capsule, box, rectangle) that use 0.5 * size somewhere never use the bare size in "
                   "arithmetic / comparisons / min / max (full extent where the half extent is meant)", floor=floor)
    for mname in modules:
        m = idx.modules.get(mname)
        if m is None:
            continue
        for f in m.functions.values():
            if not any(w in f.name.lower() or (f.cls is not None and w in f.cls.name.lower()) for w in CENTRED):
                continue
            ps = [p for p in f.params() if any(w in p for w in SIZE_WORDS) and "segment" not in p]
            if not ps:
                continue
            pm = parent_map(f.node)

            def halved(node):
                p = pm.get(node)
                while isinstance(p, ast.Subscript) and p.value is node:
                    node, p = p, pm.get(p)
                if isinstance(p, ast.BinOp) and isinstance(p.op, ast.Mult):
                    other = p.right if p.left is node else p.left
                    v = const(other)
                    if isinstance(v, float) and abs(v) == 0.5:
                        return True
                if isinstance(p, ast.BinOp) and isinstance(p.op, ast.Div) and p.left is node and const(p.right) in (2, 2.0):
                    return True
                return False

            def passed_on(node):
                p = pm.get(node)
                while isinstance(p, ast.Subscript) and p.value is node:
                    node, p = p, pm.get(p)
                if isinstance(p, ast.keyword):
                    return True
                if isinstance(p, ast.Call) and node in p.args:
                    cn = call_name(p) or ""
                    return cn.split(".")[-1] not in ("min", "max", "minimum", "maximum", "clip")
                return False
            for p in ps:
                uses = [n for n in ast.walk(f.node) if isinstance(n, ast.Name) and n.id == p and isinstance(n.ctx, ast.Load)]
                h = [n for n in uses if halved(n)]
                if not h:
                    continue
                bare = [n for n in uses if not halved(n) and not passed_on(n)]
                key = "%s|%s is used halved throughout" % (f.key, p)
                rep.check(not bare, rule, key, "%s:%d" % (m.relpath, (bare[0].lineno if bare else f.node.lineno)),
                          "`%s` is halved elsewhere in %s but used at full size in `%s`: the shape is centred, its extent along that axis is +-%s/2"
                          % (p, f.name, u(pm.get(bare[0]))[:70] if bare else "", p), "halved in all %d uses" % len(h))
