"""E6 role flow for the distance package (C10, C12).

R-TRIPLE  the returned (distance, point, point) are bound TOGETHER: every block that rebinds one of the returned names rebinds
          all of them, from one source event (one callee call, or copies of names bound by one call, the remaining point
          being an argument of that call).  A composite can therefore not mix the distance of one sub-query with the point of
          another.
R-ROLE    the point returned in position 1 lies on the FIRST primitive of `<A>_to_<B>` and the one in position 2 on the second:
          callee results are mapped through the argument groups of each call (so a call that passes the second primitive first
          must swap on assignment); a provable swap is a violation; all return statements of a function agree.
"""
import ast

from ..core.astutil import u, call_name, iter_stmts, const, parent_map, assign_pairs
from ..core.peval import peval
from ..core.index import FuncInfo, AnalysisError

ARITY = {"point": 1, "line": 2, "line_segment": 2, "plane": 2, "triangle": 1, "rectangle": 3, "circle": 3, "disk": 3, "box": 2,
         "ellipsoid": 2, "cylinder": 3}
SENTINELS = ("MAX_FLOAT", "np.finfo(float).max", "np.inf", "float('inf')", "math.inf")

DIST_MODS = ["distance3d.distance._line", "distance3d.distance._plane", "distance3d.distance._triangle", "distance3d.distance._rectangle",
             "distance3d.distance._box", "distance3d.distance._line_to_box", "distance3d.distance._circle", "distance3d.distance._disk",
             "distance3d.distance._ellipsoid", "distance3d.distance._cylinder"]


ROLE_EXCEPTIONS = {
    "distance3d.distance._line::_line_to_line_segment|return (np.linalg.norm(line_point, segment_start, line_point)":
        "exit `a < epsilon and e < epsilon` needs dot(line_direction, line_direction) < epsilon, impossible for the unit directions of domain P",
}


def parse_name(name):
    """'_line_segment_to_plane' -> ('line_segment', 'plane') or None"""
    n = name.lstrip("_")
    if "_to_" not in n:
        return None
    a, b = n.split("_to_", 1)
    for suffix in ("_faces",):
        if b.endswith(suffix):
            b = b[: -len(suffix)]
    if a in ARITY and b in ARITY:
        return a, b
    return None


def param_groups(f):
    """{param name: 1 | 2} from the `<A>_to_<B>` naming and the primitive arity table"""
    pn = parse_name(f.name)
    if pn is None:
        return None
    ps = f.params()
    ka, kb = ARITY[pn[0]], ARITY[pn[1]]
    if len(ps) < ka + kb:
        return None
    g = {}
    for p in ps[:ka]:
        g[p] = 1
    for p in ps[ka:ka + kb]:
        g[p] = 2
    return g


class RoleFlow:
    """flow-sensitive: strong updates in statement order, 'mixed' when branches / loop iterations disagree"""

    def __init__(self, idx, f):
        self.idx = idx
        self.f = f
        self.pg = param_groups(f) or {}
        self.role = dict(self.pg)     # name -> 1 | 2 | 'mixed' | None
        self.at_return = {}           # id(return stmt) -> snapshot of roles

    def expr_role(self, node, env=None):
        env = self.role if env is None else env
        roles = set()
        for n in ast.walk(node):
            if isinstance(n, ast.Name) and env.get(n.id) is not None:
                roles.add(env[n.id])
        if "mixed" in roles:
            return "mixed"
        return roles.pop() if len(roles) == 1 else None

    def run(self):
        self._block(self.f.node.body, self.role)

    @staticmethod
    def _merge(a, b):
        out = {}
        for k in set(a) | set(b):
            x, y = a.get(k), b.get(k)
            if x is None:
                out[k] = y
            elif y is None:
                out[k] = x
            else:
                out[k] = x if x == y else "mixed"
        return out

    def _block(self, body, env):
        for st in body:
            if isinstance(st, ast.Assign):
                self._assign(st, env)
            elif isinstance(st, ast.Return):
                self.at_return[id(st)] = dict(env)
            elif isinstance(st, ast.If):
                e1, e2 = dict(env), dict(env)
                self._block(st.body, e1)
                self._block(st.orelse, e2)
                m = self._merge(e1, e2)
                env.clear()
                env.update(m)
            elif isinstance(st, (ast.For, ast.While)):
                for _ in range(2):
                    e1 = dict(env)
                    self._block(st.body, e1)
                    m = self._merge(env, e1)
                    # names (re)bound in the body take the body's value when the pre-state had none
                    env.clear()
                    env.update(m)
            elif isinstance(st, (ast.With, ast.Try)):
                self._block(st.body, env)

    def _assign(self, st, env):
        t = st.targets[0]
        v = st.value
        if isinstance(t, ast.Name):
            env[t.id] = env.get(v.id) if isinstance(v, ast.Name) else self.expr_role(v, env)
            return
        if isinstance(t, ast.Tuple) and isinstance(v, ast.Call):
            callee = self.idx.resolve_call(self.f.module, v, self.f.cls)
            names = [e.id if isinstance(e, ast.Name) else None for e in t.elts]
            pn = parse_name(callee.name) if isinstance(callee, FuncInfo) else None
            if pn is not None:
                ka, kb = ARITY[pn[0]], ARITY[pn[1]]
                ga = self._args_role(v.args[:ka], env)
                gb = self._args_role(v.args[ka:ka + kb], env)
                if pn[0] == "point":
                    if len(names) >= 2 and names[1]:
                        env[names[1]] = gb
                elif len(names) >= 3:
                    if names[1]:
                        env[names[1]] = ga
                    if names[2]:
                        env[names[2]] = gb
                for n in names[3:] + names[:1]:
                    if n:
                        env[n] = None
                return
            r = self._args_role(v.args, env)
            for n in names:
                if n:
                    env[n] = r
            return
        if isinstance(t, ast.Tuple) and isinstance(v, ast.Tuple) and len(t.elts) == len(v.elts):
            vals = [env.get(b.id) if isinstance(b, ast.Name) else self.expr_role(b, env) for b in v.elts]
            for a, r in zip(t.elts, vals):
                if isinstance(a, ast.Name):
                    env[a.id] = r

    def _args_role(self, args, env=None):
        env = self.role if env is None else env
        roles = set()
        for a in args:
            r = self.expr_role(a, env)
            if r is not None:
                roles.add(r)
        if "mixed" in roles:
            return "mixed"
        return roles.pop() if len(roles) == 1 else None


def _returns(f):
    return [s for s in iter_stmts(f.node.body) if isinstance(s, ast.Return) and s.value is not None]


def r_role(idx, rep, rule="R-ROLE", floor=15):
    rep.rule(rule, "closest points are returned in the order of the primitives: position 1 lies on the first, position 2 on the "
                   "second primitive of `<A>_to_<B>` (roles flow through callee calls by argument group and through copies)", floor=floor)
    for mname in DIST_MODS:
        m = idx.module(mname)
        for f in m.functions.values():
            if "<locals>" in f.qualname:
                continue
            pn = parse_name(f.name)
            if pn is None or pn[0] == "point":
                continue
            f = peval(idx, f)       # role-switch loops (`for first in (True, False)`, tables of operands) are the passes they stand for
            # single exit with result variables assigned in both arms of an if / else == early returns: every path gets its own return (tail duplication)
            import copy as _copy
            from ..core.inline import dup_tail as _dup_tail
            f_ = _copy.copy(f)
            f_.node = _dup_tail(f.node)
            f = f_
            rf = RoleFlow(idx, f)
            rf.run()
            _pm = parent_map(f.node)

            def _same_point(ret, a, b):
                """b was bound, in the block of this return, as a plain copy of a (or the other way round): one point that lies on both primitives"""
                if not (isinstance(a, ast.Name) and isinstance(b, ast.Name)):
                    return False
                par = _pm.get(ret)
                for fld in ("body", "orelse"):
                    blk = getattr(par, fld, None)
                    if isinstance(blk, list) and ret in blk:
                        last = {}
                        for st in blk[:blk.index(ret)]:
                            if isinstance(st, ast.Assign):
                                for t_, v_ in assign_pairs(st):
                                    if isinstance(t_, ast.Name):
                                        last[t_.id] = v_
                        va, vb = last.get(a.id), last.get(b.id)
                        return (isinstance(vb, ast.Name) and vb.id == a.id) or (isinstance(va, ast.Name) and va.id == b.id)
                return False
            for r in _returns(f):
                v = r.value
                if isinstance(v, ast.Subscript) and isinstance(v.slice, ast.Slice):
                    continue       # wrapper around the private implementation
                if isinstance(v, ast.Call):
                    # return other_function(args): roles follow from the argument order
                    callee = idx.resolve_call(m, v, None)
                    cpn = parse_name(callee.name) if isinstance(callee, FuncInfo) else None
                    if cpn is None:
                        continue
                    ka, kb = ARITY[cpn[0]], ARITY[cpn[1]]
                    env = rf.at_return.get(id(r), rf.role)
                    ga, gb = rf._args_role(v.args[:ka], env), rf._args_role(v.args[ka:ka + kb], env)
                    key = "%s|return %s" % (f.key, u(v)[:70])
                    where = "%s:%d" % (m.relpath, r.lineno)
                    if ga == 2 and gb == 1:
                        rep.bad(rule, key, where, "%s forwards to %s with the primitives swapped, so the returned points come back in the order "
                                                  "(point on %s, point on %s)" % (f.name, callee.name, pn[1], pn[0]))
                    elif ga in (1, None) and gb in (2, None):
                        (rep.ok if (ga == 1 and gb == 2) else rep.unknown)(rule, key, where, "argument groups (%s, %s)" % (ga, gb))
                    continue
                if not isinstance(v, ast.Tuple) or len(v.elts) < 3:
                    continue
                p1, p2 = v.elts[1], v.elts[2]
                env = rf.at_return.get(id(r), rf.role)
                r1 = env.get(p1.id) if isinstance(p1, ast.Name) else rf.expr_role(p1, env)
                r2 = env.get(p2.id) if isinstance(p2, ast.Name) else rf.expr_role(p2, env)
                key = "%s|return (%s, %s, %s)" % (f.key, u(v.elts[0])[:25], u(p1)[:40], u(p2)[:40])
                where = "%s:%d" % (m.relpath, r.lineno)
                if u(p1) == u(p2) or _same_point(r, p1, p2):
                    rep.ok(rule, key, where, "common point")
                    continue
                if key in ROLE_EXCEPTIONS:
                    rep.note("R-ROLE exception %s: %s" % (key, ROLE_EXCEPTIONS[key]))
                    continue
                if r1 in (2, "mixed") or r2 in (1, "mixed"):
                    rep.bad(rule, key, where,
                            "position 1 (`%s`) lies on the %s primitive and position 2 (`%s`) on the %s primitive of %s: the closest points are "
                            "returned in swapped order (a callee was given the primitives in the other order and its results were not swapped back)"
                            % (u(p1), {1: "first", 2: "second", None: "?", "mixed": "first on some paths and the second on others"}[r1], u(p2), {1: "first", 2: "second", None: "?", "mixed": "first on some paths and the second on others"}[r2], f.name))
                elif r1 == 1 and r2 == 2:
                    rep.ok(rule, key, where, "roles (first, second)")
                else:
                    rep.unknown(rule, key, where, "roles (%s, %s): leaf arithmetic" % (r1, r2))


def r_roleagree(idx, rep, rule="R-ROLEAGREE", floor=1):
    rep.rule(rule, "private helpers that return (d, p, q) through several return statements return the two points in the same "
                   "order on every path (point of the plane / of the point set ...)", floor=floor)
    f = idx.func("distance3d.distance._plane::_plane_to_convex_hull_points")
    ps = f.params()
    plane, pts = set(ps[:2]), {ps[2]}
    orders = []
    for r in _returns(f):
        v = r.value
        if isinstance(v, ast.Call):
            callee = idx.resolve_call(f.module, v, None)
            cpn = parse_name(callee.name) if isinstance(callee, FuncInfo) else None
            if cpn:
                ka, kb = ARITY[cpn[0]], ARITY[cpn[1]]
                na = {n.id for a in v.args[:ka] for n in ast.walk(a) if isinstance(n, ast.Name)}
                nb = {n.id for a in v.args[ka:ka + kb] for n in ast.walk(a) if isinstance(n, ast.Name)}
                o = ("points" if na & pts else ("plane" if na & plane else "?"), "points" if nb & pts else ("plane" if nb & plane else "?"))
                orders.append((r, o, "forwards to %s" % callee.name))
        elif isinstance(v, ast.Tuple) and len(v.elts) == 3:
            unpacked = {}
            for st in iter_stmts(f.node.body):
                if isinstance(st, ast.Assign) and isinstance(st.targets[0], ast.Tuple) and isinstance(st.value, ast.Call) and st.lineno < r.lineno:
                    callee = idx.resolve_call(f.module, st.value, None)
                    cpn = parse_name(callee.name) if isinstance(callee, FuncInfo) else None
                    if cpn and len(st.targets[0].elts) >= 3:
                        ka, kb = ARITY[cpn[0]], ARITY[cpn[1]]
                        na = {n.id for a in st.value.args[:ka] for n in ast.walk(a) if isinstance(n, ast.Name)}
                        nb = {n.id for a in st.value.args[ka:ka + kb] for n in ast.walk(a) if isinstance(n, ast.Name)}
                        for e, grp in ((st.targets[0].elts[1], na), (st.targets[0].elts[2], nb)):
                            if isinstance(e, ast.Name):
                                unpacked[e.id] = "points" if grp & pts else ("plane" if grp & plane else "?")

            def on(e):
                if isinstance(e, ast.Name) and e.id in unpacked:
                    return unpacked[e.id]
                names = {n.id for n in ast.walk(e) if isinstance(n, ast.Name)}
                loc = {st.targets[0].id: st.value for st in iter_stmts(f.node.body) if isinstance(st, ast.Assign) and isinstance(st.targets[0], ast.Name)}
                # a row of the point set lies on the point set; 'x - t * plane_normal' is its projection on the plane
                e2 = loc.get(u(e), e) if isinstance(e, ast.Name) else e
                if isinstance(e2, ast.Subscript) and u(e2.value) in pts:
                    return "points"
                if isinstance(e2, ast.BinOp) and isinstance(e2.op, ast.Sub) and any(n in plane for n in {x.id for x in ast.walk(e2.right) if isinstance(x, ast.Name)}):
                    return "plane"
                return "?"
            orders.append((r, (on(v.elts[1]), on(v.elts[2])), "literal tuple"))
    known = [o for _, o, _ in orders if "?" not in o]
    agree = len(set(known)) <= 1
    for r, o, how in orders:
        key = "%s|return %s" % (f.key, u(r.value)[:60])
        rep.check(agree or "?" in o, rule, key, "%s:%d" % (f.module.relpath, r.lineno),
                  "this return path yields the points in the order %s (%s) while another path of the same function yields %s: callers "
                  "(plane_to_triangle / _rectangle / _box / _ellipsoid / _cylinder) receive the point of the shape where the point on the "
                  "plane is documented" % (o, how, sorted(set(known) - {o})), "order %s" % (o,))


def r_triple(idx, rep, rule="R-TRIPLE", floor=12):
    rep.rule(rule, "composite distance functions rebind the returned distance and points together: a block that takes one of "
                   "them from a sub-query (callee unpack or copy) takes all of them from the same sub-query, the remaining point being "
                   "an argument of that call, or the distance being recomputed from the two returned points afterwards", floor=floor)
    for mname in DIST_MODS:
        m = idx.module(mname)
        for f in m.functions.values():
            if "<locals>" in f.qualname or parse_name(f.name) is None:
                continue
            f = peval(idx, f)
            rets = [r for r in _returns(f) if isinstance(r.value, ast.Tuple) and len(r.value.elts) >= 2 and all(isinstance(e, ast.Name) for e in r.value.elts[:3])]
            if not rets:
                continue
            pn = parse_name(f.name)
            ntrip = 2 if pn[0] == "point" else 3
            seen = set()
            for r in rets:
                names = tuple(e.id for e in r.value.elts[:ntrip])
                if len(set(names)) != len(names) or names in seen:
                    continue
                seen.add(names)
                _check_blocks(idx, rep, rule, f, list(names))


def _block_lists(node):
    for n in ast.walk(node):
        for fld in ("body", "orelse"):
            blk = getattr(n, fld, None)
            if isinstance(blk, list) and blk and isinstance(blk[0], ast.stmt):
                yield n, blk


def _is_subquery(idx, f, st):
    """statement takes its value from a sub-query: unpack of a `<A>_to_<B>` callee, or a plain copy of another name"""
    v = st.value
    if isinstance(v, ast.Call):
        callee = idx.resolve_call(f.module, v, None)
        return isinstance(callee, FuncInfo) and parse_name(callee.name) is not None
    if isinstance(v, ast.Name):
        # copies of local names only; module constants such as MAX_FLOAT are sentinels, not sub-query results
        r = idx.resolve_name(f.module, v.id)
        if r is not None or u(v) in SENTINELS:
            return False
        # ... and only of names that (may) hold the result of a sub-query: a local computed right here from the parameters (`p = line_point + t * d`,
        # then `q = p` for the intersection point that lies on both primitives) is a fresh value, not the answer of another query
        binds = []
        for st2 in iter_stmts(f.node.body):
            if isinstance(st2, ast.Assign) and st2.lineno < st.lineno:
                for t2 in st2.targets:
                    for e2 in (t2.elts if isinstance(t2, ast.Tuple) else [t2]):
                        if isinstance(e2, ast.Name) and e2.id == v.id:
                            binds.append(st2)
        if v.id in f.params() or not binds:
            return True
        return any(isinstance(b.value, (ast.Call, ast.Name)) and (not isinstance(b.value, ast.Call) or _is_subquery(idx, f, b) or isinstance(b.targets[0], ast.Tuple)) for b in binds)
    return False


def _check_blocks(idx, rep, rule, f, names):
    params = set(f.params())
    pm = parent_map(f.node)
    for owner, blk in _block_lists(f.node):
        # a block that ends with its own `return a, b, c` answers for THAT tuple: it is judged when those names are the names under examination
        own = blk[-1].value.elts if isinstance(blk[-1], ast.Return) and isinstance(blk[-1].value, ast.Tuple) else None
        if own is not None and all(isinstance(e, ast.Name) for e in own[:len(names)]) and [e.id for e in own[:len(names)]] != list(names):
            continue
        assigned = {}
        for st in blk:
            if isinstance(st, ast.Assign):
                for t in st.targets:
                    for e in (t.elts if isinstance(t, ast.Tuple) else [t]):
                        if isinstance(e, ast.Name) and e.id in names:
                            assigned[e.id] = st
        if not assigned or not any(_is_subquery(idx, f, st) for st in assigned.values()):
            continue
        tag = type(owner).__name__ + ":" + (u(owner.test)[:40] if hasattr(owner, "test") else getattr(owner, "name", ""))
        key = "%s|block@%s rebinding %s" % (f.key, tag, sorted(assigned))
        first = min(st.lineno for st in assigned.values())
        where = "%s:%d" % (f.module.relpath, first)
        missing = [n for n in names if n not in assigned]
        if missing:
            # (a) the missing names are rebound LATER, at an enclosing level, from the names this block binds
            #     (closest_point_segment chosen here, then `dist, closest_point_plane = _point_to_plane(closest_point_segment, ...)`)
            later_ok = True
            call_args = set()
            for st in assigned.values():
                if isinstance(st.value, ast.Call):
                    call_args |= {u(a) for a in st.value.args}
            for n in missing:
                ok = n in call_args      # the missing point is the very argument of the sub-query made in this block
                cur = owner
                anc_blocks = []
                node = blk[0]
                while node in pm:
                    par = pm[node]
                    for fld in ("body", "orelse"):
                        b = getattr(par, fld, None)
                        if isinstance(b, list) and node in b:
                            anc_blocks.append((b, b.index(node)))
                    node = par
                later_sts = [x for b, i in anc_blocks[1:] for st in b[i + 1:] for x in ast.walk(st)]
                if anc_blocks:
                    b0, i0 = anc_blocks[0]
                    # compound statements that follow in the SAME block (a loop that refines the first guess)
                    last_assigned = max(blk.index(st) for st in assigned.values())
                    later_sts += [x for st in blk[last_assigned + 1:] if isinstance(st, (ast.For, ast.While, ast.If, ast.With)) for x in ast.walk(st)]
                for _one in (1,):
                    for st in later_sts:
                        if isinstance(st, ast.Assign):
                            tg = [e.id for t in st.targets for e in (t.elts if isinstance(t, ast.Tuple) else [t]) if isinstance(e, ast.Name)]
                            used = {x.id for x in ast.walk(st.value) if isinstance(x, ast.Name)}
                            if n in tg and (used & set(assigned) or used & set(names)):
                                ok = True
                if not ok and n in params:
                    ok = True
                later_ok = later_ok and ok
            rep.check(later_ok, rule, key, where,
                      "this block takes %s from a sub-query but leaves %s from an earlier one and nothing recomputes them afterwards: the returned "
                      "distance and points do not belong to the same sub-query" % (sorted(assigned), missing), "remaining names are recomputed afterwards")
            continue
        sts = {id(st): st for st in assigned.values()}
        if len(sts) == 1:
            rep.ok(rule, key, where, "one statement binds all")
            continue
        # the distance recomputed as the norm of the difference of the two points that are returned is consistent with them by construction,
        # however the points were obtained (alternating projections bind them from two calls)
        dst = assigned.get(names[0])
        if dst is not None and len(names) == 3 and isinstance(dst.value, ast.Call) and call_name(dst.value) in ("np.linalg.norm", "norm") and dst.value.args \
                and isinstance(dst.value.args[0], ast.BinOp) and isinstance(dst.value.args[0].op, ast.Sub) \
                and {u(dst.value.args[0].left), u(dst.value.args[0].right)} == {names[1], names[2]} \
                and all(assigned[n_].lineno < dst.lineno for n_ in names[1:] if n_ in assigned):
            rep.ok(rule, key, where, "distance recomputed from the two returned points")
            continue
        calls_ = [st for st in sts.values() if isinstance(st.value, ast.Call) and _is_subquery(idx, f, st)]
        ok, why = True, ""
        if calls_:
            # the sub-query that yields the DISTANCE is the reference; a returned point that is itself an argument of that call (the point the distance
            # was measured from, wherever it was bound before) belongs to the same event
            primary = assigned.get(names[0]) if assigned.get(names[0]) in calls_ else calls_[0]
            call = primary.value
            argtxt = {u(a) for a in call.args}
            for n, st in assigned.items():
                if st is primary or n in argtxt:
                    continue
                if st in calls_:
                    ok, why = False, "%s and %s come from two different calls" % (u(primary.targets[0]), n)
                elif u(st.value) not in argtxt:
                    ok, why = False, "`%s = %s` is not an argument of `%s`" % (n, u(st.value), u(call)[:60])
        else:
            srcs = [u(st.value) for st in assigned.values()]
            groups = {_binding_stmt(f, s_, first) for s_ in srcs}
            ok = len(groups) == 1 and None not in groups
            why = "copied from %s, which were not bound by one statement" % srcs
        rep.check(ok, rule, key, where, "the returned names are rebound from different sources: %s" % why, "one source event")


def _binding_stmt(f, name, before):
    """id of the last statement (before line) that binds `name` as part of a tuple unpack or plainly"""
    best = None
    for st in iter_stmts(f.node.body):
        if isinstance(st, ast.Assign) and st.lineno < before:
            for t in st.targets:
                for e in (t.elts if isinstance(t, ast.Tuple) else [t]):
                    if isinstance(e, ast.Name) and e.id == name:
                        best = id(st)
        elif isinstance(st, ast.For) and st.lineno < before:
            # `for dist, p, q in candidates(...)`: one item of the iteration binds all of them
            for e in (st.target.elts if isinstance(st.target, ast.Tuple) else [st.target]):
                if isinstance(e, ast.Name) and e.id == name:
                    best = id(st)
    return best
