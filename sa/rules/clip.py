"""R-CLIPGUARD: the early "farther than max_distance" exit of the Jolt GJK is justified only behind a separating plane."""
import ast

from ..core.astutil import u, ncmp, conjuncts, dot_args, parent_map, is_const

J = "distance3d.gjk._gjk_jolt"


def _square_of(node):
    """S*S or S**2 -> S"""
    if isinstance(node, ast.BinOp) and isinstance(node.op, ast.Mult) and u(node.left) == u(node.right):
        return node.left
    if isinstance(node, ast.BinOp) and isinstance(node.op, ast.Pow) and is_const(node.right, 2):
        return node.left
    return None


def _path_conjuncts(pm, node):
    """conjuncts that hold when `node` executes; None when it sits in an else-branch / loop-else (negations not modelled)"""
    out = []
    ch, p = node, pm.get(node)
    while p is not None and not isinstance(p, (ast.FunctionDef, ast.AsyncFunctionDef)):
        if isinstance(p, ast.If):
            if ch in p.body:
                out.extend(conjuncts(p.test))
            elif ch in p.orelse:
                return None
        ch, p = p, pm.get(p)
    return out


def r_clipguard(idx, rep, rule="R-CLIPGUARD"):
    rep.rule(rule, "the `Clipped` (no result, farther than sqrt(max_distance_squared)) exit is taken only when the new support point w of A-B "
                   "lies behind the plane through the origin, s = dir.w < 0, and s^2 > |dir|^2 max_distance_squared; s^2 alone is sign-blind "
                   "and would also clip pairs whose Minkowski difference merely extends far past the origin", floor=3)
    m = idx.module(J)
    enum = m.classes.get("GjkState")
    if enum is None or not any(isinstance(st, ast.Assign) and u(st.targets[0]) == "Clipped" for st in enum.node.body):
        rep.error("R-CLIPGUARD: GjkState.Clipped not found in %s" % J)
        return
    n = 0
    for f in m.functions.values():
        pm = None
        for r in ast.walk(f.node):
            if not (isinstance(r, ast.Return) and r.value is not None):
                continue
            first = r.value.elts[0] if isinstance(r.value, ast.Tuple) and r.value.elts else r.value
            if u(first) != "GjkState.Clipped":
                continue
            n += 1
            pm = pm or parent_map(f.node)
            where = "%s:%d" % (m.relpath, r.lineno)
            base = "%s|Clipped exit" % f.key
            cj = _path_conjuncts(pm, r)
            if cj is None:
                rep.unknown(rule, base + " condition", where, "the exit sits in an else-branch; its condition is not modelled")
                continue
            params = set(f.params())
            sq = None
            for c in cj:
                t = ncmp(c)
                if t and t[0] in ("<", "<="):
                    s = _square_of(t[2])
                    if s is not None and any(isinstance(x, ast.Name) and x.id in params for x in ast.walk(t[1])):
                        sq = (s, t[1], c)
            rep.check(sq is not None, rule, base + " compares s^2 with the bound", where,
                      "the exit is not conditioned on `s*s > |dir|^2 * max_distance_squared` (conditions: %s)" % [u(c) for c in cj],
                      "s = %s, bound = %s" % ((u(sq[0]), u(sq[1])) if sq else ("?", "?")))
            if sq is None:
                continue
            s = sq[0]
            guard = any((t := ncmp(c)) and t[0] in ("<", "<=") and u(t[1]) == u(s) and (is_const(t[2], 0) or is_const(t[2], 0.0)) for c in cj)
            rep.check(guard, rule, base + " guarded by s < 0", where,
                      "the exit compares only the SQUARE of s = `%s` with the bound and no longer requires s < 0: a support point far in FRONT of the origin plane "
                      "(large or distant shapes on the +direction side) now clips pairs that are well inside max_distance — the query returns no result/MAX_FLOAT "
                      "instead of the distance (conditions: %s)" % (u(s), [u(c) for c in cj]), "`%s < 0` is conjoined" % u(s))
            # s is the projection of the new support point of A-B onto the search direction
            ok = None
            if isinstance(s, ast.Name):
                defs = [st for st in ast.walk(f.node) if isinstance(st, ast.Assign) and len(st.targets) == 1 and u(st.targets[0]) == s.id]
                if len(defs) == 1:
                    da = dot_args(defs[0].value)
                    ok = da is not None and any(isinstance(a, ast.Name) and a.id in params for a in da)
            if ok is None:
                rep.unknown(rule, base + " s is dir.w", where, "definition of `%s` not a single assignment" % u(s))
            else:
                rep.check(ok, rule, base + " s is dir.w", where, "`%s` is no longer the dot product of the search direction with the new support point" % u(s),
                          "dot product with a parameter")
    if n == 0:
        rep.error("R-CLIPGUARD: no `return GjkState.Clipped, ...` exit found in %s" % J)
