"""R-EAGER: every call into an njit function with an explicit (eager) signature passes arguments whose
(ndim, dtype, layout) the declared type accepts.  R-ALIAS: no read of a NumPy view after its source element was
overwritten.  Both consume engine E1 (sa/engines/arrays.py)."""
import ast

from ..core.astutil import u
from ..engines.arrays import ArrayInterp

DT = {"float64": "f8", "int64": "i8", "boolean": "b1", "bool_": "b1"}


def collect(idx, modules=None):
    """Run E1 over all library functions (or those of the given modules); returns the interpreter."""
    it = ArrayInterp(idx)
    for rnd in range(3):
        for f in idx.all_functions():
            if modules is not None and f.module.name not in modules:
                continue
            if "<locals>" in f.qualname:
                continue
            it.analyse_function(f)
        if rnd < 2:
            it.reset(it.make_hints())
    return it


def judge_arg(av, decl):
    """-> (verdict, text) for one argument against a declared numba type (dtype, ndim, layout)."""
    dt, nd, lay = decl
    if nd == 0:
        if av.kind == "arr" and av.ndim not in (0, None):
            return "BAD", "an array (%r) is passed where the signature declares the scalar %s" % (av, dt)
        return ("OK", "")
    if av.kind in ("unknown", "none", "obj", "func", "list", "tuple"):
        return "UNKNOWN", "argument value not tracked (%r)" % av
    if av.kind == "scalar":
        return "BAD", "a scalar is passed where the signature declares %s[%dd]" % (dt, nd)
    if av.ndim is not None and av.ndim != nd:
        return "BAD", "argument has %d dimension(s), the signature declares %d" % (av.ndim, nd)
    want = DT.get(dt)
    if want and av.dtype not in ("?", want):
        return "BAD", "argument dtype %s, the signature declares %s" % (av.dtype, dt)
    if lay == "A":
        return ("OK", "") if av.ndim is not None else ("UNKNOWN", "ndim unknown")
    bad = [k for k in av.layouts if (k == "N") or (k in ("F", "C") and k != lay and nd > 1)]
    if lay == "C" and nd == 1:
        bad = [k for k in av.layouts if k == "N"]
    if bad:
        k = bad[0]
        return "BAD", "argument can be %s (%s) but the signature requires %s-contiguous %s[%dd]: numba raises " \
                      "'No matching definition' compiled while the interpreted call succeeds" % (
                          {"N": "a strided (non-contiguous) view", "F": "Fortran-ordered", "C": "C-ordered"}[k], av.layouts[k], lay, dt, nd)
    if "?" in av.layouts or av.ndim is None:
        return "UNKNOWN", "layout/ndim not known (%r)" % av
    return "OK", ""


def r_eager(idx, rep, interp, rule="R-EAGER", caller_filter=None, floor=20, unknown_ceiling=None):
    rep.rule(rule, "every call site of an njit function with an explicit signature passes arguments whose ndim, dtype and "
                   "layout are accepted by the declared type ([::1] needs C-contiguous), for the JOIN of all values the "
                   "argument can hold (constructor and update_pose assignments of collider attributes included)",
             floor=floor, unknown_ceiling=unknown_ceiling)
    seen = set()
    for caller, node, callee, argv, kwv, is_meth in interp.call_sites:
        if not callee.eager:
            continue
        if caller_filter is not None and not caller_filter(caller):
            continue
        if caller.module.is_test:
            continue
        sig = callee.eager[0][1]
        params = callee.params()
        calibration = bool(caller.eager)
        for i, decl in enumerate(sig):
            if i < len(argv):
                av = argv[i]
            elif i < len(params) and params[i] in kwv:
                av = kwv[params[i]]
            else:
                continue
            verdict, txt = judge_arg(av, decl)
            key = "%s|%s arg%d(%s)=%s" % (caller.key, callee.name, i, params[i] if i < len(params) else "?", u(node.args[i]) if i < len(node.args) else "kw")
            if key in seen:
                continue
            seen.add(key)
            where = "%s:%d" % (caller.module.relpath, node.lineno)
            if verdict == "OK":
                rep.ok(rule, key, where, "accepted by %s" % (decl,))
            elif verdict == "UNKNOWN":
                rep.unknown(rule, key, where, txt)
            else:
                if calibration:
                    # the caller is itself compiled eagerly at import: numba has already accepted this call, so a BAD
                    # here would be an error of the TYPING-mode model, not of the code
                    rep.unknown(rule, key, where, "model calibration: " + txt)
                    rep.note("E1 typing model disagrees with numba on %s: %s" % (key, txt))
                else:
                    rep.bad(rule, key, where, txt)


def r_alias(idx, rep, interp, rule="R-ALIAS", modules=None, floor=0):
    rep.rule(rule, "a NumPy basic-index view saved in a temporary is not read after its source element was overwritten "
                   "(the classic swap-through-a-view that does not swap); tuple swaps of array rows likewise", floor=floor)
    n = 0
    seen = set()
    for func, node, txt, view in interp.alias_events:
        if modules is not None and func.module.name not in modules:
            continue
        key = "%s|%s read after store to %s[%s]" % (func.key, node.id, view[0], view[1])
        if key in seen:
            continue
        seen.add(key)
        rep.bad(rule, key, "%s:%d" % (func.module.relpath, node.lineno), txt)
        n += 1
    # tuple swaps of rows:  a[i], a[j] = a[j], a[i]  where the elements are arrays (views)
    for f in idx.all_functions():
        if modules is not None and f.module.name not in modules:
            continue
        for st in ast.walk(f.node):
            if isinstance(st, ast.Assign) and isinstance(st.targets[0], ast.Tuple) and isinstance(st.value, ast.Tuple):
                t = [u(x) for x in st.targets[0].elts]
                v = [u(x) for x in st.value.elts]
                if len(t) == 2 and t == v[::-1] and all(isinstance(x, ast.Subscript) for x in st.targets[0].elts):
                    # element kind: decided by E1 at that point is expensive; use the recorded evaluation of the rhs
                    key = "%s|tuple-swap %s" % (f.key, u(st))
                    kinds = interp_swap_kinds(interp, f, st)
                    if kinds == "arr":
                        rep.bad(rule, key, "%s:%d" % (f.module.relpath, st.lineno),
                                "tuple swap of array rows goes through views: both rows end up equal")
                    elif kinds == "scalar":
                        rep.ok(rule, key, "%s:%d" % (f.module.relpath, st.lineno), "scalar elements are copied")
                    else:
                        rep.unknown(rule, key, "%s:%d" % (f.module.relpath, st.lineno), "element kind unknown")
    return n


def interp_swap_kinds(interp, f, st):
    env = interp.param_env(f)
    # evaluate statements before st in a straight line (best effort)
    from ..engines.arrays import AV
    try:
        for s in f.node.body:
            if s is st:
                break
            if any(x is st for x in ast.walk(s)):
                break
            interp._exec(s, env, False, [], None)
        v = interp.eval(st.value.elts[0], env)
        if v.kind == "arr":
            return "arr"
        if v.kind == "scalar":
            return "scalar"
    except Exception:
        pass
    return "?"


def class_defines(idx, ci, attr):
    """True / False / None(unknown: an unresolved external base could define it)."""
    external = False
    for c in idx.mro(ci):
        if attr in c.methods:
            return True
        for st in c.node.body:
            if isinstance(st, ast.Assign) and any(u(t) == attr for t in st.targets):
                return True
            if isinstance(st, ast.AnnAssign) and u(st.target) == attr:
                return True
        for meth in c.methods.values():
            for n in ast.walk(meth.node):
                if isinstance(n, ast.Attribute) and isinstance(n.ctx, ast.Store) and n.attr == attr \
                        and isinstance(n.value, ast.Name) and n.value.id == "self":
                    return True
        for b in c.node.bases:
            r = idx.resolve_expr(c.module, b)
            if r is None and u(b) not in ("object", "abc.ABC", "ABC", "Enum", "enum.Enum"):
                external = True
    return None if external else False


def r_attr(idx, rep, interp, rule="R-ATTR", modules=None, floor=5):
    rep.rule(rule, "attribute access on a receiver whose class is known (numpydoc parameter type or constructor call) "
                   "resolves in that class, its bases or its subclasses", floor=floor)
    seen = set()
    # positive instances: every attribute read on a known class that does resolve
    for f in idx.all_functions():
        if modules is not None and f.module.name not in modules:
            continue
    for func, node, cls, attr in interp.attr_resolved:
        if modules is not None and func.module.name not in modules:
            continue
        if func.cls is not None and isinstance(node.value, ast.Name) and node.value.id == "self":
            continue   # self.x inside the class itself: not a cross-object access
        key = "%s|%s.%s" % (func.key, cls.name, attr)
        if key in seen:
            continue
        seen.add(key)
        rep.ok(rule, key, "%s:%d" % (func.module.relpath, node.lineno), "resolves")
    for func, node, cls, attr in interp.attr_events:
        if modules is not None and func.module.name not in modules:
            continue
        key = "%s|%s.%s" % (func.key, cls.name, attr)
        if key in seen:
            continue
        seen.add(key)
        where = "%s:%d" % (func.module.relpath, node.lineno)
        d = class_defines(idx, cls, attr)
        sub = any(class_defines(idx, s, attr) for s in idx.subclasses(cls.key))
        if d is False and not sub:
            import difflib
            cands = set()
            for c in idx.mro(cls):
                cands.update(c.methods)
                for meth in c.methods.values():
                    for n in ast.walk(meth.node):
                        if isinstance(n, ast.Attribute) and isinstance(n.ctx, ast.Store) and isinstance(n.value, ast.Name) and n.value.id == "self":
                            cands.add(n.attr)
            near = difflib.get_close_matches(attr, sorted(cands), n=2, cutoff=0.5)
            rep.bad(rule, key, where, "`%s` reads attribute `%s` of a %s, but neither %s, its bases nor its subclasses define it "
                                      "(AttributeError at run time)%s" % (u(node), attr, cls.name, cls.name, "; closest: %s" % near if near else ""))
        elif d is None:
            rep.unknown(rule, key, where, "class has an external base")
        else:
            rep.ok(rule, key, where, "defined in a subclass")
    return len(seen)
