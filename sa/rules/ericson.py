"""R-ERICSON: the two implementations of Ericson's closest-point-on-triangle (Real-Time Collision Detection, 5.1.5) —
distance._triangle.point_to_triangle (query point P) and gjk._gjk_jolt.closest_point_triangle (P = origin) — test the Voronoi regions
with exactly the book's conditions and return the region's feature:

    d1 = ab.ap  d2 = ac.ap  d3 = ab.bp  d4 = ac.bp  d5 = ab.cp  d6 = ac.cp
    vc = d1*d4 - d3*d2      vb = d5*d2 - d1*d6      va = d3*d6 - d5*d4
    A : d1 <= 0 and d2 <= 0                      B : d3 >= 0 and d4 <= d3                 C : d6 >= 0 and d5 <= d6
    AB: vc <= 0 and d1 >= 0 and d3 <= 0          AC: vb <= 0 and d2 >= 0 and d6 <= 0      BC: va <= 0 and d4-d3 >= 0 and d5-d6 >= 0

Every name is resolved through its definitions down to the triangle's vertices, so the check does not depend on local names;
the expected table is instantiated with the function's own vertex expressions."""
import ast

from ..core.astutil import u, dot_args, ncmp, conjuncts, compare_triples, norm_compare
from ..core.index import AnalysisError


def _dot(x, y):
    return "dot(%s,%s)" % tuple(sorted((x, y)))       # the inner product is symmetric


class _Canon:
    def __init__(self, f, verts, point):
        self.f, self.verts, self.point = f, verts, point       # verts: {text: 'A'|'B'|'C'}; point: text of P or None (origin)
        self.defs = {}
        from ..core.astutil import assign_pairs
        for st in ast.walk(f.node):
            if isinstance(st, ast.Assign):
                for t_, v_ in assign_pairs(st):              # `d4_d3, d5_d6 = d4 - d3, d5 - d6` defines both
                    if isinstance(t_, ast.Name):
                        self.defs.setdefault(t_.id, []).append(v_)

    def c(self, e, depth=0):
        t = u(e)
        if t in self.verts:
            return self.verts[t]
        if self.point is not None and t == self.point:
            return "P"
        if isinstance(e, ast.Constant):
            return repr(float(e.value)) if isinstance(e.value, (int, float)) else repr(e.value)
        if isinstance(e, ast.Name):
            ds = self.defs.get(e.id, [])
            if len(ds) == 1 and depth < 8:
                return self.c(ds[0], depth + 1)
            return "?" + e.id
        if isinstance(e, ast.UnaryOp) and isinstance(e.op, ast.USub) and dot_args(e.operand) is not None and self.point is None:
            # -dot(x, V) with P the origin is dot(x, P - V): the sign may be written on the product instead of on the vertex
            x, y = (self.c(a_, depth) for a_ in dot_args(e.operand))
            if y in ("A", "B", "C"):
                return _dot(x, "(P-%s)" % y)
            if x in ("A", "B", "C"):
                return _dot("(P-%s)" % x, y)
        if isinstance(e, ast.UnaryOp) and isinstance(e.op, ast.USub):
            inner = self.c(e.operand, depth)
            if inner in ("A", "B", "C") and self.point is None:
                return "(P-%s)" % inner          # origin - X
            return "-(%s)" % inner
        da = dot_args(e)
        if da is not None:
            return _dot(self.c(da[0], depth), self.c(da[1], depth))
        if isinstance(e, ast.BinOp):
            op = {ast.Add: "+", ast.Sub: "-", ast.Mult: "*", ast.Div: "/"}.get(type(e.op))
            if op:
                return "(%s%s%s)" % (self.c(e.left, depth), op, self.c(e.right, depth))
        return "?" + t


def _expected():
    ab, ac = "(B-A)", "(C-A)"
    ap, bp, cp = "(P-A)", "(P-B)", "(P-C)"
    d = {1: _dot(ab, ap), 2: _dot(ac, ap), 3: _dot(ab, bp), 4: _dot(ac, bp), 5: _dot(ab, cp), 6: _dot(ac, cp)}
    vc = "((%s*%s)-(%s*%s))" % (d[1], d[4], d[3], d[2])
    vb = "((%s*%s)-(%s*%s))" % (d[5], d[2], d[1], d[6])
    va = "((%s*%s)-(%s*%s))" % (d[3], d[6], d[5], d[4])
    z = "0.0"
    le = lambda a, b: ("<=", a, b)
    return {
        "A": {le(d[1], z), le(d[2], z)},
        "B": {le(z, d[3]), le(d[4], d[3])},
        "AB": {le(vc, z), le(z, d[1]), le(d[3], z)},
        "C": {le(z, d[6]), le(d[5], d[6])},
        "AC": {le(vb, z), le(z, d[2]), le(d[6], z)},
        "BC": {le(va, z), le(z, "(%s-%s)" % (d[4], d[3])), le(z, "(%s-%s)" % (d[5], d[6]))},
    }


def _atoms(test, cn):
    out = set()
    for c in conjuncts(test):
        if not isinstance(c, ast.Compare):
            return None
        for op, a, b in compare_triples(c):
            op, a, b = norm_compare(op, a, b)
            if op not in ("<=", "<"):
                return None
            out.add((op, cn.c(a), cn.c(b)))
    return out


def r_ericson(idx, rep, rule="R-ERICSON", floor=6):
    rep.rule(rule, "closest point on a triangle: the six Voronoi-region tests are Ericson's conditions on d1..d6, va, vb, vc (resolved through "
                   "their definitions to the triangle's vertices), in both implementations; a dropped or altered conjunct returns a point on the "
                   "extension of an edge, outside the triangle", floor=floor)
    want = _expected()
    targets = [("distance3d.distance._triangle::point_to_triangle", None), ("distance3d.gjk._gjk_jolt::closest_point_triangle", "origin")]
    for key, mode in targets:
        f = idx.func(key)
        ps = f.params()
        if mode == "origin":
            verts = {ps[0]: "A", ps[1]: "B", ps[2]: "C"}
            cn = _Canon(f, verts, None)
        else:
            tp = ps[1]
            verts = {"%s[0]" % tp: "A", "%s[1]" % tp: "B", "%s[2]" % tp: "C"}
            cn = _Canon(f, verts, ps[0])
        found = {}
        for st in ast.walk(f.node):
            if isinstance(st, ast.If):
                at = _atoms(st.test, cn)
                if at is None:
                    continue
                for region, w in want.items():
                    if at == w:
                        found[region] = st
        # regions not found exactly: look for the closest candidate (same first atom) to explain what is wrong
        for region, w in sorted(want.items()):
            k = "%s|region %s test" % (f.key, region)
            if region in found:
                rep.ok(rule, k, "%s:%d" % (f.module.relpath, found[region].lineno), "Ericson's condition")
                continue
            best, bestn = None, -1
            for st in ast.walk(f.node):
                if isinstance(st, ast.If):
                    at = _atoms(st.test, cn)
                    if at is not None and len(at & w) > bestn and len(at & w) > 0:
                        best, bestn = (st, at), len(at & w)
            if best is None:
                rep.bad(rule, k, f.where, "no test of the Voronoi region of %s found (expected %d conditions)" % (region, len(w)))
            else:
                st, at = best
                missing = sorted("%s %s %s" % (b, ">=" , a) if a == "0.0" else "%s %s %s" % (a, op, b) for op, a, b in (w - at))
                extra = sorted("%s %s %s" % (a, op, b) for op, a, b in (at - w))
                rep.bad(rule, k, "%s:%d" % (f.module.relpath, st.lineno),
                        "`if %s:` is not Ericson's test for the Voronoi region of %s: missing %s%s — outside its region the formula of this branch returns a point on "
                        "the extension of the feature, i.e. not on the triangle" % (u(st.test), region, [m_[:90] for m_ in missing], (", unexpected %s" % [e_[:90] for e_ in extra]) if extra else ""))
