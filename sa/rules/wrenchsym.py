"""Symbolic evaluation of the wrench chain contact_forces -> accumulate_wrenches -> _transform_wrenches (R-REACTION).

Values are terms over the inputs (attributes of the two bodies and of the contact surface); the numpy operations the chain uses are constructors
(sum over axis 0, cross, hstack, negation, difference, transpose, matrix product, adjoint); package functions are entered with their arguments bound.
Negations are pushed outward (sum(-x) = -sum(x), cross(a, -b) = -cross(a, b), -(a - b) = b - a), so that `np.cross(r - c, -F)`, `-np.cross(r - c, F)`
and a negated temporary all denote one term.  The rule then compares what contact_forces RETURNS with what action and reaction must be — independent of
how the intermediate values are named, unpacked, forwarded or split over helpers."""
import ast

from ..core.astutil import u, call_name, strip_docstring, const
from ..core.index import FuncInfo


def neg(x):
    if isinstance(x, tuple) and x and x[0] == "neg":
        return x[1]
    if isinstance(x, tuple) and x and x[0] == "sub":
        return ("sub", x[2], x[1])
    return ("neg", x)


def mk_sum0(x):
    if isinstance(x, tuple) and x[0] == "neg":
        return neg(mk_sum0(x[1]))
    return ("sum0", x)


def mk_cross(a, b):
    s = 1
    if isinstance(a, tuple) and a[0] == "neg":
        a, s = a[1], -s
    if isinstance(b, tuple) and b[0] == "neg":
        b, s = b[1], -s
    t = ("cross", a, b)
    return t if s > 0 else neg(t)


def mk_apply(m, x):
    if isinstance(x, tuple) and x[0] == "neg":
        return neg(mk_apply(m, x[1]))
    return ("apply", m, x)


class Eval:
    def __init__(self, idx, pkg_prefix):
        self.idx, self.pkg = idx, pkg_prefix
        self.problems = []

    def mutates(self, mname, depth=0, seen=None):
        """does some method of that name in the package assign an attribute of self (directly, in place, or through another self-method)?"""
        seen = seen if seen is not None else set()
        if mname in seen or depth > 2:
            return False
        seen.add(mname)
        for m in self.idx.lib_modules():
            if not m.name.startswith(self.pkg):
                continue
            for ci in m.classes.values():
                meth = ci.methods.get(mname)
                if meth is None or mname.startswith("__"):
                    continue
                for n in ast.walk(meth.node):
                    if isinstance(n, (ast.Assign, ast.AugAssign)):
                        tgts = n.targets if isinstance(n, ast.Assign) else [n.target]
                        for t in tgts:
                            for x in ast.walk(t):
                                if isinstance(x, ast.Attribute) and isinstance(x.value, ast.Name) and x.value.id == "self" and isinstance(x.ctx, ast.Store):
                                    # a lazily filled cache (`if self._x is None: self._x = ...`) is not a change of state
                                    if not x.attr.startswith("_"):
                                        return True
                                if isinstance(x, ast.Subscript) and isinstance(x.ctx, ast.Store) and isinstance(x.value, ast.Attribute) and u(x.value.value) == "self":
                                    return True
                    if isinstance(n, ast.Call) and isinstance(n.func, ast.Attribute) and isinstance(n.func.value, ast.Name) and n.func.value.id == "self" \
                            and self.mutates(n.func.attr, depth + 1, seen):
                        return True
        return False

    def run(self, f, args, depth=0):
        """list of returned values (one per return statement reached) of f called with the given values"""
        params = [a.arg for a in f.node.args.args]
        if f.cls is not None and params and params[0] == "self":
            params = params[1:]
        env = {}
        defaults = f.node.args.defaults
        for i, p in enumerate(params):
            if i < len(args):
                env[p] = args[i]
            else:
                di = i - (len(params) - len(defaults))
                env[p] = ("const", const(defaults[di])) if 0 <= di < len(defaults) else ("param", p)
        rets = []
        self.block(strip_docstring(f.node.body), env, f, rets, depth)
        return rets

    def block(self, stmts, env, f, rets, depth):
        for st in stmts:
            if isinstance(st, ast.Return):
                v_ = self.ev(st.value, env, f, depth) if st.value is not None else ("const", None)

                def flat(x):
                    return flat(x[1]) + flat(x[2]) if isinstance(x, tuple) and x[:1] == ("alt",) else [x]
                rets.extend(flat(v_))
                return True
            if isinstance(st, ast.Assign):
                v = self.ev(st.value, env, f, depth)
                for t in st.targets:
                    self.assign(t, v, st.value, env, f, depth)
            elif isinstance(st, ast.If):
                e1, e2 = dict(env), dict(env)
                r1 = self.block(st.body, e1, f, rets, depth)
                r2 = self.block(st.orelse, e2, f, rets, depth)
                if r1 and r2:
                    return True
                src = [e for e, r in ((e1, r1), (e2, r2)) if not r]
                if len(src) == 1:
                    env.clear()
                    env.update(src[0])
                else:
                    for k in set(e1) | set(e2):
                        a_, b_ = e1.get(k), e2.get(k)
                        env[k] = a_ if a_ == b_ else (("alt", a_, b_) if a_ is not None and b_ is not None else ("unk", k))
            elif isinstance(st, (ast.For, ast.While)):
                for n in ast.walk(st):
                    if isinstance(n, ast.Name) and isinstance(n.ctx, ast.Store):
                        env[n.id] = ("unk", n.id)
            elif isinstance(st, ast.AugAssign) and isinstance(st.target, ast.Name):
                env[st.target.id] = ("unk", st.target.id)
        return False

    def assign(self, t, v, valnode, env, f, depth):
        if isinstance(t, ast.Name):
            env[t.id] = v
        elif isinstance(t, (ast.Tuple, ast.List)):
            if isinstance(v, tuple) and v and v[0] == "tuple" and len(v[1]) == len(t.elts):
                for tt, vv in zip(t.elts, v[1]):
                    self.assign(tt, vv, None, env, f, depth)
            else:
                for i, tt in enumerate(t.elts):
                    self.assign(tt, ("item", v, i), None, env, f, depth)

    def ev(self, e, env, f, depth):
        if isinstance(e, ast.Constant):
            return ("const", e.value)
        if isinstance(e, ast.Name):
            return env.get(e.id, ("global", e.id))
        if isinstance(e, ast.Attribute):
            if e.attr == "T":
                return ("T", self.ev(e.value, env, f, depth))
            return ("attr", self.ev(e.value, env, f, depth), e.attr)
        if isinstance(e, ast.UnaryOp) and isinstance(e.op, ast.USub):
            return neg(self.ev(e.operand, env, f, depth))
        if isinstance(e, ast.BinOp):
            a, b = self.ev(e.left, env, f, depth), self.ev(e.right, env, f, depth)
            if isinstance(e.op, ast.Sub):
                return ("sub", a, b)
            if isinstance(e.op, ast.Mult):
                for x, y in ((a, b), (b, a)):
                    if x == ("const", -1) or x == ("const", -1.0):
                        return neg(y)
            if isinstance(e.op, ast.MatMult):
                return mk_apply(a, b)
            if isinstance(e.op, ast.Add):
                # tuple concatenation, distributed over values that differ between the two arms of an earlier `if`
                def cat(x, y):
                    if isinstance(x, tuple) and x[:1] == ("alt",):
                        return ("alt", cat(x[1], y), cat(x[2], y))
                    if isinstance(y, tuple) and y[:1] == ("alt",):
                        return ("alt", cat(x, y[1]), cat(x, y[2]))
                    if isinstance(x, tuple) and isinstance(y, tuple) and x[:1] == ("tuple",) and y[:1] == ("tuple",):
                        return ("tuple", x[1] + y[1])
                    return None
                c_ = cat(a, b)
                if c_ is not None:
                    return c_
            return ("op", type(e.op).__name__, a, b)
        if isinstance(e, (ast.Tuple, ast.List)):
            return ("tuple", tuple(self.ev(x, env, f, depth) for x in e.elts))
        if isinstance(e, ast.Subscript):
            base = self.ev(e.value, env, f, depth)
            k = const(e.slice)
            if isinstance(base, tuple) and base[0] == "tuple" and isinstance(k, int) and -len(base[1]) <= k < len(base[1]):
                return base[1][k]
            return ("index", base, u(e.slice))
        if isinstance(e, ast.Call):
            name = call_name(e) or ""
            short = name.split(".")[-1]
            args = [self.ev(a, env, f, depth) for a in e.args]
            kw = {k.arg: k.value for k in e.keywords}
            if short == "sum" and name.startswith(("np.", "numpy.")) and args:
                ax = const(kw["axis"]) if "axis" in kw else (const(e.args[1]) if len(e.args) > 1 else None)
                return mk_sum0(args[0]) if ax == 0 else ("sum?", args[0])
            if short == "cross" and len(args) == 2:
                return mk_cross(args[0], args[1])
            if short in ("hstack", "concatenate", "append") and args:
                parts = args[0][1] if args[0][0] == "tuple" else tuple(args)
                return ("hstack", tuple(parts))
            if short == "dot" and isinstance(e.func, ast.Attribute) and not name.startswith(("np.", "numpy.")) and len(args) == 1:
                return mk_apply(self.ev(e.func.value, env, f, depth), args[0])
            if short == "dot" and len(args) == 2:
                return mk_apply(args[0], args[1])
            if short in ("negative",) and len(args) == 1:
                return neg(args[0])
            if short in ("asarray", "array", "ascontiguousarray", "copy") and len(args) == 1:
                return args[0]
            # a method that re-assigns attributes of its receiver (directly or through another method of the class) leaves the receiver in a NEW state:
            # every name bound to it denotes that state from now on
            if isinstance(e.func, ast.Attribute) and not name.startswith(("np.", "numpy.", "math.")) and self.mutates(short):
                recv = self.ev(e.func.value, env, f, depth)
                for k_, v_ in list(env.items()):
                    if v_ == recv:
                        env[k_] = ("mutated", recv, short)
            callee = self.idx.resolve_call(f.module, e, f.cls)
            if isinstance(callee, FuncInfo) and callee.module.name.startswith(self.pkg) and depth < 4 and callee.cls is None and not e.keywords:
                rets = self.run(callee, args, depth + 1)
                if len(rets) == 1:
                    return rets[0]
                if rets and all(r == rets[0] for r in rets):
                    return rets[0]
            return ("call", short, tuple(args))
        return ("unk", u(e)[:40])


def show(v, names=None):
    names = names or {}
    if v in names:
        return names[v]
    if not isinstance(v, tuple) or not v:
        return str(v)
    k = v[0]
    if k == "neg":
        return "-" + show(v[1], names)
    if k == "sub":
        return "(%s - %s)" % (show(v[1], names), show(v[2], names))
    if k == "sum0":
        return "sum(%s)" % show(v[1], names)
    if k == "cross":
        return "cross(%s, %s)" % (show(v[1], names), show(v[2], names))
    if k == "hstack":
        return "hstack(%s)" % ", ".join(show(x, names) for x in v[1])
    if k == "apply":
        return "%s . %s" % (show(v[1], names), show(v[2], names))
    if k == "attr":
        return "%s.%s" % (show(v[1], names), v[2])
    if k == "param":
        return v[1]
    if k == "T":
        return show(v[1], names) + ".T"
    if k == "mutated":
        return "%s after .%s()" % (show(v[1], names), v[2])
    if k == "alt":
        return "%s | %s" % (show(v[1], names), show(v[2], names))
    if k == "call":
        return "%s(%s)" % (v[1], ", ".join(show(x, names) for x in v[2]))
    if k == "tuple":
        return "(%s)" % ", ".join(show(x, names) for x in v[1])
    if k == "const":
        return repr(v[1])
    return str(v)[:60]
