"""Rules for the Nesterov-accelerated GJK flavours and the result-tuple wrappers (C09, C02).

R-INFL      type-dispatch enumeration: for every ordered pair of collider classes and each side i, the radius of side i is
            added to `inflation`  <=>  the specialised (radius-free) support of that side is the one actually used.
R-DISPATCH  (primitives variant) the integer type codes written by get_data_from_collider and read by select_support denote
            the same shapes, and the data vector slots written are the slots each *_support reads.
R-DTREE     the region decision trees (project_line/triangle/tetra, region_*, origin_to_*) of the two files are the same
            trees (same conditions, same region at each leaf, same local definitions).
R-TUPLEROLE the *_intersection / *_distance / *_iterations wrappers index the result tuple at the element that holds that
            quantity.
"""
import ast
import itertools

from ..core.astutil import u, call_name, calls, iter_stmts, const, disjuncts, conjuncts, index_elts, ncmp, strip_docstring, canon_inline, sibling_verdict
from ..core.index import AnalysisError

N1 = "distance3d.gjk._gjk_nesterov_accelerated"
N2 = "distance3d.gjk._gjk_nesterov_accelerated_primitives"


def _type_test(node):
    """type(x) == T / isinstance-free exact tests -> (x, T) or None"""
    if isinstance(node, ast.Compare) and len(node.ops) == 1 and isinstance(node.ops[0], (ast.Eq, ast.Is)):
        a, b = node.left, node.comparators[0]
        for x, y in ((a, b), (b, a)):
            if isinstance(x, ast.Call) and call_name(x) == "type" and len(x.args) == 1 and isinstance(y, ast.Name):
                return (u(x.args[0]), y.id)
    return None


class _Abstract:
    """Evaluate a boolean guard over (T0, T1) given the names of the two collider parameters."""

    def __init__(self, c0, c1, tspec, locs):
        self.c = {c0: 0, c1: 1}
        self.tspec = tspec
        self.locs = locs

    def ev(self, node, T):
        if isinstance(node, ast.BoolOp):
            vals = [self.ev(v, T) for v in node.values]
            if any(v is None for v in vals):
                return None
            return all(vals) if isinstance(node.op, ast.And) else any(vals)
        if isinstance(node, ast.UnaryOp) and isinstance(node.op, ast.Not):
            v = self.ev(node.operand, T)
            return None if v is None else (not v)
        tt = _type_test(node)
        if tt and tt[0] in self.c:
            return T[self.c[tt[0]]] == tt[1]
        if isinstance(node, ast.Compare) and len(node.ops) == 1 and isinstance(node.ops[0], ast.In):
            x = node.left
            if isinstance(x, ast.Call) and call_name(x) == "type" and u(x.args[0]) in self.c and isinstance(node.comparators[0], (ast.Tuple, ast.List, ast.Set)):
                return T[self.c[u(x.args[0])]] in {u(e) for e in node.comparators[0].elts}
        # select_support(<dir>, colliderK)[1]  == 'side K has a specialised support'
        if isinstance(node, ast.Subscript) and const(node.slice) == 1 and isinstance(node.value, ast.Call) \
                and (call_name(node.value) or "").split(".")[-1] == "select_support" and len(node.value.args) == 2 and u(node.value.args[1]) in self.c:
            return T[self.c[u(node.value.args[1])]] in self.tspec
        if isinstance(node, ast.Name) and node.id in self.locs:
            return self.ev(self.locs[node.id], T)
        if isinstance(node, ast.Constant) and isinstance(node.value, bool):
            return node.value
        return None


def _tspec_from_select_support(f, reads_radius=None):
    """types T for which select_support returns (..., True)"""
    out = {}
    for st in f.node.body:
        if isinstance(st, ast.If):
            tt = _type_test(st.test)
            rets = [s for s in st.body if isinstance(s, ast.Return) and isinstance(s.value, ast.Tuple) and const(s.value.elts[1]) is True]
            if tt and rets:
                cs = [c for c in calls(rets[0]) if not (call_name(c) or "").startswith(("np.", "numpy."))]
                out[tt[1]] = cs[0] if cs else None
                if reads_radius is not None and any(isinstance(n, ast.Attribute) and n.attr == "radius" for s_ in st.body for n in ast.walk(s_)):
                    reads_radius.add(tt[1])
    return out


def r_infl(idx, rep, rule="R-INFL"):
    rep.rule(rule, "for every ordered pair of collider classes and each side: the side's radius is added to the inflation iff "
                   "both sides use their specialised supports and that side's specialised support ignores the radius", floor=100)
    coll = idx.module("distance3d.colliders")
    base = idx.cls("distance3d.colliders::ConvexCollider")
    U = sorted(c.name for c in idx.subclasses(base.key))
    if len(U) < 9:
        raise AnalysisError("fewer than 9 collider classes found")
    # ---------------- generic variant
    f = idx.func(N1 + "::gjk_nesterov_accelerated")
    sel = idx.func(N1 + "::select_support")
    spec_reads_radius = set()
    spec_calls = _tspec_from_select_support(sel, spec_reads_radius)
    tspec = set(spec_calls)
    if len(tspec) < 3:
        raise AnalysisError("select_support: specialised types not found")
    # T_core: specialised types with a `radius` attribute whose specialised support never reads .radius
    tcore = set()
    for T, call in spec_calls.items():
        ci = coll.classes.get(T)
        has_radius = ci is not None and any(isinstance(n, ast.Attribute) and n.attr == "radius" and isinstance(n.ctx, ast.Store) for n in ast.walk(ci.node))
        if not has_radius:
            continue
        callee = idx.resolve_call(sel.module, call) if call is not None else None
        reads = callee is not None and any(isinstance(n, ast.Attribute) and n.attr == "radius" for n in ast.walk(callee.node))
        reads = reads or T in spec_reads_radius
        if not reads:
            tcore.add(T)
    # the specialised path condition in support_function: found0 and found1 -> both in T_spec (confirm the shape)
    sf = idx.func(N1 + "::support_function")
    both = [st for st in sf.node.body if isinstance(st, ast.If) and sorted(u(x) for x in conjuncts(st.test)) == ["found0", "found1"]]
    fb = [st for st in sf.node.body if isinstance(st, ast.Return) and "support_function" in u(st.value)]
    rep.check(len(both) == 1 and len(fb) == 1 and fb[0].lineno > both[0].lineno, rule, sf.key + "|specialised iff found0 and found1", sf.where,
              "support_function must use the specialised supports iff both were found and fall back to the colliders' own support otherwise")
    c0, c1 = f.params()[0], f.params()[1]
    _enumerate(idx, rep, rule, f, U, (c0, c1), tspec, lambda T: T[0] in tspec and T[1] in tspec, tcore, "generic")
    # ---------------- primitives variant: every accepted pair is specialised
    g = idx.func(N2 + "::gjk_nesterov_accelerated_primitives")
    gd = idx.func(N2 + "::get_data_from_collider")
    tspec2 = {}
    last = None
    for st in gd.node.body:
        if isinstance(st, ast.If):
            tt = _type_test(st.test)
            if tt:
                tspec2[tt[1]] = st.body
        elif isinstance(st, ast.Assert):
            tt = _type_test(st.test)
            if tt:
                i = gd.node.body.index(st)
                tspec2[tt[1]] = gd.node.body[i + 1:]
    tcore2 = set()
    for T, body in tspec2.items():
        ci = coll.classes.get(T)
        has_radius = ci is not None and any(isinstance(n, ast.Attribute) and n.attr == "radius" and isinstance(n.ctx, ast.Store) for n in ast.walk(ci.node))
        reads = any(isinstance(n, ast.Attribute) and n.attr == "radius" for s in body for n in ast.walk(s))
        if has_radius and not reads:
            tcore2.add(T)
    d0, d1 = g.params()[0], g.params()[1]
    U2 = sorted(tspec2)
    _enumerate(idx, rep, rule, g, U2, (d0, d1), set(tspec2), lambda T: True, tcore2, "primitives")
    rep.extra["R-INFL"] = {"universe": U, "T_spec": sorted(tspec), "T_core": sorted(tcore), "T_spec_primitives": sorted(tspec2), "T_core_primitives": sorted(tcore2)}


class _InflationInterp:
    """Abstract interpretation of the inflation set-up over the finite domain of collider classes: colliders are (class of side 0, class of side 1),
    booleans are True / False / None (unknown), numbers are multisets of `radius of side k` (None = unknown).  Helper functions of the module are
    interpreted with their abstract arguments, so the result does not depend on how the set-up is split into helpers."""

    def __init__(self, idx, f, colliders, tspec):
        self.idx, self.f, self.c, self.tspec = idx, f, {colliders[0]: 0, colliders[1]: 1}, tspec

    # ---- values: ('coll', side) | bool | ('num', {side: count}) | ('tuple', [...]) | None
    def ev(self, e, env, T, mod, depth=0):
        if depth > 6:
            return None
        if isinstance(e, ast.Constant):
            if isinstance(e.value, bool):
                return e.value
            if isinstance(e.value, (int, float)):
                return ("num", {}) if e.value == 0 else None
            return None
        if isinstance(e, ast.Name):
            return env.get(e.id)
        if isinstance(e, ast.BoolOp):
            vals = [self.ev(v, env, T, mod, depth) for v in e.values]
            if isinstance(e.op, ast.And):
                if any(v is False for v in vals):
                    return False
                return None if any(v is None or not isinstance(v, bool) for v in vals) else True
            if any(v is True for v in vals):
                return True
            return None if any(v is None or not isinstance(v, bool) for v in vals) else False
        if isinstance(e, ast.UnaryOp) and isinstance(e.op, ast.Not):
            v = self.ev(e.operand, env, T, mod, depth)
            return (not v) if isinstance(v, bool) else None
        if isinstance(e, ast.Compare) and len(e.ops) == 1:
            # type(x) == C / type(x) is C / type(x) in (C1, C2) / isinstance-free
            l, r = e.left, e.comparators[0]
            for x, y in ((l, r), (r, l)):
                if isinstance(x, ast.Call) and call_name(x) == "type" and len(x.args) == 1:
                    cv = self.ev(x.args[0], env, T, mod, depth)
                    if isinstance(cv, tuple) and cv[0] == "coll":
                        if isinstance(e.ops[0], (ast.Eq, ast.Is)) and isinstance(y, ast.Name):
                            return T[cv[1]] == y.id
                        if isinstance(e.ops[0], (ast.NotEq, ast.IsNot)) and isinstance(y, ast.Name):
                            return T[cv[1]] != y.id
                        if isinstance(e.ops[0], ast.In) and x is l and isinstance(y, (ast.Tuple, ast.List, ast.Set)):
                            return T[cv[1]] in {u(z) for z in y.elts}
            return None
        if isinstance(e, ast.Call) and call_name(e) == "isinstance" and len(e.args) == 2:
            cv = self.ev(e.args[0], env, T, mod, depth)
            if isinstance(cv, tuple) and cv[0] == "coll":
                names = {u(z) for z in e.args[1].elts} if isinstance(e.args[1], ast.Tuple) else {u(e.args[1])}
                return T[cv[1]] in names      # the collider classes are leaves of the hierarchy except Margin wrappers (exact-type domain)
            return None
        if isinstance(e, ast.Attribute) and e.attr == "radius":
            cv = self.ev(e.value, env, T, mod, depth)
            if isinstance(cv, tuple) and cv[0] == "coll":
                return ("num", {cv[1]: 1})
            return None
        if isinstance(e, ast.BinOp) and isinstance(e.op, ast.Add):
            a, b_ = self.ev(e.left, env, T, mod, depth), self.ev(e.right, env, T, mod, depth)
            if isinstance(a, tuple) and a[0] == "num" and isinstance(b_, tuple) and b_[0] == "num":
                out = dict(a[1])
                for k, v in b_[1].items():
                    out[k] = out.get(k, 0) + v
                return ("num", out)
            return None
        if isinstance(e, ast.IfExp):
            t = self.ev(e.test, env, T, mod, depth)
            if isinstance(t, bool):
                return self.ev(e.body if t else e.orelse, env, T, mod, depth)
            return None
        if isinstance(e, ast.Tuple):
            return ("tuple", [self.ev(x, env, T, mod, depth) for x in e.elts])
        if isinstance(e, ast.Subscript) and isinstance(const(e.slice), int):
            v = self.ev(e.value, env, T, mod, depth)
            if isinstance(v, tuple) and v[0] == "tuple" and -len(v[1]) <= const(e.slice) < len(v[1]):
                return v[1][const(e.slice)]
            return None
        if isinstance(e, ast.Call):
            callee = self.idx.resolve_call(mod, e, None)
            fn = getattr(callee, "node", None)
            if isinstance(fn, ast.FunctionDef) and getattr(callee, "cls", None) is None and callee.module.name.startswith("distance3d.gjk"):
                from ..core.inline import bind_args
                b = bind_args(fn, e)
                if b is None:
                    return None
                env2 = {p_: self.ev(a_, env, T, mod, depth + 1) for p_, a_ in b.items()}
                r = self.run(fn.body, env2, T, callee.module, depth + 1)
                return r[1] if r and r[0] == "ret" else None
            return None
        return None

    def run(self, body, env, T, mod, depth=0):
        """('ret', value) | ('fall', None) | ('unknown', None)"""
        for st in body:
            if isinstance(st, ast.Expr):
                continue
            if isinstance(st, ast.Return):
                return ("ret", self.ev(st.value, env, T, mod, depth) if st.value is not None else None)
            if isinstance(st, ast.Assign) and len(st.targets) == 1 and isinstance(st.targets[0], ast.Name):
                env[st.targets[0].id] = self.ev(st.value, env, T, mod, depth)
                continue
            if isinstance(st, ast.AugAssign) and isinstance(st.target, ast.Name) and isinstance(st.op, ast.Add):
                cur, add = env.get(st.target.id), self.ev(st.value, env, T, mod, depth)
                if isinstance(cur, tuple) and cur[0] == "num" and isinstance(add, tuple) and add[0] == "num":
                    out = dict(cur[1])
                    for k, v in add[1].items():
                        out[k] = out.get(k, 0) + v
                    env[st.target.id] = ("num", out)
                else:
                    env[st.target.id] = None if (isinstance(cur, tuple) and cur[0] == "num") or cur is None else cur
                continue
            if isinstance(st, ast.If):
                t = self.ev(st.test, env, T, mod, depth)
                if isinstance(t, bool):
                    r = self.run(st.body if t else st.orelse, env, T, mod, depth)
                    if r[0] != "fall":
                        return r
                    continue
                # unknown test: both arms must leave the tracked state alone
                e1, e2 = dict(env), dict(env)
                r1, r2 = self.run(st.body, e1, T, mod, depth), self.run(st.orelse, e2, T, mod, depth)
                if r1[0] != "fall" or r2[0] != "fall":
                    return ("unknown", None)
                for k in set(e1) | set(e2):
                    env[k] = e1.get(k) if e1.get(k) == e2.get(k) else None
                continue
            if isinstance(st, ast.For) and isinstance(st.iter, (ast.Tuple, ast.List)) and 0 < len(st.iter.elts) <= 4 and isinstance(st.target, ast.Name) and not st.orelse:
                # a literal loop over the colliders (`for c in (collider0, collider1)`): the body once per element
                stop = None
                for el in st.iter.elts:
                    env[st.target.id] = self.ev(el, env, T, mod, depth)
                    r = self.run(st.body, env, T, mod, depth)
                    if r[0] != "fall":
                        stop = r
                        break
                if stop is not None:
                    return stop
                continue
            if isinstance(st, (ast.While, ast.For)):
                return ("loop", st)
            # other statements (stores into arrays, asserts): cannot change the inflation
            for n in ast.walk(st):
                if isinstance(n, ast.Name) and isinstance(n.ctx, ast.Store):
                    env[n.id] = None
        return ("fall", None)


def _inflation_name(f):
    """the accumulator that is subtracted from the distance / added to the upper bound (`upper_bound += X`, `... - X`)"""
    for st in ast.walk(f.node):
        if isinstance(st, ast.AugAssign) and isinstance(st.op, ast.Add) and u(st.target) == "upper_bound" and isinstance(st.value, ast.Name):
            return st.value.id
    for st in ast.walk(f.node):
        if isinstance(st, ast.Call) and (call_name(st) or "").endswith("run_gjk_nesterov_accelerated") and len(st.args) >= 2 and isinstance(st.args[1], ast.Name):
            return st.args[1].id
    return None


def _enumerate(idx, rep, rule, f, U, colliders, tspec, specialised, tcore, tag):
    infl = _inflation_name(f)
    if infl is None:
        raise AnalysisError("%s: the inflation accumulator (`upper_bound += X` / 2nd argument of run_gjk_nesterov_accelerated) was not found" % f.key)
    it = _InflationInterp(idx, f, colliders, tspec)
    n_unknown = 0
    for T in itertools.product(U, U):
        env = {colliders[0]: ("coll", 0), colliders[1]: ("coll", 1)}
        r = it.run(f.node.body, env, T, f.module)
        val = env.get(infl)
        # the set-up ends at the main loop or at the hand-over to the shared loop (a return of a call that receives the accumulator)
        counts = val[1] if isinstance(val, tuple) and val[0] == "num" else None
        for side in (0, 1):
            want = specialised(T) and T[side] in tcore
            key = "%s|%s (%s, %s) side %d" % (f.key, tag, T[0], T[1], side)
            if counts is None or r[0] == "unknown":
                n_unknown += 1
                rep.unknown(rule, key, f.where, "inflation set-up not understood for this pair of classes")
                continue
            added = counts.get(side, 0)
            if added == (1 if want else 0):
                rep.ok(rule, key, f.where, "inflated" if added else "not inflated")
            elif added > 1:
                rep.bad(rule, key, f.where, "the radius of %s is added to the inflation %d times" % (T[side], added))
            elif added:
                rep.bad(rule, key, f.where, "the radius of %s is added to the inflation although the %s support that is used for this pair already includes it "
                                            "(%s): the reported distance is too small by that radius" % (
                                                T[side], "fallback (generic)" if not specialised(T) else "specialised",
                                                "pair is not fully specialised" if not specialised(T) else "its specialised support reads .radius"))
            else:
                rep.bad(rule, key, f.where, "the specialised support of %s ignores its radius but the radius is not added to the inflation: the reported distance is too large" % T[side])
    if n_unknown:
        rep.error("R-INFL: %d pair/side set-ups could not be evaluated in %s" % (n_unknown, f.key))


def _pm_parent(root, node):
    for p_ in ast.walk(root):
        for c_ in ast.iter_child_nodes(p_):
            if c_ is node:
                return p_
    return None


def r_dispatch(idx, rep, rule="R-DISPATCH"):
    rep.rule(rule, "primitives variant: type code k written for a shape is dispatched to that shape's support, and the data slots "
                   "written (axial half extent, radius, half sizes, squared radii) are the slots the support reads", floor=10)
    gd = idx.func(N2 + "::get_data_from_collider")
    sel = idx.func(N2 + "::select_support")
    written = {}   # code -> (Type, data expr, body)
    # one shape for `if T: return data, code` sequences, if/elif/else chains and the single-exit form with a result variable
    from ..core.inline import push_returns
    gd_node = push_returns(gd.node)

    def collect(body):
        for i, st in enumerate(body):
            tt = None
            blk = None
            if isinstance(st, ast.If):
                tt, blk = _type_test(st.test), st.body
                collect(st.orelse)
            elif isinstance(st, ast.Assert):
                tt, blk = _type_test(st.test), body[i + 1:]
            if tt and blk:
                rets = [s for s in blk if isinstance(s, ast.Return) and isinstance(s.value, ast.Tuple)]
                if rets:
                    code = const(rets[0].value.elts[1])
                    loc = {s.targets[0].id: s.value for s in blk if isinstance(s, ast.Assign) and isinstance(s.targets[0], ast.Name)}
                    written[code] = (tt[1], rets[0].value.elts[0], loc)
    collect(gd_node.body)
    read = {}
    sb = sel.node.body
    tparam = sel.params()[1]
    for i, st in enumerate(sb):
        code, blk = None, None
        if isinstance(st, ast.If) and ncmp(st.test) and ncmp(st.test)[0] == "==" and u(ncmp(st.test)[1]) == tparam:
            code, blk = const(ncmp(st.test)[2]), st.body
        elif isinstance(st, ast.Assert) and ncmp(st.test) and ncmp(st.test)[0] == "==":
            code, blk = const(ncmp(st.test)[2]), sb[i + 1:]
        if code is not None and blk:
            cs = calls(blk)
            if cs:
                read[code] = cs[0]
    rep.check(set(written) == set(read) and len(written) >= 5, rule, sel.key + "|same code set", sel.where,
              "type codes written %s, dispatched %s" % (sorted(written), sorted(read)))
    for code in sorted(set(written) & set(read)):
        T, data, loc = written[code]
        callee_name = (call_name(read[code]) or "").split(".")[-1]
        key = "%s|code %s -> %s" % (sel.key, code, T)
        rep.check(callee_name == T.lower() + "_support", rule, key, sel.where,
                  "type code %s is written for %s but dispatched to %s" % (code, T, callee_name), callee_name)
        callee = idx.maybe_func(N2 + "::" + callee_name)
        if callee is None:
            continue
        # slot roles
        slots = {}
        if isinstance(data, ast.Call) and call_name(data) == "np.array" and data.args and isinstance(data.args[0], ast.List):
            for j, e in enumerate(data.args[0].elts):
                e2 = loc.get(u(e), e) if isinstance(e, ast.Name) else e
                attrs = {n.attr for n in ast.walk(e2) if isinstance(n, ast.Attribute)}
                slots[j] = (attrs, e2)
        else:
            e2 = loc.get(u(data), data) if isinstance(data, ast.Name) else data
            slots["*"] = ({n.attr for n in ast.walk(e2) if isinstance(n, ast.Attribute)}, e2)
        dpar = callee.params()[1] if len(callee.params()) > 1 else None
        if dpar is None:
            rep.ok(rule, key + " no data", callee.where, "support needs no data")
            continue
        cloc = {s.targets[0].id: s.value for s in iter_stmts(callee.node.body) if isinstance(s, ast.Assign) and isinstance(s.targets[0], ast.Name)}
        # where does each data slot flow: axial (support[2]) or radial (support[:2] / [0],[1])
        flows = {}
        rets_ = [x for x in iter_stmts(callee.node.body) if isinstance(x, ast.Return) and isinstance(x.value, ast.Name)]
        supname = rets_[-1].value.id if rets_ else "support"
        for s in iter_stmts(callee.node.body):
            if isinstance(s, ast.Assign) and isinstance(s.targets[0], ast.Subscript) and u(s.targets[0].value) == supname:
                tgt = u(s.targets[0].slice)
                role = "axial" if tgt == "2" else ("radial" if tgt in (":2", "0", "1") else ("per-axis" if isinstance(s.targets[0].slice, ast.Name) else tgt))
                for n in ast.walk(s.value):
                    src = None
                    if isinstance(n, ast.Subscript) and u(n.value) == dpar:
                        src = const(n.slice) if const(n.slice) is not None else ("i" if isinstance(n.slice, ast.Name) else u(n.slice))
                    elif isinstance(n, ast.Name) and n.id in cloc and isinstance(cloc[n.id], ast.Subscript) and u(cloc[n.id].value) == dpar:
                        src = const(cloc[n.id].slice)
                    if src is not None:
                        flows.setdefault(src, set()).add(role)
        if T in ("Capsule", "Cylinder"):
            want_roles = {"height": "axial", "length": "axial", "radius": "radial"}
            for j, (attrs, e2) in slots.items():
                for a in attrs & set(want_roles):
                    got = flows.get(j, set())
                    if not flows:
                        # no per-slot flow could be read off at all (vectorised / restructured support): not a statement about the roles
                        rep.unknown(rule, key + " slot %s (%s)" % (j, a), callee.where, "%s does not store its result slot by slot: the role of data[%s] is not derivable" % (callee_name, j))
                        continue
                    rep.check(got == {want_roles[a]}, rule, key + " slot %s (%s)" % (j, a), callee.where,
                              "data[%s] carries the %s of the %s but %s uses it as %s extent" % (j, a, T, callee_name, sorted(got) or "nothing"),
                              "%s -> %s" % (a, want_roles[a]))
                    if a in ("height", "length"):
                        rep.check("/ 2" in u(e2) or "0.5" in u(e2), rule, key + " slot %s half extent" % j, callee.where,
                                  "the axial slot must hold HALF the %s; it holds `%s`" % (a, u(e2)))
        elif T == "Box":
            attrs, e2 = slots.get("*", (set(), None))
            if not flows and "size" in attrs and e2 is not None and ("/ 2" in u(e2) or "0.5" in u(e2)):
                # vectorised support (np.where(dir > 0, e, -e) on the whole data vector): element-wise by construction, no per-axis store to read
                whole = any(isinstance(n_, ast.Name) and n_.id == dpar and not isinstance(_pm_parent(callee.node, n_), ast.Subscript) for n_ in ast.walk(callee.node) if isinstance(n_, ast.Name))
                if whole:
                    rep.ok(rule, key + " half sizes per axis", callee.where, "element-wise on the whole data vector")
                else:
                    rep.unknown(rule, key + " half sizes per axis", callee.where, "box_support neither stores per axis nor uses the data vector element-wise")
                continue
            rep.check("size" in attrs and e2 is not None and ("/ 2" in u(e2) or "0.5" in u(e2)) and flows.get("i") == {"per-axis"}, rule, key + " half sizes per axis", callee.where,
                      "box data must be size / 2 and box_support must use data[i] on axis i (data = `%s`, flows %s)" % (u(e2) if e2 is not None else None, flows))
        elif T == "Ellipsoid":
            def square_of(e):
                """what `e` is the square of (text), or None: x * x, x ** 2, np.square(x), np.power(x, 2)"""
                if isinstance(e, ast.BinOp) and isinstance(e.op, ast.Mult) and u(e.left) == u(e.right):
                    return u(e.left)
                if isinstance(e, ast.BinOp) and isinstance(e.op, ast.Pow) and const(e.right) in (2, 2.0):
                    return u(e.left)
                if isinstance(e, ast.Call) and call_name(e) == "np.square" and len(e.args) == 1 and not e.keywords:
                    return u(e.args[0])
                if isinstance(e, ast.Call) and call_name(e) == "np.power" and len(e.args) == 2 and const(e.args[1]) in (2, 2.0):
                    return u(e.args[0])
                return None
            if set(slots) == {"*"}:
                # the whole vector at once: element-wise square of the radii keeps the axis order by construction
                good = (square_of(slots["*"][1]) or "").endswith(".radii")
            else:
                good = len(slots) == 3 and all((square_of(slots[j][1]) or "").replace(" ", "").endswith(".radii[%d]" % j) for j in range(3))
            rep.check(good, rule, key + " squared radii in order", callee.where,
                      "ellipsoid data must be (r0^2, r1^2, r2^2) in axis order; got %s" % [u(slots[j][1]) for j in sorted(slots) if j != "*"])


def _tree(body, locs):
    """Decision tree of a statement list: ('if', cond, T, F) | ('leaf', text)"""
    out = []
    for st in body:
        if isinstance(st, ast.If):
            t, f_ = _tree(st.body, locs), _tree(st.orelse, locs)
            if t == f_:
                out.extend(t)
            else:
                out.append(("if", u(st.test), tuple(t), tuple(f_)))
        elif isinstance(st, ast.Assign) and isinstance(st.value, ast.Call) and (call_name(st.value) or "").startswith(("region_", "origin_to_")):
            out.append(("leaf", call_name(st.value), u(st.targets[0])))
        elif isinstance(st, ast.Return):
            out.append(("return", u(st.value)))
        elif isinstance(st, ast.Assign) and isinstance(st.targets[0], ast.Name):
            locs[st.targets[0].id] = u(st.value)
        elif isinstance(st, ast.Assign):
            out.append(("stmt", u(st)))
        elif isinstance(st, ast.Expr) and isinstance(st.value, ast.Constant):
            pass
        else:
            out.append(("stmt", u(st)))
    return out


def r_dtree(idx, rep, rule="R-DTREE"):
    rep.rule(rule, "the region decision trees and leaf functions of the two Nesterov files are identical (conditions, local "
                   "definitions, region reached at each leaf)", floor=12)
    names = ["project_line_origin", "project_triangle_origin", "project_tetra_to_origin", "origin_to_point", "origin_to_segment", "origin_to_triangle",
             "region_a", "region_ab", "region_ac", "region_ad", "region_abc", "region_acd", "region_adb"]
    for n in names:
        a = idx.func(N1 + "::" + n)
        b = idx.func(N2 + "::" + n)
        la, lb = {}, {}
        ta = _tree(strip_docstring(a.node.body), la)
        tb = _tree(strip_docstring(b.node.body), lb)
        # index parameters of the generic variant are not part of the decision: drop '*_index' locals
        la = {k: v for k, v in la.items() if not k.endswith("_index")}
        lb = {k: v for k, v in lb.items() if not k.endswith("_index")}
        key = "%s|%s" % (n, "tree")
        if ta == tb and la == lb:
            rep.ok(rule, key, a.where, "%d nodes, %d local definitions" % (_count(ta), len(la)))
            continue
        # the trees differ as syntax: decide whether they differ as PROCEDURES — same returned terms for every assignment of signs to the compared
        # quantities (rules/sibeq.py); only outside that fragment is the syntactic difference itself the verdict
        from . import sibeq
        import copy as _copy
        fa_, fb_ = _copy.deepcopy(a.node), _copy.deepcopy(b.node)
        fa_.body, fb_.body = strip_docstring(fa_.body), strip_docstring(fb_.body)
        try:
            # private helpers that only these functions call (t_b ...) are evaluated through; the leaf functions that are compared in their own right stay calls
            def helpers(m_):
                out_ = {}
                for g_ in m_.functions.values():
                    if g_.cls is None and g_.name not in names and "<locals>" not in g_.qualname and isinstance(g_.node, ast.FunctionDef):
                        h_ = _copy.deepcopy(g_.node)
                        h_.body = strip_docstring(h_.body)
                        out_[g_.name] = h_
                return out_
            verdict_, detail_ = sibeq.compare(fa_, fb_, funcs_a=helpers(a.module), funcs_b=helpers(b.module))
        except sibeq.Unsupported as ex_:
            verdict_, detail_ = None, str(ex_)
        if verdict_ == "same":
            rep.ok(rule, key, a.where, "written differently, same procedure: " + detail_)
            continue
        if verdict_ == "different":
            rep.bad(rule, key, a.where, "%s is a different procedure in %s and %s: %s" % (n, a.module.relpath, b.module.relpath, detail_))
            continue
        if True:
            diff = _first_diff(ta, tb) or "local definitions differ: %s" % sorted(k for k in set(la) | set(lb) if la.get(k) != lb.get(k))
            rep.bad(rule, key, a.where, "%s differs between %s and %s: %s" % (n, a.module.relpath, b.module.relpath, diff))


def _count(t):
    n = 0
    for x in t:
        n += 1
        if x[0] == "if":
            n += _count(x[2]) + _count(x[3])
    return n


def _first_diff(ta, tb, path="root"):
    for i, (x, y) in enumerate(zip(ta, tb)):
        if x == y:
            continue
        if x[0] == "if" and y[0] == "if":
            if x[1] != y[1]:
                return "at %s: condition `%s` vs `%s`" % (path, x[1], y[1])
            return _first_diff(x[2], y[2], path + " > [%s]" % x[1]) or _first_diff(x[3], y[3], path + " > not[%s]" % x[1])
        return "at %s: %s vs %s" % (path, x, y)
    if len(ta) != len(tb):
        return "at %s: %d vs %d statements" % (path, len(ta), len(tb))
    return None


def _ret_kinds(f):
    """kind of every element of f's returned tuple: 'counter' (incremented by 1 in a loop), 'bool' (assigned True/False or a
    comparison), 'array' (np.empty/zeros/array buffer or attribute .points), 'float' (everything else that is assigned arithmetic)"""
    rets = [s for s in iter_stmts(f.node.body) if isinstance(s, ast.Return) and isinstance(s.value, ast.Tuple)]
    if not rets:
        return None
    arity = {len(r.value.elts) for r in rets}
    if len(arity) != 1:
        return None

    def expr_kind(e):
        """kind of a returned element that is written in place (`return True, -inflation, simplex, i` next to `return inside, distance, simplex, i`)"""
        if isinstance(e, ast.Constant):
            return "bool" if isinstance(e.value, bool) else ("float" if isinstance(e.value, (int, float)) else None)
        if isinstance(e, (ast.Compare, ast.BoolOp)) or (isinstance(e, ast.UnaryOp) and isinstance(e.op, ast.Not)):
            return "bool"
        if isinstance(e, (ast.BinOp, ast.UnaryOp)):
            return "float"
        return None
    per_pos = []
    for pos in range(arity.pop()):
        ks = set()
        for r in rets:
            e = r.value.elts[pos]
            ks.add(expr_kind(e) or ("name", u(e)))
        per_pos.append(ks)
    names = []
    for pos, ks in enumerate(per_pos):
        nm = sorted(x[1] for x in ks if isinstance(x, tuple))
        names.append((nm[0] if nm else None, {x for x in ks if not isinstance(x, tuple)}))
    kinds = []
    for n, lits in names:
        if n is None:
            kinds.append(lits.pop() if len(lits) == 1 else "mixed")
            continue
        k = "float"
        assigns = [st for st in iter_stmts(f.node.body) if isinstance(st, ast.Assign) and any(u(t) == n for t in st.targets)]
        augs = [st for st in iter_stmts(f.node.body) if isinstance(st, ast.AugAssign) and u(st.target) == n and isinstance(st.op, ast.Add) and const(st.value) == 1]
        loopvar = any(isinstance(l_, ast.For) and isinstance(l_.target, ast.Name) and l_.target.id == n and isinstance(l_.iter, ast.Call)
                      and (call_name(l_.iter) or "").split(".")[-1] in ("count", "range") for l_ in ast.walk(f.node))
        if augs or loopvar:
            k = "counter"
        elif assigns and all(isinstance(st.value, ast.Constant) and isinstance(st.value.value, bool) or isinstance(st.value, (ast.Compare, ast.BoolOp)) for st in assigns):
            k = "bool"
        elif any(isinstance(st.value, ast.Call) and (call_name(st.value) or "") in ("np.empty", "np.zeros", "np.array") for st in assigns) or "." in n:
            k = "array"
        # the same position written in place on other return paths must agree with the named one
        if lits and lits != {k}:
            k = "mixed"
        kinds.append(k)
    return kinds


def r_tuplerole(idx, rep, rule="R-TUPLEROLE", floor=8):
    rep.rule(rule, "result-tuple wrappers index the element that holds the quantity they are named after; the iteration-count "
                   "helpers drive the same loop with the same arguments as the distance function", floor=floor)
    table = [
        (N1 + "::gjk_nesterov_accelerated_intersection", N1 + "::gjk_nesterov_accelerated", ("inside", "contact", "intersection")),
        (N1 + "::gjk_nesterov_accelerated_distance", N1 + "::gjk_nesterov_accelerated", ("distance",)),
        (N1 + "::gjk_nesterov_accelerated_iterations", N1 + "::gjk_nesterov_accelerated", ("i", "iteration", "iterations")),
        (N2 + "::gjk_nesterov_accelerated_primitives_intersection", N2 + "::run_gjk_nesterov_accelerated", ("inside", "contact", "intersection")),
        (N2 + "::gjk_nesterov_accelerated_primitives_distance", N2 + "::run_gjk_nesterov_accelerated", ("distance",)),
        (N2 + "::gjk_nesterov_accelerated_primitives_iterations", N2 + "::run_gjk_nesterov_accelerated", ("i", "iteration", "iterations")),
        ("distance3d.gjk._gjk_original::gjk_distance_iterations", "distance3d.gjk._gjk_original::gjk_distance_original", ("iteration", "iterations", "i")),
    ]
    for wk, ck, names in table:
        w = idx.func(wk)
        c = idx.func(ck)
        rets = [s for s in iter_stmts(c.node.body) if isinstance(s, ast.Return) and isinstance(s.value, ast.Tuple)]
        if not rets:
            raise AnalysisError("%s no longer returns a tuple" % ck)
        sub = [n for n in ast.walk(w.node) if isinstance(n, ast.Subscript) and isinstance(n.value, ast.Call)]
        ok = False
        why = "wrapper does not index a result tuple"
        want_kind = {"inside": "bool", "distance": "float", "i": "counter", "iteration": "counter"}[names[0]]
        kinds = _ret_kinds(c)
        if sub and kinds:
            k = const(sub[0].slice)
            got = kinds[k] if isinstance(k, int) and -len(kinds) <= k < len(kinds) else None
            # exactly one element of that kind must exist, otherwise the kind does not identify the role
            ok = got == want_kind and kinds.count(want_kind) == 1
            why = "%s takes element %s of %s's result tuple, which is a %s (kinds %s); the %s is expected there" % (
                w.name, k, c.name, got, kinds, {"bool": "boolean intersection flag", "float": "distance", "counter": "iteration counter"}[want_kind])
        rep.check(ok, rule, wk + "|element role", w.where, why)
        if "distance" in names:
            ok2 = any(isinstance(n, ast.Call) and call_name(n) == "max" and any(const(a) in (0, 0.0) for a in n.args) for n in ast.walk(w.node))
            rep.check(ok2, rule, wk + "|clamped at 0", w.where, "negative (penetration) values must be clamped to 0 for the distance")
    # primitives wrapper returns run_gjk's tuple unchanged
    g = idx.func(N2 + "::gjk_nesterov_accelerated_primitives")
    rets = [s for s in iter_stmts(g.node.body) if isinstance(s, ast.Return)]
    rep.check(len(rets) == 1 and isinstance(rets[0].value, ast.Call) and (call_name(rets[0].value) or "").endswith("run_gjk_nesterov_accelerated"), rule,
              g.key + "|forwards the result tuple", g.where, "gjk_nesterov_accelerated_primitives must return run_gjk_nesterov_accelerated(...) unchanged")
    # jolt iteration helper: same call of _distance_loop
    J = "distance3d.gjk._gjk_jolt"
    # call sites reached from each driver (through private helpers of the module): when both drive the loop through ONE shared helper the clause holds
    # by construction; two separate call sites must pass the same argument list
    def loop_calls(fn, depth=0, seen=None):
        seen = seen if seen is not None else set()
        out = list(calls(fn.node, "_distance_loop"))
        for c in calls(fn.node):
            callee = idx.resolve_call(fn.module, c, None)
            if depth < 2 and isinstance(getattr(callee, "node", None), ast.FunctionDef) and callee.module is fn.module and callee.name.startswith("_") \
                    and callee.name != "_distance_loop" and callee.key not in seen:
                seen.add(callee.key)
                out += loop_calls(callee, depth + 1, seen)
        return out
    a = loop_calls(idx.func(J + "::gjk_distance_jolt"))
    b = loop_calls(idx.func(J + "::gjk_distance_jolt_iterations"))
    ok = len(a) == 1 and len(b) == 1 and (a[0] is b[0] or [u(x) for x in a[0].args] == [u(x) for x in b[0].args])
    rep.check(ok, rule, J + "::gjk_distance_jolt_iterations|same _distance_loop call", idx.func(J + "::gjk_distance_jolt_iterations").where,
              "the iteration-count helper must drive _distance_loop with the same argument list as gjk_distance_jolt")
    # aliases in gjk/__init__: gjk / gjk_distance / gjk_intersection
    m = idx.module("distance3d.gjk")
    for alias, target in (("gjk", "gjk_distance_jolt"), ("gjk_distance", "gjk_distance_jolt"), ("gjk_intersection", "gjk_intersection_jolt")):
        node = m.const_nodes.get(alias)
        rep.check(node is not None and u(node) == target, rule, "distance3d.gjk|alias %s" % alias, m.relpath,
                  "distance3d.gjk.%s must be %s (is `%s`)" % (alias, target, u(node) if node is not None else None))


def r_mainloop(idx, rep, rule="R-MAINLOOP"):
    """The main loops of the two Nesterov variants are the same algorithm: gjk_nesterov_accelerated (generic colliders) and
    run_gjk_nesterov_accelerated (primitives) differ only in how supports are obtained, how the inflation is set up and in the
    MeshGraph-only normalised momentum.  Every other statement must have the same SHAPE in both (local names are replaced by a
    placeholder, so the comparison does not depend on how locals are called): a one-sided edit of the bound / termination arithmetic
    makes the two advertised-equivalent distances disagree."""
    import difflib
    import re
    rep.rule(rule, "the main loops of gjk_nesterov_accelerated and run_gjk_nesterov_accelerated are statement-for-statement identical in shape apart "
                   "from support acquisition, inflation set-up, buffer allocation and the MeshGraph-only normalised momentum", floor=1)
    a = idx.func(N1 + "::gjk_nesterov_accelerated")
    b = idx.func(N2 + "::run_gjk_nesterov_accelerated")

    def local_names(f):
        return {n.id for n in ast.walk(f.node) if isinstance(n, ast.Name) and isinstance(n.ctx, ast.Store)}
    differing = ("collider0", "collider1", "minkowski_diff", "select_support")
    # parameters other than the differing ones are placeholders too: `inflation` is a parameter of one variant and a local of the other
    L = local_names(a) | local_names(b) | ((set(a.params()) | set(b.params())) - set(differing))

    def lines(f):
        fn = canon_inline(f.node)
        # the momentum block (`if <acceleration flag>:` — the generic variant carries the MeshGraph-only normalised update there) is where the variants
        # legitimately differ and may be organised differently: it is not part of the comparison
        flags = {p_ for p_ in f.params() if "accel" in p_ or "nesterov" in p_}

        class Drop(ast.NodeTransformer):
            def visit_If(self, n):
                if isinstance(n.test, ast.Name) and n.test.id in flags:
                    return ast.copy_location(ast.Expr(value=ast.Constant(value="momentum block")), n)
                return self.generic_visit(n)
        fn = Drop().visit(fn)
        body = [s for s in fn.body if not (isinstance(s, ast.Expr) and isinstance(s.value, ast.Constant))]
        txt = "\n".join(ast.unparse(s) for s in body)
        return [re.sub(r"[A-Za-z_][A-Za-z_0-9]*", lambda m: "_" if m.group(0) in L else m.group(0), ln) for ln in txt.splitlines()]
    la, lb = lines(a), lines(b)

    # after canon_inline the intermediate `y` is substituted into the direction update
    MOM = ("_ = _ * _ + (1.0 - _) * _", "_ = _ * _ + (1.0 - _) * (_ * _ + (1.0 - _) * _)")

    def exempt(line):
        t = line.strip()
        if any(w in t for w in differing):
            return True
        if re.fullmatch(r"_ = -?[0-9.]+", t) or t in ("if _:", "else:"):
            return True
        if "np.empty(" in t or "np.array(" in t or ".copy()" in t or "np.zeros(" in t:
            return True
        # the momentum block: the generic variant has the extra MeshGraph branch (normalised directions, (i+2)/(i+3)) around the same statements
        if "norm_vector(" in t or re.fullmatch(r"_ = \(_ \+ [12]\) / \(_ \+ 3\)", t) or t in MOM:
            return True
        return False
    bad = []
    for l in difflib.unified_diff(la, lb, lineterm="", n=0):
        if l.startswith(("---", "+++", "@@")):
            continue
        if not exempt(l[1:]):
            bad.append(l)
    key = "%s|same statements as %s" % (a.key, b.name)
    sibling_verdict(rep, rule, key, a.where, bad,
                    "the two Nesterov main loops diverge outside the known differences: %s (`-` generic variant, `+` primitives variant, local names shown as `_`) — one of "
                    "them was edited alone, so gjk_nesterov_accelerated_distance and gjk_nesterov_accelerated_primitives_distance no longer run the same algorithm" % bad[:4],
                    "%d / %d statement lines compared" % (len(la), len(lb)), small=3)


def r_supportsibling(idx, rep, rule="R-SUPPORTSIBLING"):
    """box / capsule / cylinder support functions exist twice (generic collider objects; primitives data arrays with pre-halved sizes).
    Up to how the shape data is read (attribute vs array slot, size/2 vs stored half size) they are the same code: a one-sided edit makes the
    two Nesterov variants answer differently for the same pair."""
    import copy
    import difflib
    import re
    rep.rule(rule, "the specialised support functions of the two Nesterov files (box, capsule, cylinder) have the same statement shapes once shape-data "
                   "access (obj.attr / data[k], size / 2 vs stored half size) is abstracted away", floor=3)
    a = idx.module(N1)
    b = idx.module(N2)

    class _Data(ast.NodeTransformer):
        def __init__(self, p):
            self.p = p

        def visit_Attribute(self, n):
            self.generic_visit(n)
            if isinstance(n.value, ast.Name) and n.value.id in (self.p, "DATA"):
                return ast.Name(id="DATA", ctx=ast.Load())
            return n

        def visit_Subscript(self, n):
            self.generic_visit(n)
            if isinstance(n.value, ast.Name) and n.value.id in (self.p, "DATA"):
                return ast.Name(id="DATA", ctx=ast.Load())
            return n

        def visit_BinOp(self, n):
            self.generic_visit(n)
            # DATA / 2  ==  stored half size
            if isinstance(n.op, ast.Div) and const(n.right) in (2, 2.0):
                inner = n.left.operand if isinstance(n.left, ast.UnaryOp) and isinstance(n.left.op, ast.USub) else n.left
                if isinstance(inner, ast.Name) and inner.id == "DATA":
                    return n.left
            if isinstance(n.op, ast.Mult) and const(n.left) == 0.5 and isinstance(n.right, ast.Name) and n.right.id == "DATA":
                return n.right
            return n

    def shape(f):
        node = _Data(f.params()[1]).visit(canon_inline(f.node))
        L = {n.id for n in ast.walk(node) if isinstance(n, ast.Name) and isinstance(n.ctx, ast.Store)} | set(f.params())
        body = [s for s in node.body if not (isinstance(s, ast.Expr) and isinstance(s.value, ast.Constant))]
        txt = "\n".join(ast.unparse(s) for s in body)
        return re.sub(r"[A-Za-z_][A-Za-z_0-9]*", lambda m: "_" if m.group(0) in L else m.group(0), txt).splitlines()
    for name in ("box_support", "capsule_support", "cylinder_support"):
        fa, fb = a.functions.get(name), b.functions.get(name)
        if fa is None or fb is None:
            raise AnalysisError("%s missing in one of the Nesterov files" % name)
        d = [l for l in difflib.unified_diff(shape(fa), shape(fb), lineterm="", n=0) if not l.startswith(("---", "+++", "@@"))]
        sibling_verdict(rep, rule, "%s|same shape as the primitives variant" % fa.key, fa.where, d,
                        "%s differs between the generic and the primitives file beyond data access: %s (`-` generic, `+` primitives; names shown as `_`, shape data as DATA) — "
                        "one copy was edited alone" % (name, d[:6]), "%d lines" % len(shape(fa)))
