"""Semantic comparison of two sibling implementations of one decision procedure (R-DTREE).

The region code of the two Nesterov files is a case analysis on the SIGNS of a handful of scalar products.  Two versions are the same procedure iff, for
every assignment of signs (-, 0, +) to those quantities, they return the same terms.  Each function is evaluated — by interpretation of its syntax tree —
with locals substituted into the expressions they feed (so temporaries, tuple assignment, single-exit result variables, merged or split branches and
guard clauses do not matter), comparisons against zero decided by the sign assignment, and what is returned rendered as one canonical term.  The set of
compared quantities is discovered on demand.  Anything outside this fragment (loops, tests that are not sign tests) raises Unsupported: the caller
then falls back to the syntactic comparison."""
import ast
import copy
import itertools

from ..core.astutil import u, assign_pairs


class Unsupported(Exception):
    pass


class NeedAtom(Exception):
    def __init__(self, text):
        self.text = text


class _Ret(Exception):
    def __init__(self, v):
        self.v = v


def _subst(e, env):
    class T(ast.NodeTransformer):
        def visit_Name(self, n):
            if isinstance(n.ctx, ast.Load) and n.id in env:
                return copy.deepcopy(env[n.id])
            return n
    return T().visit(copy.deepcopy(e))


def _strip_copies(e):
    """np.copy(x) / x.copy() denote the value of x: whether a copy is NEEDED (the argument may be a view of a row that is overwritten) is decided by
    R-ROWALIAS on the rows the call sites really pass, not by comparing the two files"""
    class T(ast.NodeTransformer):
        def visit_Call(self, n):
            self.generic_visit(n)
            if u(n.func) in ("np.copy", "numpy.copy") and len(n.args) == 1 and not n.keywords:
                return n.args[0]
            if isinstance(n.func, ast.Attribute) and n.func.attr == "copy" and not n.args and not n.keywords:
                return n.func.value
            return n
    return T().visit(e)


def _is_zero(e):
    return isinstance(e, ast.Constant) and isinstance(e.value, (int, float)) and not isinstance(e.value, bool) and e.value == 0


class SignEval:
    def __init__(self, fnode, signs, funcs=None, depth=0):
        self.fn, self.signs = fnode, signs
        self.funcs = funcs or {}          # name -> FunctionDef of the same file: their calls are evaluated, not compared by name and argument list
        self.depth = depth
        self.effects = {}

    # --- three-valued conditions decided by the sign assignment
    def sign_of(self, e):
        neg = False
        while isinstance(e, ast.UnaryOp) and isinstance(e.op, ast.USub):
            e, neg = e.operand, not neg
        t = u(e)
        if t not in self.signs:
            raise NeedAtom(t)
        return -self.signs[t] if neg else self.signs[t]

    def cond(self, e):
        if isinstance(e, ast.Constant) and isinstance(e.value, bool):
            return e.value
        if isinstance(e, ast.UnaryOp) and isinstance(e.op, ast.Not):
            return not self.cond(e.operand)
        if isinstance(e, ast.BoolOp):
            vals = [self.cond(v) for v in e.values]
            return all(vals) if isinstance(e.op, ast.And) else any(vals)
        if isinstance(e, ast.Compare):
            left, out = e.left, True
            for op, right in zip(e.ops, e.comparators):
                if _is_zero(right):
                    s = self.sign_of(left)
                elif _is_zero(left):
                    s = -self.sign_of(right)
                else:
                    s = self.sign_of(ast.BinOp(left=left, op=ast.Sub(), right=right))
                r = {ast.Lt: s < 0, ast.LtE: s <= 0, ast.Gt: s > 0, ast.GtE: s >= 0, ast.Eq: s == 0, ast.NotEq: s != 0}.get(type(op))
                if r is None:
                    raise Unsupported("comparison operator")
                out = out and r
                left = right
            return out
        raise Unsupported("condition `%s` is not a sign test" % u(e)[:60])

    # --- values: expressions with locals substituted; boolean-valued sign tests folded
    def value(self, e, env):
        return self.fold(self.enter_calls(_strip_copies(_subst(e, env))))

    def enter_calls(self, e):
        """calls of functions of the same file are replaced by what they return for these arguments (a helper whose signature was changed together with
        its callers is then compared by what it computes)"""
        if self.depth >= 2 or not self.funcs:
            return e
        ev = self

        class T(ast.NodeTransformer):
            def visit_Call(self, n):
                self.generic_visit(n)
                if isinstance(n.func, ast.Name) and n.func.id in ev.funcs and not n.keywords:
                    fn = ev.funcs[n.func.id]
                    ps = [a.arg for a in fn.args.args]
                    if len(ps) == len(n.args) and not any(isinstance(x, (ast.For, ast.While)) or (isinstance(x, (ast.Subscript, ast.Attribute)) and isinstance(x.ctx, ast.Store))
                                                          for x in ast.walk(fn)):
                        sub = SignEval(fn, ev.signs, ev.funcs, ev.depth + 1)
                        env = dict(zip(ps, n.args))
                        try:
                            sub.run(fn.body, env)
                        except _Ret as r:
                            return r.v
                        except Unsupported:
                            return n
                return n
        return T().visit(e)

    def fold(self, e):
        """sign tests in BOOLEAN positions (a compared scalar against zero, and / or / not of such, the test of a conditional expression) are decided;
        nothing inside a call is touched (`np.all(a == 0.0)` compares a vector)"""
        if isinstance(e, (ast.Tuple, ast.List)):
            e.elts = [self.fold(x) for x in e.elts]
            return e
        if isinstance(e, ast.Compare) and not any(isinstance(x, ast.Call) and not (u(x.func).endswith("dot")) for x in ast.walk(e)):
            try:
                return ast.Constant(value=self.cond(e))
            except Unsupported:
                return e
        if isinstance(e, ast.UnaryOp) and isinstance(e.op, ast.Not):
            e.operand = self.fold(e.operand)
            if isinstance(e.operand, ast.Constant) and isinstance(e.operand.value, bool):
                return ast.Constant(value=not e.operand.value)
            return e
        if isinstance(e, ast.BoolOp):
            vals = []
            for v in e.values:
                v = self.fold(v)
                if isinstance(v, ast.Constant) and isinstance(v.value, bool):
                    if (isinstance(e.op, ast.And) and not v.value) or (isinstance(e.op, ast.Or) and v.value):
                        return v              # left-to-right: the operands before it were neutral
                    continue
                vals.append(v)
            if not vals:
                return ast.Constant(value=isinstance(e.op, ast.And))
            if len(vals) == 1:
                return vals[0]
            e.values = vals
            return e
        if isinstance(e, ast.IfExp):
            e.test = self.fold(e.test)
            if isinstance(e.test, ast.Constant) and isinstance(e.test.value, bool):
                return self.fold(e.body if e.test.value else e.orelse)
            e.body, e.orelse = self.fold(e.body), self.fold(e.orelse)
            return e
        return e

    def run(self, stmts, env):
        for st in stmts:
            if isinstance(st, ast.Return):
                raise _Ret(self.value(st.value, env) if st.value is not None else ast.Constant(value=None))
            if isinstance(st, ast.Assign):
                for t, v in assign_pairs(st):
                    val = self.value(v, env)
                    if isinstance(t, ast.Name):
                        env[t.id] = val
                    elif isinstance(t, (ast.Tuple, ast.List)) and all(isinstance(x, ast.Name) for x in t.elts):
                        for i, x in enumerate(t.elts):          # unpacking a call result: element i of that call
                            env[x.id] = ast.Subscript(value=copy.deepcopy(val), slice=ast.Constant(value=i), ctx=ast.Load())
                    elif isinstance(t, (ast.Subscript, ast.Attribute)):
                        # an effect on an argument: part of what the procedure does (last store into a place wins)
                        self.effects[u(_subst(t, env)).replace(" ", "")] = u(val).replace(" ", "")
                    else:
                        raise Unsupported("store into `%s`" % u(t)[:40])
            elif isinstance(st, ast.AugAssign) and isinstance(st.target, ast.Name):
                env[st.target.id] = self.value(ast.BinOp(left=ast.Name(id=st.target.id, ctx=ast.Load()), op=st.op, right=st.value), env)
            elif isinstance(st, ast.If):
                self.run(st.body if self.cond(_subst(st.test, env)) else st.orelse, env)
            elif isinstance(st, (ast.Expr, ast.Assert, ast.Pass)):
                continue
            else:
                raise Unsupported("statement %s" % type(st).__name__)

    def result(self):
        env = {}
        try:
            self.run(self.fn.body, env)
        except _Ret as r:
            eff = "".join(";%s<-%s" % kv for kv in sorted(self.effects.items()))
            return u(r.v).replace(" ", "") + eff
        return "<falls off the end>" + "".join(";%s<-%s" % kv for kv in sorted(self.effects.items()))


def _subst_params(fn, ren):
    fn = copy.deepcopy(fn)
    for n in ast.walk(fn):
        if isinstance(n, ast.Name) and n.id in ren:
            n.id = ren[n.id]
        if isinstance(n, ast.arg) and n.arg in ren:
            n.arg = ren[n.arg]
    return fn


def compare(fa, fb, max_atoms=7, funcs_a=None, funcs_b=None):
    """-> (verdict, detail): verdict 'same' | 'different' (detail = the sign case and the two results) | raises Unsupported"""
    pa = [x.arg for x in fa.args.args]
    pb = [x.arg for x in fb.args.args]
    if len(pa) != len(pb):
        raise Unsupported("different arity")
    if pa != pb:
        fb = _subst_params(fb, dict(zip(pb, pa)))
    atoms = []
    while True:
        need = None
        for combo in itertools.product((-1, 0, 1), repeat=len(atoms)):
            signs = dict(zip(atoms, combo))
            try:
                ra = SignEval(fa, signs, funcs_a).result()
                rb = SignEval(fb, signs, funcs_b).result()
            except NeedAtom as n:
                need = n.text
                break
            if ra != rb:
                case = ", ".join("%s %s 0" % (a, {-1: "<", 0: "==", 1: ">"}[s]) for a, s in signs.items())
                return "different", "for %s the first returns `%s`, the second `%s`" % (case or "every input", ra[:160], rb[:160])
        if need is None:
            return "same", "%d sign cases over %s" % (3 ** len(atoms), atoms)
        if need in atoms or len(atoms) >= max_atoms:
            raise Unsupported("more than %d compared quantities" % max_atoms)
        atoms.append(need)
