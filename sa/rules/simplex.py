"""Table rules for the Jolt-style simplex solvers (C01, C18).

R-BITMAP     every sub-solver call closest_point_triangle(x,y,z) / closest_point_line(x,y) inside a larger solver is followed
             by a remap of its feature mask that sends local bit i to the bit of the i-th argument (evaluated over all
             masks by constant evaluation of the integer expression in the ast).
R-MASKPOINT  a returned (point, mask) pair names exactly the vertices the point is built from.
R-PLANES     entry i of origin_outside_of_tetrahedron_planes tests the face that the i-th guarded sub-solver call of
             closest_point_tetrahedron solves, with the opposite vertex on the other side.
R-SOLVERDISPATCH get_closest_point_to_origin hands Y[0..k-1] in order to the k-point solver; candidates replace the
             incumbent only under a strict `<`.
"""
import ast

from ..core.inline import expand_helpers

from ..core.astutil import assign_pairs, u, call_name, calls, iter_stmts, const, parent_map, ncmp, dot_args, index_elts, guard_chain, resolve_atoms, resolved
from ..core.index import AnalysisError

J = "distance3d.gjk._gjk_jolt"


def eval_int(node, env):
    """Evaluate an integer expression over names bound in env (constant evaluation, no repo code is executed)."""
    if isinstance(node, ast.Constant) and isinstance(node.value, int):
        return node.value
    if isinstance(node, ast.Name) and node.id in env:
        return env[node.id]
    if isinstance(node, ast.BinOp):
        a, b = eval_int(node.left, env), eval_int(node.right, env)
        if a is None or b is None:
            return None
        ops = {ast.Add: lambda: a + b, ast.Sub: lambda: a - b, ast.BitAnd: lambda: a & b, ast.BitOr: lambda: a | b,
               ast.BitXor: lambda: a ^ b, ast.LShift: lambda: a << b, ast.RShift: lambda: a >> b, ast.Mult: lambda: a * b}
        fn = ops.get(type(node.op))
        return fn() if fn else None
    if isinstance(node, ast.UnaryOp) and isinstance(node.op, ast.Invert):
        v = eval_int(node.operand, env)
        return None if v is None else ~v
    return None


def _sub_calls(f, names):
    """[(stmt, call, point target, mask target)] for `p, m = closest_point_xxx(args)` statements."""
    out = []
    for st in iter_stmts(f.node.body):
        if isinstance(st, ast.Assign) and isinstance(st.value, ast.Call) and (call_name(st.value) or "").split(".")[-1] in names \
                and isinstance(st.targets[0], ast.Tuple) and len(st.targets[0].elts) == 2:
            out.append((st, st.value, u(st.targets[0].elts[0]), u(st.targets[0].elts[1])))
    return out


def r_bitmap(idx, rep, rule="R-BITMAP"):
    rep.rule(rule, "feature masks of sub-simplex solvers are remapped to the bits of the vertices they were called with "
                   "(a,b,c,d = bits 0..3), for every possible mask", floor=6)
    for fname, subs in (("closest_point_tetrahedron", ("closest_point_triangle",)), ("closest_point_triangle", ("closest_point_line",))):
        f = idx.func(J + "::" + fname)
        params = f.params()
        bit = {p: i for i, p in enumerate(params)}
        sc = _sub_calls(f, subs)
        if len(sc) < (4 if fname.endswith("tetrahedron") else 3):
            raise AnalysisError("%s: expected %d sub-solver calls, found %d" % (fname, 4 if fname.endswith("tetrahedron") else 3, len(sc)))
        pm = parent_map(f.node)
        # the name that is finally returned as mask
        rets = [s for s in iter_stmts(f.node.body) if isinstance(s, ast.Return) and isinstance(s.value, ast.Tuple)]
        final_mask = None
        for r in rets:
            if isinstance(r.value.elts[1], ast.Name):
                final_mask = r.value.elts[1].id
        for st, call, ptgt, mtgt in sc:
            args = [u(a) for a in call.args]
            key = "%s|%s(%s)" % (f.key, call_name(call), ", ".join(args))
            where = "%s:%d" % (f.module.relpath, st.lineno)
            if any(a not in bit for a in args):
                rep.bad(rule, key, where, "sub-solver is called with %s, not with vertices of this simplex" % args)
                continue
            n = len(args)
            if mtgt == final_mask:
                # direct: identity map requires the first n vertices in order
                good = [bit[a] for a in args] == list(range(n))
                rep.check(good, rule, key + " identity", where,
                          "the sub-solver's mask is used unchanged although it was called with %s (bits %s)" % (args, [bit[a] for a in args]),
                          "identity")
                continue
            # find the remap: final_mask = expr(mtgt) in the block that follows this call (guarded by the strict compare)
            blk = None
            par = pm.get(st)
            for fld in ("body", "orelse"):
                b = getattr(par, fld, None)
                if isinstance(b, list) and st in b:
                    blk = b
            remap = None
            for s2 in iter_stmts(blk[blk.index(st) + 1:] if blk else []):
                if isinstance(s2, ast.Assign) and u(s2.targets[0]) == final_mask and mtgt in {x.id for x in ast.walk(s2.value) if isinstance(x, ast.Name)}:
                    remap = s2
                    break
                if isinstance(s2, ast.Assign) and isinstance(s2.value, ast.Call) and isinstance(s2.targets[0], ast.Tuple):
                    break   # next sub-solver call
            if remap is None:
                rep.bad(rule, key + " remap", where, "no remap of the sub-solver mask `%s` into `%s` follows this call" % (mtgt, final_mask))
                continue
            bad = []
            remap_value = expand_helpers(idx, f.module, remap.value)      # the remap may have been extracted into a helper
            for mask in range(1, 2 ** n):
                got = eval_int(remap_value, {mtgt: mask})
                want = sum(((mask >> i) & 1) << bit[args[i]] for i in range(n))
                if got != want:
                    bad.append((mask, got, want))
            rep.check(not bad, rule, key + " remap", "%s:%d" % (f.module.relpath, remap.lineno),
                      "`%s` maps local mask %s to %s but the vertices (%s) are bits %s: expected %s" % (
                          u(remap), bin(bad[0][0]) if bad else "", bin(bad[0][1]) if bad and bad[0][1] is not None else "?",
                          ", ".join(args), [bit[a] for a in args], bin(bad[0][2]) if bad else ""),
                      "all %d masks map to the bits of (%s)" % (2 ** n - 1, ", ".join(args)))
            # the point moves together with the mask, under a strict comparison
            iff = pm.get(remap)
            ok = False
            if isinstance(iff, ast.If) and ncmp(iff.test) is not None and ncmp(iff.test)[0] == "<":
                pts = []
                for s in iff.body:
                    if not isinstance(s, ast.Assign) or len(s.targets) != 1:
                        continue
                    t_, v_ = s.targets[0], s.value
                    pairs = list(zip(t_.elts, v_.elts)) if isinstance(t_, ast.Tuple) and isinstance(v_, ast.Tuple) and len(t_.elts) == len(v_.elts) else [(t_, v_)]
                    pts += [a_ for a_, b_ in pairs if u(b_) == ptgt]
                ok = len(pts) == 1
            rep.check(ok, rule, key + " point-with-mask", "%s:%d" % (f.module.relpath, remap.lineno),
                      "the candidate point `%s` and its mask are not adopted together under a strict `<` comparison" % ptgt,
                      "adopted together under strict <")


def _vertex_sets(f):
    """local name -> set of vertex parameters it is built from (edges ab = b - a, normals ...)."""
    params = f.params()
    vs = {p: {p} for p in params}
    for st in iter_stmts(f.node.body):
        if isinstance(st, ast.Assign) and isinstance(st.targets[0], ast.Name):
            used = set()
            for n in ast.walk(st.value):
                if isinstance(n, ast.Name) and n.id in vs:
                    used |= vs[n.id]
            if used and st.targets[0].id not in params:
                vs[st.targets[0].id] = vs.get(st.targets[0].id, set()) | used
    return vs


def r_maskpoint(idx, rep, rule="R-MASKPOINT"):
    rep.rule(rule, "a returned (point, feature mask) pair names exactly the vertices the point is built from", floor=6)
    for fname in ("closest_point_line", "closest_point_triangle"):
        f = idx.func(J + "::" + fname)
        params = f.params()
        bit = {p: i for i, p in enumerate(params)}
        vs = _vertex_sets(f)
        scal = set()
        # scalars (barycentric weights, dot products) do not name vertices: names assigned from dot()/arithmetics of scalars
        for st in iter_stmts(f.node.body):
            if isinstance(st, ast.Assign) and isinstance(st.targets[0], ast.Name):
                v = st.value
                def is_scalar(e):
                    if dot_args(e) is not None or isinstance(e, ast.Constant):
                        return True
                    if isinstance(e, ast.Name):
                        return e.id in scal
                    if isinstance(e, ast.UnaryOp):
                        return is_scalar(e.operand)
                    if isinstance(e, ast.BinOp):
                        return is_scalar(e.left) and is_scalar(e.right)
                    return False
                if not isinstance(v, (ast.Constant, ast.Name)) and is_scalar(v):
                    scal.add(st.targets[0].id)
            if isinstance(st, ast.Assign) and isinstance(st.targets[0], ast.Tuple) and isinstance(st.value, ast.Call) and "barycentric" in (call_name(st.value) or ""):
                for e in st.targets[0].elts:
                    scal.add(u(e))
        for r in [s for s in iter_stmts(f.node.body) if isinstance(s, ast.Return) and isinstance(s.value, ast.Tuple) and len(s.value.elts) == 2]:
            pt, mk = r.value.elts
            mask = const(mk)
            if not isinstance(mask, int):
                continue
            used = set()
            for n in ast.walk(pt):
                if isinstance(n, ast.Name) and n.id in vs and n.id not in scal:
                    used |= vs[n.id]
                # scalar helpers such as (a + b + c).dot(n) are part of the point expression too
            want = sum(1 << bit[v] for v in used if v in bit)
            key = "%s|return %s, %s" % (f.key, u(pt), bin(mask))
            rep.check(mask == want, rule, key, "%s:%d" % (f.module.relpath, r.lineno),
                      "the returned point `%s` is built from vertices %s (mask %s) but the reported feature mask is %s" % (u(pt), sorted(used), bin(want), bin(mask)),
                      "mask names %s" % sorted(used))


def r_planes(idx, rep, rule="R-PLANES"):
    rep.rule(rule, "entry i of origin_outside_of_tetrahedron_planes is the plane of the face solved by the i-th guarded call of "
                   "closest_point_tetrahedron, tested from a vertex of that face, with the fourth vertex as the inside reference",
             floor=8)
    f = idx.func(J + "::origin_outside_of_tetrahedron_planes")
    g = idx.func(J + "::closest_point_tetrahedron")
    params = f.params()
    loc = {}
    for st in iter_stmts(f.node.body):
        if isinstance(st, ast.Assign) and isinstance(st.targets[0], ast.Name):
            loc[st.targets[0].id] = st.value

    def edge(name):
        """edge vector name -> (from, to) or None; handles negation."""
        neg = False
        n = name
        if isinstance(n, ast.UnaryOp) and isinstance(n.op, ast.USub):
            neg, n = True, n.operand
        v = loc[n.id] if isinstance(n, ast.Name) and n.id in loc else n          # a named edge or the difference written in place
        if isinstance(v, ast.BinOp) and isinstance(v.op, ast.Sub) and u(v.left) in params and u(v.right) in params:
            fr, to = u(v.right), u(v.left)
            return (to, fr) if neg else (fr, to)
        return None

    def face_of_normal(n):
        v = loc[n.id] if isinstance(n, ast.Name) and n.id in loc else n
        if isinstance(v, ast.Call) and (call_name(v) or "").endswith("cross") and len(v.args) == 2:
            e1, e2 = edge(v.args[0]), edge(v.args[1])
            if e1 and e2:
                return set(e1) | set(e2)
        return None

    def entries(arrname):
        v = loc.get(arrname)
        if isinstance(v, ast.Call) and call_name(v) == "np.array" and v.args and isinstance(v.args[0], ast.List):
            out = []
            for e in v.args[0].elts:
                e = loc.get(u(e), e) if isinstance(e, ast.Name) else e
                out.append(e)
            return out
        return None
    # the two 4-entry arrays: `signd` is the one tested with np.all(X > 0) / np.all(X < 0), `signp` the one compared in the returns
    arr4 = [n for n, v in loc.items() if isinstance(v, ast.Call) and call_name(v) == "np.array" and v.args and isinstance(v.args[0], ast.List) and len(v.args[0].elts) == 4]
    dname = None
    for n in ast.walk(f.node):
        if isinstance(n, ast.Call) and call_name(n) == "np.all" and n.args and ncmp(n.args[0]) is not None:
            for side in ncmp(n.args[0])[1:]:
                if isinstance(side, ast.Name) and side.id in arr4:
                    dname = side.id
    pname = [n for n in arr4 if n != dname]
    sp, sd = entries(pname[0]) if pname else None, entries(dname) if dname else None
    if not sp or not sd or len(sp) != 4 or len(sd) != 4:
        raise AnalysisError("origin_outside_of_tetrahedron_planes: signp / signd arrays of four entries not found")
    # guarded calls in closest_point_tetrahedron
    guarded = []
    arrname = None
    for st in iter_stmts(g.node.body):
        if isinstance(st, ast.Assign) and isinstance(st.value, ast.Call) and (call_name(st.value) or "").endswith("origin_outside_of_tetrahedron_planes"):
            arrname = u(st.targets[0])
            rep.check([u(a) for a in st.value.args] == g.params(), rule, g.key + "|planes called with (a, b, c, d)", "%s:%d" % (g.module.relpath, st.lineno),
                      "the plane test is called with %s, not with the tetrahedron's vertices in order" % [u(a) for a in st.value.args])
    for st in g.node.body:
        if isinstance(st, ast.If) and isinstance(st.test, ast.Subscript) and u(st.test.value) == arrname:
            i = const(st.test.slice)
            cs = calls(st.body, "closest_point_triangle")
            if isinstance(i, int) and cs:
                guarded.append((i, set(u(a) for a in cs[0].args), st))
    if len(guarded) != 4:
        raise AnalysisError("closest_point_tetrahedron: expected four plane-guarded face calls, found %d" % len(guarded))
    gmap = dict((p, q) for p, q in zip(f.params(), g.params()))
    for i, face_args, st in sorted(guarded, key=lambda t: t[0]):
        key = "%s|entry %d" % (f.key, i)
        where = "%s:%d" % (g.module.relpath, st.lineno)
        d = dot_args(sp[i])
        nf = None
        onface = None
        if d:
            for x, y in ((d[0], d[1]), (d[1], d[0])):
                if face_of_normal(y) is not None and u(x) in params:
                    nf, onface = face_of_normal(y), u(x)
        if nf is None:
            rep.bad(rule, key + " plane", where, "signp[%d] = `%s` is not vertex . cross(edge, edge)" % (i, u(sp[i])))
            continue
        face_g = {gmap[v] for v in nf}
        rep.check(face_g == face_args, rule, key + " same face", where,
                  "plane entry %d is the plane of %s but the call it guards solves the face %s" % (i, sorted(face_g), sorted(face_args)),
                  "face %s" % sorted(face_g))
        rep.check(onface in nf, rule, key + " tested from a face vertex", where,
                  "signp[%d] projects vertex %s, which is not on the face %s" % (i, onface, sorted(nf)))
        # inside reference
        dd = sd[i]
        neg = False
        if isinstance(dd, ast.UnaryOp) and isinstance(dd.op, ast.USub):
            neg, dd = True, dd.operand
        d2 = dot_args(dd)
        ok = False
        why = "signd[%d] = `%s` not recognised" % (i, u(sd[i]))
        if d2:
            for x, y in ((d2[0], d2[1]), (d2[1], d2[0])):
                e = edge(x)
                if e and face_of_normal(y) == nf:
                    fr, to = (e[1], e[0]) if neg else e
                    opp = (set(params) - nf)
                    ok = fr in nf and {to} == opp
                    why = "signd[%d] uses the vector %s -> %s; need (vertex of the face) -> (opposite vertex %s)" % (i, fr, to, sorted(opp))
        rep.check(ok, rule, key + " opposite vertex", where, why)


def r_solverdispatch(idx, rep, rule="R-SOLVERDISPATCH"):
    rep.rule(rule, "get_closest_point_to_origin hands Y[0..k-1] in order to the k-point solver, accepts the new point only "
                   "under `v_len_sq < prev`; a rejected point leaves the old simplex bits", floor=5)
    f = idx.func(J + "::get_closest_point_to_origin")
    Y, n = f.params()[0], f.params()[1]
    want = {2: "closest_point_line", 3: "closest_point_triangle", 4: "closest_point_tetrahedron"}
    seen = set()
    for st in ast.walk(f.node):
        if isinstance(st, ast.If) and ncmp(st.test) is not None and u(ncmp(st.test)[1]) == n and ncmp(st.test)[0] == "==":
            k = const(ncmp(st.test)[2])
            if k == 1:
                pairs_ = [pr for s in st.body for pr in assign_pairs(s)]
                masks = [t_ for t_, v_ in pairs_ if const(v_) == 1]
                pts = [t_ for t_, v_ in pairs_ if u(v_) == "%s[0]" % Y]
                rep.check(bool(masks and pts), rule, f.key + "|1 point", "%s:%d" % (f.module.relpath, st.lineno), "1-point case must return Y[0] with mask 0b0001")
                seen.add(1)
            elif k in want:
                cs = calls(st.body, want[k])
                ok = len(cs) == 1 and [u(a) for a in cs[0].args] == ["%s[%d]" % (Y, i) for i in range(k)]
                rep.check(ok, rule, f.key + "|%d points" % k, "%s:%d" % (f.module.relpath, st.lineno),
                          "the %d-point case must call %s(%s)" % (k, want[k], ", ".join("%s[%d]" % (Y, i) for i in range(k))))
                seen.add(k)
    rep.check(seen == {1, 2, 3, 4}, rule, f.key + "|all sizes", f.where, "cases found: %s" % sorted(seen))
    # every `return True, ...` happens under `new squared length < previous squared length` — as an enclosing `if` or behind the guard clause
    # `if not (new < prev): return False, ...` (the negated strict test keeps NaN on the failing side, like the original)
    pm_f = parent_map(f.node)
    succ = [st for st in ast.walk(f.node) if isinstance(st, ast.Return) and isinstance(st.value, ast.Tuple) and const(st.value.elts[0]) is True]
    ok = bool(succ)
    for r_ in succ:
        atoms = resolve_atoms(f.node, guard_chain(pm_f, r_, f.node))
        ok = ok and any(pol is True and ncmp(t_) is not None and ncmp(t_)[0] == "<" and u(ncmp(t_)[2]) == f.params()[2] for t_, pol in atoms)
    rep.check(ok, rule, f.key + "|accept iff strictly closer", f.where, "the new point must be accepted only under `v_len_sq < prev_v_len_sqr` (NaN-safe order)")
    # rejected point in the distance loop: all old bits
    d = idx.func(J + "::_distance_loop")
    fb = [st for st in ast.walk(d.node) if isinstance(st, ast.AugAssign) and isinstance(st.op, ast.BitOr) and "1 << " in u(st.value)]
    ok_fb = len(fb) == 1
    if not ok_fb:
        # closed form: a mask expression that evaluates to the n lowest bits for n = 1..4
        npar = [p_ for p_ in d.params() if p_.startswith("n_")]
        for st in ast.walk(d.node):
            if isinstance(st, ast.Assign) and len(st.targets) == 1 and isinstance(st.targets[0], ast.Name) and npar and isinstance(st.value, ast.BinOp):
                vals = [eval_int(st.value, {npar[0]: k}) for k in (1, 2, 3, 4)]
                if vals == [1, 3, 7, 15]:
                    ok_fb = True
    rep.check(ok_fb, rule, d.key + "|fallback mask keeps the old points", d.where,
              "fallback simplex mask over the old points (`simplex |= 1 << i` for i < n_points, or a closed form that gives the n lowest bits) not found")


def r_weightrole(idx, rep, rule="R-WEIGHTROLE"):
    """get_barycentric_coordinates_plane(a, b, c) returns (u, v, w) = the weights of (a, b, c).  In its degenerate fall-backs the weights of an
    edge come from get_barycentric_coordinates_line(x, y): they must be bound to the return slots of x and y, the third slot is 0; in the
    regular branches one weight is 1 minus the other two (partition of unity)."""
    rep.rule(rule, "jolt barycentric coordinates of a triangle: the weights returned for an edge (x, y) go to the return slots of x and y, the third "
                   "weight is 0.0, and the closed-form branches define one weight as 1 - the other two (weights always sum to 1 and stay with their vertices)",
             floor=6)
    f = idx.func("distance3d.gjk._gjk_jolt::get_barycentric_coordinates_plane")
    ps = f.params()
    rets = [st for st in ast.walk(f.node) if isinstance(st, ast.Return) and isinstance(st.value, ast.Tuple) and len(st.value.elts) == 3]
    if len(rets) != 1 or not all(isinstance(e, ast.Name) for e in rets[0].value.elts):
        raise AnalysisError("get_barycentric_coordinates_plane: single `return u, v, w` expected")
    slots = [e.id for e in rets[0].value.elts]
    slot_of = dict(zip(ps[:3], slots))
    n = 0

    def blocks(body):
        for st in body:
            if isinstance(st, ast.If):
                yield from blocks(st.body)
                yield from blocks(st.orelse)
        yield body
    for blk in blocks(f.node.body):
        for st in blk:
            if isinstance(st, ast.Assign) and isinstance(st.targets[0], ast.Tuple) and isinstance(st.value, ast.Call) \
                    and (call_name(st.value) or "").endswith("get_barycentric_coordinates_line") and len(st.value.args) == 2:
                n += 1
                x, y = [u(a) for a in st.value.args]
                tg = [u(e) for e in st.targets[0].elts]
                where = "%s:%d" % (f.module.relpath, st.lineno)
                key = "%s|edge (%s, %s) weights keep their vertices" % (f.key, x, y)
                want = [slot_of.get(x), slot_of.get(y)]
                third = [s for s in slots if s not in want]
                zero = [s2 for s2 in blk if isinstance(s2, ast.Assign) and len(s2.targets) == 1 and u(s2.targets[0]) in third and const(s2.value) in (0, 0.0)]
                rep.check(tg == want and len(third) == 1 and len(zero) == 1, rule, key, where,
                          "`%s`: the weights of the edge (%s, %s) must be bound to (%s, %s) — the return slots of those vertices — and `%s` set to 0.0; "
                          "otherwise a vertex receives another vertex's weight and the closest points on A and B are built from the wrong vertices (|a - b| != d)"
                          % (u(st), x, y, want[0], want[1], third[0] if third else "?"), "(%s, %s), %s = 0" % (want[0], want[1], third[0] if third else "?"))
            if isinstance(st, ast.Assign) and len(st.targets) == 1 and isinstance(st.targets[0], ast.Name) and st.targets[0].id in slots \
                    and isinstance(st.value, ast.BinOp) and isinstance(st.value.op, ast.Sub):
                # 1.0 - x - y
                terms = []
                e = st.value
                while isinstance(e, ast.BinOp) and isinstance(e.op, ast.Sub):
                    terms.append(u(e.right))
                    e = e.left
                if const(e) in (1, 1.0):
                    n += 1
                    others = sorted(s for s in slots if s != st.targets[0].id)
                    rep.check(sorted(terms) == others, rule, "%s|%s = 1 - the other two" % (f.key, st.targets[0].id), "%s:%d" % (f.module.relpath, st.lineno),
                              "`%s` is not 1 minus the other two weights %s: the weights do not sum to 1" % (u(st), others), "partition of unity")
    if n < 6:
        rep.error("R-WEIGHTROLE: only %d weight bindings found in get_barycentric_coordinates_plane" % n)


# ---------------------------------------------------------------------------------------------------------------------------------
# R-LINEWEIGHTS: the two-point solver of the Jolt GJK.  get_barycentric_coordinates_line(a, b) -> (u, v) with u a + v b the point of the LINE ab closest to the
# origin: u + v = 1 and (u a + v b) . (b - a) = 0 as exact identities in the inner products <a,a>, <a,b>, <b,b> (core/bilin.py: rational normal form, nothing is
# evaluated numerically); on the degenerate branch the weight 1 goes to the end point with the smaller norm.  closest_point_line clamps: a weight <= 0 of one
# end point returns the OTHER end point with that point's own bit, otherwise the combination u a + v b with both bits.
def _scalar_paths(fn, alg_factory):
    """every path through an if-tree of scalar / vector assignments: (conditions [(test, polarity)], Algebra at the return, return node)"""
    from ..core.bilin import NotAlgebraic
    out = []

    def walk(stmts, alg, conds):
        for i, st in enumerate(stmts):
            if isinstance(st, ast.Expr) and isinstance(st.value, ast.Constant):
                continue
            if isinstance(st, ast.Assign):
                for t, v in assign_pairs(st):
                    if isinstance(t, ast.Name):
                        alg.bind(t.id, alg.ev(v))
                    else:
                        raise NotAlgebraic("store into `%s`" % u(t)[:30])
            elif isinstance(st, ast.If):
                import copy as _c
                for arm, pol in ((st.body, True), (st.orelse, False)):
                    a2 = alg_factory()
                    a2.env = dict(alg.env)
                    walk(list(arm) + list(stmts[i + 1:]), a2, conds + [(st.test, pol)])
                return
            elif isinstance(st, ast.Return):
                out.append((conds, alg, st))
                return
            elif isinstance(st, (ast.Assert, ast.Pass)):
                continue
            else:
                raise NotAlgebraic("statement %s" % type(st).__name__)
    walk([s for s in fn.body], alg_factory(), [])
    return out


def r_lineweights(idx, rep, rule="R-LINEWEIGHTS"):
    from ..core.bilin import Algebra, Scalar, NotAlgebraic, p_const, p_add, p_mul
    rep.rule(rule, "get_barycentric_coordinates_line returns (u, v) with u + v = 1 and (u a + v b).(b - a) = 0 identically in the inner products of a and b (exact "
                   "rational normal form), the degenerate branch gives weight 1 to the end point of smaller norm; closest_point_line returns the other end point "
                   "(with its own bit) when a weight is <= 0 and u a + v b with both bits otherwise", floor=4)
    f = idx.func(J + "::get_barycentric_coordinates_line")
    pa, pb = f.params()[:2]
    consts = {k: v for k, v in f.module.const_nodes.items() if isinstance(v, ast.AST)}

    def factory():
        return Algebra(f.node, [pa, pb], scalars=[k for k in consts])
    key = f.key + "|"
    try:
        paths = _scalar_paths(f.node, factory)
    except NotAlgebraic as ex:
        rep.unknown(rule, key + "weights", f.where, "not in the algebraic fragment: %s" % ex)
        paths = []
    one, zero = Scalar(p_const(1)), Scalar(p_const(0))
    n_reg = n_deg = 0
    for conds, alg, ret in paths:
        where = "%s:%d" % (f.module.relpath, ret.lineno)
        try:
            if not (isinstance(ret.value, ast.Tuple) and len(ret.value.elts) == 2):
                raise NotAlgebraic("return is not a pair")
            uu, vv = alg.sca(ret.value.elts[0]), alg.sca(ret.value.elts[1])
            A, B = alg.ev(ast.Name(id=pa, ctx=ast.Load())), alg.ev(ast.Name(id=pb, ctx=ast.Load()))
            constant = (uu == one or uu == zero) and (vv == one or vv == zero)
            if constant:
                # degenerate branch: which end point is nearer must be on the path
                n_deg += 1
                near = None
                for t, pol in conds:
                    c = ncmp(t)
                    if c is None or c[0] not in ("<", "<="):
                        continue
                    try:
                        l, r = alg.sca(c[1]), alg.sca(c[2])
                    except NotAlgebraic:
                        continue
                    aa, bb = alg.dot(A, A), alg.dot(B, B)
                    if l == aa and r == bb:
                        near = pa if pol else pb
                    elif l == bb and r == aa:
                        near = pb if pol else pa
                kk = key + "degenerate segment: weight 1 for the nearer end point (%s)" % ("first" if uu == one else "second")
                if near is None:
                    rep.unknown(rule, kk, where, "no comparison of the two squared norms on the path")
                else:
                    rep.check((uu == one) == (near == pa) and (uu == one) != (vv == one), rule, kk, where,
                              "on the path where `%s` is the end point nearer to the origin the weights are (%s, %s): the weight 1 belongs to that point"
                              % (near, "1" if uu == one else "0", "1" if vv == one else "0"))
                continue
            n_reg += 1
            s1 = Scalar(p_add(p_mul(uu.num, vv.den), p_mul(vv.num, uu.den)), p_mul(uu.den, vv.den))
            AB = alg.ev(ast.BinOp(left=ast.Name(id=pb, ctx=ast.Load()), op=ast.Sub(), right=ast.Name(id=pa, ctx=ast.Load())))
            da, db = alg.dot(A, AB), alg.dot(B, AB)
            # u * <a, ab> + v * <b, ab>
            t1 = Scalar(p_mul(uu.num, da.num), uu.den)
            t2 = Scalar(p_mul(vv.num, db.num), vv.den)
            orth = Scalar(p_add(p_mul(t1.num, t2.den), p_mul(t2.num, t1.den)), p_mul(t1.den, t2.den))
            rep.check(s1 == one, rule, key + "u + v = 1", where, "the weights returned at line %d sum to %r, not to 1: u a + v b is not a point of the line" % (ret.lineno, s1))
            rep.check(orth == zero, rule, key + "(u a + v b) . (b - a) = 0", where,
                      "with the weights returned at line %d, (u a + v b).(b - a) = %r: the combination is not the point of the line closest to the origin "
                      "(sign or operand of the projection `-a.(b - a) / |b - a|^2` changed)" % (ret.lineno, orth))
        except NotAlgebraic as ex:
            rep.unknown(rule, key + "weights at line %d" % ret.lineno, where, "not in the algebraic fragment: %s" % ex)
    if paths and (n_reg == 0 or n_deg == 0):
        rep.unknown(rule, key + "regular and degenerate branch", f.where, "expected a projection branch and a degenerate branch (found %d / %d)" % (n_reg, n_deg))
    # --- closest_point_line
    g = idx.func(J + "::closest_point_line")
    ga, gb = g.params()[:2]
    pm = parent_map(g.node)
    wsrc = [st for st in iter_stmts(g.node.body) if isinstance(st, ast.Assign) and isinstance(st.value, ast.Call) and (call_name(st.value) or "").endswith("get_barycentric_coordinates_line")]
    gk = g.key + "|"
    if len(wsrc) != 1 or not isinstance(wsrc[0].targets[0], ast.Tuple) or [u(a_) for a_ in wsrc[0].value.args] not in ([ga, gb], [gb, ga]):
        rep.unknown(rule, gk + "weights", g.where, "the weights are not taken from one call get_barycentric_coordinates_line(a, b)")
        return
    wn = [u(x) for x in wsrc[0].targets[0].elts]
    order = [u(a_) for a_ in wsrc[0].value.args]
    weight_of = {order[0]: wn[0], order[1]: wn[1]}      # point -> name of its weight
    bit = {ga: 1, gb: 2}
    for ret in [st for st in iter_stmts(g.node.body) if isinstance(st, ast.Return)]:
        where = "%s:%d" % (g.module.relpath, ret.lineno)
        if not (isinstance(ret.value, ast.Tuple) and len(ret.value.elts) == 2):
            rep.unknown(rule, gk + "return at line %d" % ret.lineno, where, "not (point, mask)")
            continue
        pt, mask = ret.value.elts
        mval = const(mask)
        atoms = resolve_atoms(g.node, guard_chain(pm, ret, g.node))
        nonpos = set()       # weights known <= 0 on this path
        pos = set()
        for t, pol in atoms:
            c = ncmp(t)
            if c is None:
                continue
            op, l, r = c
            if isinstance(l, ast.Name) and const(r) in (0, 0.0) and l.id in wn:
                if (op == "<=" and pol) or (op == ">" and not pol):
                    nonpos.add(l.id)
                if (op == "<=" and not pol) or (op == ">" and pol):
                    pos.add(l.id)
        ptn = resolved(g.node, pt) if isinstance(pt, ast.Name) and pt.id not in (ga, gb) else pt
        if isinstance(ptn, ast.Name) and ptn.id in (ga, gb):
            other = gb if ptn.id == ga else ga
            rep.check(weight_of[other] in nonpos and mval == bit[ptn.id], rule, gk + "end point %s" % ("first" if ptn.id == ga else "second"), where,
                      "`%s` is returned with mask %s on a path where %s: an end point is the answer exactly when the weight of the OTHER end point (%s) is <= 0, "
                      "and it carries its own bit %d" % (ptn.id, bin(mval) if isinstance(mval, int) else u(mask), "the weights known <= 0 are %s" % sorted(nonpos), weight_of[other], bit[ptn.id]))
        else:
            try:
                alg = Algebra(g.node, [ga, gb], scalars=wn)
                v = alg.vec(ptn)
                ok = set(v.terms) == {ga, gb} and v.terms[ga] == {(weight_of[ga],): 1} and v.terms[gb] == {(weight_of[gb],): 1}
            except NotAlgebraic:
                ok = None
            kk = gk + "interior point"
            if ok is None:
                rep.unknown(rule, kk, where, "`%s` is not a linear combination of the end points" % u(ptn)[:60])
            else:
                rep.check(ok and mval == 3 and {weight_of[ga], weight_of[gb]} <= pos, rule, kk, where,
                          "the interior answer is `%s` with mask %s under %s: it must be (weight of a) * a + (weight of b) * b with both bits, reached only when both "
                          "weights are > 0" % (u(ptn)[:60], bin(mval) if isinstance(mval, int) else u(mask), sorted(pos)))



def r_windingdecision(idx, rep, rule="R-PLANES"):
    """last step of origin_outside_of_tetrahedron_planes: ONE winding sign decides all four faces — all reference values > 0: outside iff signp >= -eps; all < 0:
    outside iff signp <= eps; anything else (a zero or mixed signs: the four points are numerically coplanar): every face counts as outside, i.e. all four
    faces are solved.  Decided by evaluating the statements after the two sign vectors on all 81 sign patterns of the reference values and a set of plane
    values around +-eps (finite abstraction of the order types; this module's evaluator, nothing of the repository runs)."""
    import itertools
    from .aabbtree import _num_eval, _NotModelled
    f = idx.func(J + "::origin_outside_of_tetrahedron_planes")
    body = [st for st in f.node.body if not (isinstance(st, ast.Expr) and isinstance(st.value, ast.Constant))]
    arrs = [(i, st) for i, st in enumerate(body) if isinstance(st, ast.Assign) and isinstance(st.targets[0], ast.Name) and isinstance(st.value, ast.Call)
            and call_name(st.value) == "np.array" and st.value.args and isinstance(st.value.args[0], ast.List) and len(st.value.args[0].elts) == 4]
    key = f.key + "|one winding sign decides all four faces; mixed or zero signs test every face"
    if len(arrs) != 2:
        rep.unknown(rule, key, f.where, "the two 4-vectors (plane values, reference values) were not found")
        return
    (i0, s0), (i1, s1) = arrs
    # which is which: the reference vector is the one compared as a whole (np.all(. > 0)) — try both assignments of roles, exactly one must satisfy the contract
    tail = body[max(i0, i1) + 1:]
    names = (s0.targets[0].id, s1.targets[0].id)

    class _Ret(Exception):
        def __init__(self, v):
            self.v = v

    def run(stmts, env):
        for st in stmts:
            if isinstance(st, ast.Assign) and isinstance(st.targets[0], ast.Name):
                env[st.targets[0].id] = _num_eval(st.value, env)
            elif isinstance(st, ast.If):
                t = _num_eval(st.test, env)
                if isinstance(t, list):
                    raise _NotModelled("truth value of an array")
                run(st.body if t else st.orelse, env)
            elif isinstance(st, ast.Return):
                raise _Ret(_num_eval(st.value, env))
            elif isinstance(st, (ast.Pass, ast.Assert)):
                continue
            else:
                raise _NotModelled("statement %s" % type(st).__name__)
    EPS = 0.5
    consts = {"EPSILON": EPS, "True": True, "False": False}
    for k, v in f.module.const_nodes.items():
        if isinstance(v, ast.Call) and "ones" in (call_name(v) or "") or (isinstance(v, ast.Call) and call_name(v) == "np.array" and v.args and isinstance(v.args[0], ast.List)
                                                                           and all(const(x) is True for x in v.args[0].elts)):
            consts[k] = [True] * 4
    pvals = [(-1, -0.25, 0, 0.25), (1, 0.25, 0, -0.25), (-0.25, 1, -1, 0), (0.5, -0.5, 0.75, -0.75)]
    verdicts = {}
    try:
        for role in (0, 1):
            pname, dname = names[role], names[1 - role]
            bad = None
            for sd in itertools.product((-1, 0, 1), repeat=4):
                for sp in pvals:
                    env = dict(consts)
                    env[pname], env[dname] = list(sp), list(sd)
                    try:
                        run(tail, env)
                        got = None
                    except _Ret as r:
                        got = r.v
                    got = [bool(x) for x in got] if isinstance(got, list) else got
                    if all(x > 0 for x in sd):
                        want = [x >= -EPS for x in sp]
                    elif all(x < 0 for x in sd):
                        want = [x <= EPS for x in sp]
                    else:
                        want = [True] * 4
                    if got != want:
                        bad = (sd, sp, got, want)
                        break
                if bad:
                    break
            verdicts[role] = bad
    except _NotModelled as ex:
        rep.unknown(rule, key, f.where, "the decision after the sign vectors could not be evaluated: %s" % ex)
        return
    if verdicts[0] is None or verdicts[1] is None:
        rep.ok(rule, key, f.where, "81 sign patterns x %d plane-value vectors" % len(pvals))
    else:
        # report with the roles the function's own names suggest (reference vector = the second 4-vector of the pinned code)
        sd, sp, got, want = verdicts[0] if "d" in names[1] else verdicts[1]
        rep.bad(rule, key, "%s:%d" % (f.module.relpath, tail[0].lineno if tail else f.node.lineno),
                "for reference values with signs %s and plane values %s (eps = %s) the function answers %s; Jolt's rule gives %s: the faces are judged by ONE common "
                "winding sign, and when the four reference values do not agree in sign (numerically coplanar points) every face is reported outside so that all four "
                "faces are solved — a per-face sign lets a flat tetrahedron come out as 'origin inside'" % (list(sd), list(sp), EPS, got, want))
