"""Sibling-agreement and coherence rules over the collider classes (colliders.py, mesh.py), the containment functions
and the containment tests.

R-COHERENCE  update_pose refreshes every attribute whose constructor value depends on the pose-carrying constructor
             parameters, and recomputes derived attributes with the constructor's own expression.
R-ROUNDTRIP  for pose-less shapes, update_pose reads attr <- pose[S] and collider2origin writes M[S] <- attr (same S).
R-AABBARGS   aabb() / support_function() pass, parameter by parameter, the attribute that the constructor stored from the
             same-named constructor parameter.
R-MARGIN     Margin delegates and adds margin * unit(direction); R-MARGINBOX subtracts/adds the margin on lo/hi.
R-AXIS       the distinguished local axis of axis-symmetric shapes is the same index everywhere.
R-CLOSEDSET  containment predicates: inclusion comparisons are non-strict, exclusion masks strict.
"""
import ast
import re
import copy

from ..core.astutil import (u, call_name, calls, index_elts, const, iter_stmts, compare_triples, parent_map,
                            strip_docstring, conjuncts)
from ..core.index import AnalysisError

COLL = "distance3d.colliders"
VISUAL_ONLY = {"artist_": "visualisation handle, not part of any query result"}


class _Subst(ast.NodeTransformer):
    def __init__(self, mapping):
        self.mapping = mapping

    def visit_Name(self, node):
        if node.id in self.mapping:
            return copy.deepcopy(self.mapping[node.id])
        return node


def subst(node, mapping):
    return _Subst(mapping).visit(copy.deepcopy(node))


def ctor_attrs(idx, ci, _depth=0):
    """{attr: expression in terms of ci.__init__'s parameters} following super().__init__ chains."""
    init = ci.methods.get("__init__")
    if init is None:
        for b in idx.base_classes(ci):
            return ctor_attrs(idx, b, _depth + 1)
        return {}, []
    out = {}
    params = [p for p in init.params() if p != "self"]
    for st in iter_stmts(init.node.body):
        if isinstance(st, ast.Assign) and len(st.targets) == 1 and isinstance(st.targets[0], ast.Attribute) \
                and isinstance(st.targets[0].value, ast.Name) and st.targets[0].value.id == "self":
            out[st.targets[0].attr] = st.value
        elif isinstance(st, ast.Expr) and isinstance(st.value, ast.Call) and isinstance(st.value.func, ast.Attribute) \
                and st.value.func.attr == "__init__" and isinstance(st.value.func.value, ast.Call) \
                and call_name(st.value.func.value) == "super" and _depth < 5:
            for b in idx.base_classes(ci):
                battrs, bparams = ctor_attrs(idx, b, _depth + 1)
                mapping = {}
                for i, a in enumerate(st.value.args):
                    if i < len(bparams):
                        mapping[bparams[i]] = a
                for kw in st.value.keywords:
                    if kw.arg in bparams:
                        mapping[kw.arg] = kw.value
                for k, v in battrs.items():
                    out.setdefault(k, subst(v, mapping))
                break
    return out, params


def _names(node):
    return {n.id for n in ast.walk(node) if isinstance(n, ast.Name)}


def _raises_only(f):
    body = strip_docstring(f.node.body)
    return len(body) >= 1 and all(isinstance(s, (ast.Raise, ast.Pass)) for s in body) and any(isinstance(s, ast.Raise) for s in body)


def _strip_wrappers(node):
    """np.ascontiguousarray(x) / np.copy(x) / x.copy() / np.asarray(x) -> x"""
    while True:
        if isinstance(node, ast.Call) and call_name(node) in ("np.ascontiguousarray", "np.copy", "np.asarray", "np.array") and node.args:
            node = node.args[0]
        elif isinstance(node, ast.Call) and isinstance(node.func, ast.Attribute) and node.func.attr == "copy" and not node.args:
            node = node.func.value
        else:
            return node


def collider_classes(idx):
    base = idx.cls(COLL + "::ConvexCollider")
    return [c for c in idx.subclasses(base.key)]


def classes_with_update_pose(idx):
    out = []
    for m in idx.lib_modules():
        for c in m.classes.values():
            up = idx.find_method(c, "update_pose")
            if up is not None and not _raises_only(up) and not any("abstractmethod" in d for d in up.decorators):
                out.append((c, up))
    return out


def attrs_read_by(idx, ci, mname, _seen=None):
    """attributes of self read (transitively through self.<method>() calls) by method `mname` of class ci; None when ci has no such method"""
    m = idx.find_method(ci, mname)
    if m is None:
        return None
    seen = _seen if _seen is not None else set()
    if m.key in seen:
        return set()
    seen.add(m.key)
    out = set()
    for n in ast.walk(m.node):
        if isinstance(n, ast.Attribute) and isinstance(n.value, ast.Name) and n.value.id == "self":
            sub = idx.find_method(ci, n.attr)
            if sub is not None:
                out |= attrs_read_by(idx, ci, n.attr, seen) or set()
            else:
                out.add(n.attr)
    return out


def r_coherence(idx, rep, rule="R-COHERENCE", relevant_to=None):
    """relevant_to: restrict the per-attribute instances to attributes read by that method (e.g. 'aabb' for the broad phase);
    classes without such a method are skipped"""
    rep.rule(rule, "update_pose refreshes every attribute whose constructor value depends on the pose-carrying constructor "
                   "parameters (directly, by recomputation with the constructor's expression, or by delegating update_pose)",
             floor=10)
    for ci, up in classes_with_update_pose(idx):
        ck = ci.key
        attrs, params = ctor_attrs(idx, ci)
        if not attrs:
            continue
        relevant = None
        if relevant_to is not None:
            relevant = attrs_read_by(idx, ci, relevant_to)
            if relevant is None:
                continue
        up_params = [p for p in up.params() if p != "self"]
        if not up_params:
            continue
        pose = up_params[0]
        direct = {}     # attr -> update expression (last one)
        direct_all = {}  # attr -> every update expression (branches!)
        delegated = {}  # attr -> argument expression
        for st in iter_stmts(up.node.body):
            if isinstance(st, ast.Assign) and len(st.targets) == 1 and isinstance(st.targets[0], ast.Attribute) \
                    and u(st.targets[0].value) == "self":
                direct[st.targets[0].attr] = st.value
                direct_all.setdefault(st.targets[0].attr, []).append(st.value)
            for c in calls(st) if isinstance(st, ast.Expr) else []:
                if isinstance(c.func, ast.Attribute) and c.func.attr == "update_pose" and isinstance(c.func.value, ast.Attribute) \
                        and u(c.func.value.value) == "self":
                    delegated[c.func.value.attr] = c.args[0] if c.args else None
        # pose-carrying constructor parameters
        Q = set()
        for a, e in direct.items():
            if pose in _names(e) and a in attrs and isinstance(attrs[a], ast.Name):
                Q.add(attrs[a].id)
        for a, e in delegated.items():
            if a in attrs and isinstance(attrs[a], ast.Name):
                Q.add(attrs[a].id)
        # ... and constructor parameters that are poses by the naming convention (<a>2<b>) or share update_pose's parameter name:
        # they stay pose-carrying even when update_pose forgets to store them
        for q in params:
            if q == pose or re.match(r"^[a-z_]+2[a-z_]+$", q):
                Q.add(q)
        # every refresh must happen on ALL paths through update_pose (an `if moved:` / tolerance guard around a refresh leaves the
        # stale value in place whenever the guard is false)
        def eq_attrs(test):
            """attributes b for which `test` (possibly negated) is the exact comparison of the new pose with self.b: skipping
            `self.b = pose` under it is harmless for b itself (equal values; identical object when the caller edited in place)"""
            t_ = test.operand if isinstance(test, ast.UnaryOp) and isinstance(test.op, ast.Not) else test
            if isinstance(t_, ast.Call) and call_name(t_) == "np.array_equal" and len(t_.args) == 2:
                names = [u(a_) for a_ in t_.args]
                if pose in names:
                    other = [n_ for n_ in names if n_ != pose]
                    if other and other[0].startswith("self.") and other[0].count(".") == 1:
                        b_ = other[0][5:]
                        if b_ in direct and u(direct[b_]) == pose:
                            return {b_}
            return set()
        exempt = set()

        def must_assign(block):
            out = set()
            for st_ in block:
                if isinstance(st_, ast.If) and eq_attrs(st_.test):
                    exempt.update(eq_attrs(st_.test))
                    out |= eq_attrs(st_.test)
                if isinstance(st_, ast.Assign):
                    for t_ in st_.targets:
                        if isinstance(t_, ast.Attribute) and u(t_.value) == "self":
                            out.add(t_.attr)
                elif isinstance(st_, ast.Expr):
                    for c_ in calls(st_):
                        if isinstance(c_.func, ast.Attribute) and c_.func.attr == "update_pose" and isinstance(c_.func.value, ast.Attribute) \
                                and u(c_.func.value.value) == "self":
                            out.add(c_.func.value.attr)
                elif isinstance(st_, ast.If):
                    out |= must_assign(st_.body) & must_assign(st_.orelse)
                elif isinstance(st_, (ast.Return, ast.Raise)):
                    break
            return out
        always = must_assign(up.node.body)
        early = [st_ for st_ in iter_stmts(up.node.body) if isinstance(st_, ast.Return)]
        for b in sorted(set(direct) | set(delegated)):
            if b in VISUAL_ONLY or (relevant is not None and b not in relevant):
                continue
            rep.check((b in always and not early) or b in exempt, rule, ck + "|%s refreshed on every path" % b, up.where,
                      "update_pose refreshes self.%s only under a condition (or after an early return): when the condition is false the attribute keeps "
                      "the value computed for the OLD pose while a freshly constructed collider has the new one (e.g. a 'did it move?' tolerance guard)" % b,
                      "unconditional")
        # the new pose must be consumed: stored in an attribute or handed to a delegate
        consumed = any(pose in _names(e) for e in direct.values()) or any(a is not None and pose in _names(a) for a in delegated.values())
        rep.check(consumed, rule, ck + "|pose consumed", up.where,
                  "update_pose(%s) neither stores the new pose (or a part of it) in an attribute nor hands it to a wrapped object: "
                  "the collider keeps answering from the old pose" % pose, "pose stored / delegated")
        if not Q:
            if consumed:
                rep.unknown(rule, ck + "|pose-parameters", up.where, "no constructor parameter is stored directly by update_pose")
            continue
        # attribute storing each ctor param (for substitution)
        stored_in = {e.id: a for a, e in attrs.items() if isinstance(e, ast.Name)}
        # attributes that do NOT depend on the pose must not be changed by update_pose to something a fresh object would not have
        for b, e in sorted(direct.items()):
            if b in VISUAL_ONLY or b not in attrs or (relevant is not None and b not in relevant):
                continue
            if _names(attrs[b]) & Q or pose in _names(e):
                continue
            mapping = {q: ast.Attribute(value=ast.Name(id="self", ctx=ast.Load()), attr=stored_in[q], ctx=ast.Load()) for q in _names(attrs[b]) if q in stored_in}
            want = u(subst(attrs[b], mapping))
            rep.check(u(e) in (want, "self." + b), rule, ck + "|%s is pose independent" % b, up.where,
                      "update_pose sets self.%s = `%s`, but the constructor computes it as `%s` from pose-independent data: after update_pose the "
                      "object differs from a freshly constructed one at the same pose" % (b, u(e), u(attrs[b])), "unchanged")
        for b, e in sorted(attrs.items()):
            dep = _names(e) & Q
            if not dep:
                continue
            if b in VISUAL_ONLY or (relevant is not None and b not in relevant):
                continue
            key = ck + "|%s depends on %s" % (b, ",".join(sorted(dep)))
            if b in delegated:
                arg = delegated[b]
                rep.check(arg is not None and pose in _names(arg), rule, key, up.where,
                          "self.%s.update_pose is not given the new pose" % b, "delegated")
                continue
            if b not in direct:
                rep.bad(rule, key, up.where,
                        "the constructor computes self.%s from %s (`%s`) but update_pose never refreshes it: after update_pose the "
                        "collider answers queries from the stale value while a fresh collider at that pose does not" % (b, sorted(dep), u(e)))
                continue
            if isinstance(e, ast.Name):
                rep.ok(rule, key, up.where, "stored directly")
                continue
            # derived attribute: same expression modulo parameter <-> attribute substitution
            mapping = {}
            for q in _names(e):
                if q in Q:
                    a = stored_in.get(q)
                    if a in direct and isinstance(_strip_wrappers(direct[a]), ast.Name):
                        mapping[q] = _strip_wrappers(direct[a])
                    elif a in direct:
                        mapping[q] = direct[a]
                elif q in stored_in:
                    mapping[q] = ast.Attribute(value=ast.Name(id="self", ctx=ast.Load()), attr=stored_in[q], ctx=ast.Load())
            want = u(subst(e, mapping))
            gots = [u(x) for x in direct_all[b]]
            wrong = [g for g in gots if g != want]
            rep.check(not wrong, rule, key, up.where,
                      "update_pose recomputes self.%s as `%s` (on some path), the constructor's expression after substituting the new pose is `%s`: an "
                      "incremental / shortcut update is not what a fresh collider computes (and reads the old stored pose, which aliases the caller's array)"
                      % (b, wrong[0] if wrong else "", want),
                      "recomputed with the constructor's expression")


def _canon_slot(sl_elts, consts=None):
    out = []
    for e in sl_elts:
        if isinstance(e, ast.Slice):
            lo = const(e.lower, consts) if e.lower is not None else 0
            hi = const(e.upper, consts) if e.upper is not None else None
            out.append("%s:%s" % (lo, hi))
        else:
            out.append(str(const(e, consts)))
    return tuple(out)


def r_roundtrip(idx, rep, rule="R-ROUNDTRIP"):
    rep.rule(rule, "for shapes stored without a pose matrix, update_pose reads each attribute from the slot of the pose that "
                   "collider2origin writes it to (centre <-> column 3, normal <-> column 2, axes <-> columns 0:2 transposed)", floor=5)
    for ci in collider_classes(idx):
        up = ci.methods.get("update_pose")
        c2o = ci.methods.get("collider2origin")
        if up is None or c2o is None or _raises_only(up):
            continue
        pose = [p for p in up.params() if p != "self"][0]
        reads = {}
        for st in iter_stmts(up.node.body):
            if isinstance(st, ast.Assign) and isinstance(st.targets[0], ast.Attribute) and u(st.targets[0].value) == "self":
                e = _strip_wrappers(st.value)
                tr = False
                if isinstance(e, ast.Attribute) and e.attr == "T":
                    tr = True
                    e = _strip_wrappers(e.value)
                if isinstance(e, ast.Subscript) and u(e.value) == pose:
                    reads[st.targets[0].attr] = (_canon_slot(index_elts(e)), tr)
        if not reads:
            continue
        # writes in collider2origin into a local matrix
        writes = {}
        for st in iter_stmts(c2o.node.body):
            if isinstance(st, ast.Assign) and isinstance(st.targets[0], ast.Subscript) and isinstance(st.targets[0].value, ast.Name):
                slot = _canon_slot(index_elts(st.targets[0]))
                v = st.value
                tr = False
                if isinstance(v, ast.Attribute) and v.attr == "T":
                    tr = True
                    v = v.value
                if isinstance(v, ast.Attribute) and u(v.value) == "self":
                    writes[v.attr] = (slot, tr)
                elif isinstance(v, ast.Call) and call_name(v) == "np.column_stack" and v.args and isinstance(v.args[0], ast.Tuple):
                    for i, el in enumerate(v.args[0].elts):
                        if isinstance(el, ast.Attribute) and u(el.value) == "self" and len(slot) == 2:
                            lo = int(slot[1].split(":")[0]) if ":" in slot[1] else 0
                            writes[el.attr] = ((slot[0], str(lo + i)), False)
        for a in sorted(writes):
            if a not in reads:
                rep.bad(rule, ci.key + "|%s refreshed" % a, up.where,
                        "collider2origin builds the pose from self.%s but update_pose never refreshes it from the new pose: the pose "
                        "reported after update_pose is not the pose that was set" % a)
            else:
                rep.ok(rule, ci.key + "|%s refreshed" % a, up.where, "read back by update_pose")
        for a, (slot, tr) in sorted(reads.items()):
            key = ci.key + "|%s <- pose[%s]%s" % (a, ", ".join(slot), ".T" if tr else "")
            if a not in writes:
                rep.unknown(rule, key, up.where, "collider2origin does not write self.%s into a matrix slot" % a)
                continue
            wslot, wtr = writes[a]
            rep.check(wslot == slot and wtr == tr, rule, key, up.where,
                      "update_pose reads self.%s from pose[%s]%s but collider2origin writes it to [%s]%s: the pose does not round-trip"
                      % (a, ", ".join(slot), ".T" if tr else "", ", ".join(wslot), ".T" if wtr else ""), "same slot")


def r_aabbargs(idx, rep, rule="R-AABBARGS"):
    rep.rule(rule, "collider methods hand each geometry/containment function the attribute that the constructor stored from "
                   "the constructor parameter of the same name (pose<->pose, radius<->radius, height<->height ...)", floor=20)
    geo = {"distance3d.geometry", "distance3d.containment"}
    for ci in collider_classes(idx):
        attrs, params = ctor_attrs(idx, ci)
        src = {a: e.id for a, e in attrs.items() if isinstance(e, ast.Name)}
        for mname in ("aabb", "support_function"):
            meth = ci.methods.get(mname)
            if meth is None:
                continue
            for c in calls(meth.node):
                callee = idx.resolve_call(ci.module, c, ci)
                if callee is None or not hasattr(callee, "params") or callee.module.name not in geo:
                    continue
                cparams = callee.params()
                if not (callee.name.endswith("_aabb") or callee.name.startswith("support_function_")):
                    continue   # generic helpers (axis_aligned_bounding_box(P)) have no shape-specific parameter names
                for i, a in enumerate(c.args):
                    a0 = _strip_wrappers(a)
                    if isinstance(a0, ast.Attribute) and u(a0.value) == "self" and i < len(cparams):
                        attr = a0.attr
                        key = "%s.%s|%s(%s=self.%s)" % (ci.key, mname, callee.name, cparams[i], attr)
                        where = "%s:%d" % (ci.module.relpath, c.lineno)
                        if attr not in src:
                            rep.unknown(rule, key, where, "attribute is derived, not a stored constructor parameter")
                            continue
                        rep.check(src[attr] == cparams[i], rule, key, where,
                                  "parameter `%s` of %s receives self.%s, which the constructor stored from `%s`" % (cparams[i], callee.name, attr, src[attr]),
                                  "self.%s <- %s" % (attr, src[attr]))
                # the shape of the callee matches the class (sphere_aabb in Sphere ...)
                shape = ci.name.lower()
                if callee.name.endswith("_aabb") or callee.name.startswith("support_function_"):
                    cshape = callee.name.replace("_aabb", "").replace("support_function_", "")
                    if cshape not in ("axis_aligned_bounding_box",):
                        rep.check(cshape == shape, rule, "%s.%s|callee-shape %s" % (ci.key, mname, callee.name), "%s:%d" % (ci.module.relpath, c.lineno),
                                  "%s.%s() calls %s: function of a different shape" % (ci.name, mname, callee.name))


def r_margin(idx, rep, rule="R-MARGIN", floor=6):
    rep.rule(rule, "Margin.support_function = inner support + margin * norm_vector(direction); first_vertex / center / "
                   "update_pose / collider2origin delegate to the wrapped collider; Margin.aabb subtracts the margin from the "
                   "lower and adds it to the upper bounds", floor=floor)
    ci = idx.cls(COLL + "::Margin")
    sf = ci.methods.get("support_function")
    if sf is None:
        raise AnalysisError("Margin.support_function vanished")
    d = [p for p in sf.params() if p != "self"][0]
    rets = [s for s in iter_stmts(sf.node.body) if isinstance(s, ast.Return)]
    ok = False
    why = "return expression is not `inner support + margin * norm_vector(direction)`"
    from ..core.astutil import inline_temps_in, assign_pairs
    rv = inline_temps_in(sf.node, rets[0].value) if len(rets) == 1 and rets[0].value is not None else None
    if rv is not None and isinstance(rv, ast.BinOp) and isinstance(rv.op, ast.Add):
        l, r = rv.left, rv.right
        for inner, off in ((l, r), (r, l)):
            if isinstance(inner, ast.Call) and u(inner.func) == "self.collider.support_function" and [u(a) for a in inner.args] == [d]:
                if isinstance(off, ast.BinOp) and isinstance(off.op, ast.Mult):
                    fs = [off.left, off.right]
                    m = [x for x in fs if u(x) == "self.margin"]
                    n = [x for x in fs if isinstance(x, ast.Call) and (call_name(x) or "").split(".")[-1] == "norm_vector" and [u(a) for a in x.args] == [d]]
                    if m and n:
                        ok = True
                    elif m:
                        why = "the margin is scaled by `%s`, not by the unit vector norm_vector(%s)" % (u([x for x in fs if u(x) != "self.margin"][0]), d)
    elif rv is not None and isinstance(rv, ast.BinOp) and isinstance(rv.op, ast.Sub):
        why = "the margin offset is subtracted (support point moves inwards)"
    rep.check(ok, rule, ci.key + ".support_function|inner + margin * unit(d)", sf.where, why)
    for name in ("first_vertex", "center", "update_pose", "collider2origin"):
        m = ci.methods.get(name)
        if m is None:
            raise AnalysisError("Margin.%s vanished" % name)
        body = strip_docstring(m.node.body)
        cs = [c for c in calls(m.node) if u(c.func) == "self.collider.%s" % name]
        args_ok = bool(cs) and [u(a) for a in cs[0].args] == [p for p in m.params() if p != "self"]
        rep.check(len(body) == 1 and args_ok, rule, ci.key + ".%s|delegates" % name, m.where,
                  "Margin.%s does not simply delegate to self.collider.%s with its own arguments" % (name, name))
    # aabb
    ab = ci.methods.get("aabb")
    loc = {}
    for st in iter_stmts(ab.node.body):
        for t_, v_ in assign_pairs(st):
            if isinstance(t_, ast.Name):
                loc[t_.id] = v_
    rets = [s for s in iter_stmts(ab.node.body) if isinstance(s, ast.Return)]
    ok = False
    why = "Margin.aabb does not return array([lo - margin, hi + margin]).T of the inner box"
    if len(rets) == 1:
        from ..core.inline import expand_helpers
        v = expand_helpers(idx, ab.module, rets[0].value, only=lambda c: c.name.startswith("_"))       # `_bounds_to_aabb(lo, hi)` reads as np.array((lo, hi)).T
        if isinstance(v, ast.Attribute) and v.attr == "T" and isinstance(v.value, ast.Call) and v.value.args and isinstance(v.value.args[0], (ast.List, ast.Tuple)) \
                and len(v.value.args[0].elts) == 2:
            lo, hi = [loc.get(u(e), e) for e in v.value.args[0].elts]

            def col(e, opcls):
                if isinstance(e, ast.BinOp) and isinstance(e.op, opcls) and u(e.right) == "self.margin" and isinstance(e.left, ast.Subscript):
                    base = loc.get(u(e.left.value), e.left.value)
                    el = index_elts(e.left)
                    if u(base) == "self.collider.aabb()" and len(el) == 2:
                        return const(el[1])
                return None
            clo, chi = col(lo, ast.Sub), col(hi, ast.Add)
            ok = (clo == 0 and chi == 1)
            if not ok:
                why = "lower bound = `%s`, upper bound = `%s`; need inner[:, 0] - margin and inner[:, 1] + margin" % (u(lo), u(hi))
    rep.check(ok, "R-MARGIN", ci.key + ".aabb|lo - margin, hi + margin", ab.where, why)


def r_axis(idx, rep, rule="R-AXIS", floor=4):
    rep.rule(rule, "the distinguished local axis of every axis-symmetric shape is the same column/component index in its "
                   "support function, AABB, containment test, first_vertex, center and update_pose", floor=floor)
    C = {}
    shapes = {"cylinder": "Cylinder", "capsule": "Capsule", "cone": "Cone", "disk": "Disk"}
    for shape, cname in shapes.items():
        found = {}   # site -> set of axis indices

        def pose_cols(fnode, posename=None):
            cols = set()
            for n in ast.walk(fnode):
                if isinstance(n, ast.Subscript):
                    el = index_elts(n)
                    base = u(n.value)
                    if ("2origin" in base or base == posename) and len(el) >= 2:
                        k = const(el[-1], C)
                        r = el[-2]
                        if isinstance(k, int) and 0 <= k < 3 and isinstance(r, ast.Slice):
                            cols.add(k)
            return cols
        def pose_cols_deep(f_):
            """own accesses plus those of private helpers of the module that are handed the pose (`_axis_segment_aabb(cylinder2origin, ...)`)"""
            cols = pose_cols(f_.node)
            for c_ in ast.walk(f_.node):
                if isinstance(c_, ast.Call):
                    g_ = idx.resolve_call(f_.module, c_, None)
                    gn_ = getattr(g_, "node", None)
                    if isinstance(gn_, ast.FunctionDef) and getattr(g_, "cls", None) is None and g_.name.startswith("_") and not c_.keywords:
                        for p_, a_ in zip(g_.params(), c_.args):
                            if "2origin" in u(a_):
                                cols |= pose_cols(gn_, posename=p_)
            return cols
        f = idx.maybe_func("distance3d.containment::%s_aabb" % shape)
        if f is not None and shape != "disk":
            found["distance3d.containment::%s_aabb" % shape] = pose_cols_deep(f)
        f = idx.maybe_func("distance3d.containment_test::points_in_%s" % shape)
        if f is not None and shape != "disk":
            found["distance3d.containment_test::points_in_%s" % shape] = pose_cols_deep(f)
        ci = idx.modules[COLL].classes.get(cname)
        if ci is not None:
            for mname in ("first_vertex", "center", "update_pose"):
                m = ci.methods.get(mname)
                if m is not None:
                    cols = pose_cols(m.node, posename=([p for p in m.params() if p != "self"] or [None])[0])
                    if cols:
                        found["distance3d.colliders::%s.%s" % (cname, mname)] = cols
        f = idx.maybe_func("distance3d.geometry::support_function_%s" % shape)
        if f is not None and shape != "disk":
            comp = set()
            size_names = {"length", "height"}
            for n in ast.walk(f.node):
                # component of the local vertex that carries the length/height
                if isinstance(n, ast.Call) and call_name(n) == "np.array" and n.args and isinstance(n.args[0], ast.List) and len(n.args[0].elts) == 3:
                    for k, e in enumerate(n.args[0].elts):
                        if _names(e) & (size_names | {"z"}):
                            comp.add(k)
                if isinstance(n, ast.AugAssign) and isinstance(n.target, ast.Subscript) and _names(n.value) & size_names:
                    k = const(n.target.slice, C)
                    if isinstance(k, int):
                        comp.add(k)
                if isinstance(n, ast.Compare) and isinstance(n.left, ast.Subscript) and u(n.left.value) == "local_dir" and len(n.comparators) == 1 \
                        and const(n.comparators[0]) in (0, 0.0):
                    k = const(n.left.slice, C)
                    if isinstance(k, int):
                        comp.add(k)
            if comp:
                found["distance3d.geometry::support_function_%s" % shape] = comp
        if shape == "disk":
            f = idx.maybe_func("distance3d.geometry::support_function_disk")
            if f is not None:
                zeroed, stackpos = set(), set()
                for n in ast.walk(f.node):
                    if isinstance(n, ast.Assign) and isinstance(n.targets[0], ast.Subscript) and const(n.value) in (0, 0.0) and isinstance(const(n.targets[0].slice), int):
                        zeroed.add(const(n.targets[0].slice))
                    if isinstance(n, ast.Call) and call_name(n) == "np.column_stack" and n.args and isinstance(n.args[0], ast.Tuple):
                        for k, e in enumerate(n.args[0].elts):
                            if u(e) == "normal":
                                stackpos.add(k)
                if zeroed:
                    found["distance3d.geometry::support_function_disk|zeroed component"] = zeroed
                if stackpos:
                    found["distance3d.geometry::support_function_disk|normal column"] = stackpos
            if ci is not None and "collider2origin" in ci.methods:
                for n in ast.walk(ci.methods["collider2origin"].node):
                    if isinstance(n, ast.Call) and call_name(n) == "np.column_stack" and n.args and isinstance(n.args[0], ast.Tuple):
                        for k, e in enumerate(n.args[0].elts):
                            if u(e) == "self.normal":
                                found["distance3d.colliders::Disk.collider2origin|normal column"] = {k}
        if not found:
            continue
        # reference = the axis most siblings use (confirmed by reading: index 2, the local z axis / third column, for all four shapes);
        # only the deviating sibling is reported, so the finding lands on the property whose code deviates
        votes = {}
        for cols in found.values():
            if len(cols) == 1:
                k = next(iter(cols))
                votes[k] = votes.get(k, 0) + 1
        ref = max(votes, key=lambda k: votes[k]) if votes else None
        if ref is not None and sum(1 for v in votes.values() if v == votes[ref]) > 1:
            ref = None          # tie: no majority, every site is suspect
        for site, cols in sorted(found.items()):
            key = "%s|%s axis" % (site, shape)
            rep.check(cols == {ref}, rule, key, site.split("|")[0],
                      "%s uses local axis index %s for the %s but its siblings use %s" % (site, sorted(cols), shape, {k: sorted(v) for k, v in found.items()}),
                      "axis %s" % sorted(cols))


def r_closedset(idx, rep, rule="R-CLOSEDSET"):
    rep.rule(rule, "containment predicates describe CLOSED shapes: comparisons that admit points are non-strict (<=), "
                   "comparisons that build exclusion masks are strict (>), and nothing reduces over the batch axis", floor=8)
    mod = idx.module("distance3d.containment_test")
    want = ["points_in_sphere", "points_in_capsule", "points_in_ellipsoid", "points_in_disk", "points_in_cone", "points_in_cylinder",
            "points_in_box", "points_in_convex_mesh"]
    for name in want:
        f = idx.func("distance3d.containment_test::" + name)
        pm = parent_map(f.node)
        # role of a comparison = polarity with which it reaches the returned mask: +1 the points that satisfy it are (so far) admitted, -1 they are
        # excluded.  Negations flip it (np.logical_not, not, ~, `mask[sel] = False`, `if np.any(sel): mask[i] = False`); and / or / all / any / where
        # and plain naming keep it.  Whatever the predicate is organised like (flag array, early mask algebra, helper temporaries), an admitting
        # comparison must be non-strict and an excluding one strict.
        MONO = ("np.logical_and", "np.logical_or", "np.all", "np.any", "np.where", "np.nonzero", "np.flatnonzero", "np.array", "np.asarray", "all", "any")
        uses_memo = {}

        def flows(node, depth=0):
            """set of polarities with which the boolean value of `node` reaches the result"""
            if depth > 12:
                return {None}
            par = pm.get(node)
            if par is None:
                return {None}
            if isinstance(par, ast.Return):
                return {+1}
            if isinstance(par, ast.UnaryOp) and isinstance(par.op, (ast.Not, ast.Invert)):
                return {None if x is None else -x for x in flows(par, depth + 1)}
            if isinstance(par, (ast.BoolOp, ast.Tuple, ast.List, ast.Subscript, ast.Starred, ast.keyword, ast.Index if hasattr(ast, "Index") else ast.Tuple)):
                if isinstance(par, ast.Subscript) and isinstance(par.ctx, ast.Store):
                    # node is (part of) the selector of a store  X[sel] = value
                    st_ = pm.get(par)
                    if isinstance(st_, ast.Assign):
                        if const(st_.value) is False:
                            return {None if x is None else -x for x in name_flows(u(par.value), st_, depth + 1)}
                        if const(st_.value) is True:
                            return name_flows(u(par.value), st_, depth + 1)
                        return {None} if node is not par.slice and node not in ast.walk(par.slice) else name_flows_sel(par, st_, depth + 1)
                    return {None}
                return flows(par, depth + 1)
            if isinstance(par, ast.BinOp) and isinstance(par.op, (ast.BitAnd, ast.BitOr)):
                return flows(par, depth + 1)
            if isinstance(par, ast.Call):
                cn = call_name(par) or ""
                if cn == "np.logical_not":
                    return {None if x is None else -x for x in flows(par, depth + 1)}
                if cn in MONO:
                    return flows(par, depth + 1)
                return {None}
            if isinstance(par, ast.Assign) and node is par.value:
                t = par.targets[0]
                if isinstance(t, ast.Name):
                    return name_flows(t.id, par, depth + 1)
                if isinstance(t, ast.Subscript):
                    return name_flows(u(t.value), par, depth + 1)          # X[idx] = <mask>: the mask flows into X
                return {None}
            if isinstance(par, ast.AugAssign) and node is par.value and isinstance(par.op, (ast.BitAnd, ast.BitOr)):
                return name_flows(u(par.target), par, depth + 1)
            if isinstance(par, ast.If) and node is par.test:
                out = set()
                for s_ in iter_stmts(par.body):
                    if isinstance(s_, ast.Assign) and isinstance(s_.targets[0], ast.Subscript) and const(s_.value) is False:
                        out |= {None if x is None else -x for x in name_flows(u(s_.targets[0].value), s_, depth + 1)}
                    elif isinstance(s_, ast.Assign) and isinstance(s_.targets[0], ast.Subscript) and const(s_.value) is True:
                        out |= name_flows(u(s_.targets[0].value), s_, depth + 1)
                return out or {None}
            if isinstance(par, ast.expr):
                return {None}
            return {None}

        def name_flows_sel(sub, st_, depth):
            return {None}

        def name_flows(nm, after, depth):
            """polarities with which the value of the (array) name reaches the result"""
            out = set()
            for n2 in ast.walk(f.node):
                if isinstance(n2, ast.Name) and n2.id == nm and isinstance(n2.ctx, ast.Load) and getattr(n2, "lineno", 0) >= getattr(after, "lineno", 0) and n2 is not after:
                    par2 = pm.get(n2)
                    if isinstance(par2, ast.Subscript) and par2.value is n2 and isinstance(par2.ctx, ast.Store):
                        continue
                    out |= flows(n2, depth + 1)
            return out or {None}
        n_cmp = 0
        for n in ast.walk(f.node):
            if not isinstance(n, ast.Compare) or len(n.ops) != 1:
                continue
            op, a, b = compare_triples(n)[0]
            if op not in ("<", "<=", ">", ">="):
                continue
            pol = flows(n) - {None}
            if len(pol) != 1:
                continue
            role = "incl" if pol == {+1} else "excl"
            n_cmp += 1
            key = "distance3d.containment_test::%s|%s (%s)" % (name, u(n), role)
            where = "%s:%d" % (mod.relpath, n.lineno)
            if role == "incl":
                rep.check(op in ("<=", ">="), rule, key, where,
                          "inclusion test `%s` is strict: boundary points of the closed shape are reported as outside" % u(n), "non-strict")
            else:
                rep.check(op in ("<", ">"), rule, key, where,
                          "exclusion mask `%s` is non-strict: boundary points of the closed shape are excluded" % u(n), "strict")
        if n_cmp == 0:
            rep.unknown(rule, "distance3d.containment_test::%s|no comparison classified" % name, f.where,
                        "no comparison of %s could be followed to the returned mask: open / closed boundary not decided for this predicate" % name)
        # batch axis: reductions only over axis=1
        for c in calls(f.node):
            cn = call_name(c) or ""
            if cn in ("np.sum", "np.all", "np.any", "np.max", "np.min"):
                ax = [const(k.value) for k in c.keywords if k.arg == "axis"]
                st = c
                while st in pm and not isinstance(st, ast.stmt):
                    st = pm[st]
                in_loop = False
                p = pm.get(st)
                while p is not None:
                    if isinstance(p, ast.For):
                        in_loop = True
                    p = pm.get(p)
                if in_loop:
                    continue   # per-point loop: reductions are over faces
                key = "distance3d.containment_test::%s|%s axis" % (name, u(c)[:60])
                rep.check(ax == [1], rule, key, "%s:%d" % (mod.relpath, c.lineno),
                          "reduction `%s` is not over axis=1: results of different points of the batch are mixed" % u(c)[:80], "axis=1")


HINT_PARAMS = {"start_idx": "hill_climb_mesh_extreme(start_idx=...) only chooses where the hill climbing starts; for a convex mesh the result is "
                            "start independent (assumption of C03's mesh clause, not decided here)"}


def r_querystate(idx, rep, rule="R-QUERYSTATE"):
    rep.rule(rule, "a support query answers from its arguments and the pose: state written by an earlier query (cached indices, "
                   "memoised directions) may reach the returned value only as the documented START HINT of a search, never as the "
                   "answer itself (a memo hit would survive update_pose and make the answer depend on the query history)", floor=2)
    for mname in ("distance3d.mesh", "distance3d.colliders"):
        m = idx.module(mname)
        for ci in m.classes.values():
            up = idx.find_method(ci, "update_pose")
            if up is None:
                continue
            for qname in ("__call__", "support_function"):
                q = ci.methods.get(qname)
                if q is None or any("abstractmethod" in d for d in q.decorators):
                    continue
                # state written by query methods of this class
                written = set()
                for n in ast.walk(q.node):
                    if isinstance(n, ast.Attribute) and isinstance(n.ctx, ast.Store) and u(n.value) == "self":
                        written.add(n.attr)
                key = "%s.%s|result independent of query-written state" % (ci.key, qname)
                if not written:
                    rep.ok(rule, key, q.where, "the query writes no state")
                    continue
                # backward slice of the returned expressions over local definitions
                defs = {}
                for st in iter_stmts(q.node.body):
                    if isinstance(st, ast.Assign):
                        for t in st.targets:
                            for e in (t.elts if isinstance(t, ast.Tuple) else [t]):
                                if isinstance(e, ast.Name):
                                    defs.setdefault(e.id, []).append(st.value)
                bad = []

                def visit(node, seen):
                    for n in ast.walk(node):
                        if isinstance(n, ast.Call):
                            callee = idx.resolve_call(m, n, ci)
                            ps = callee.params() if callee is not None and hasattr(callee, "params") else []
                            for i, a in enumerate(n.args):
                                if isinstance(a, ast.Attribute) and u(a.value) == "self" and a.attr in written:
                                    pn = ps[i] if i < len(ps) else None
                                    if pn not in HINT_PARAMS:
                                        bad.append("self.%s is passed to %s as `%s`" % (a.attr, call_name(n), pn))
                                else:
                                    visit(a, seen)
                            for kw in n.keywords:
                                visit(kw.value, seen)
                            if isinstance(n.func, ast.Attribute):
                                visit(n.func.value, seen)
                            return
                    for n in ast.walk(node):
                        if isinstance(n, ast.Attribute) and u(n.value) == "self" and n.attr in written and isinstance(n.ctx, ast.Load):
                            bad.append("self.%s is read directly" % n.attr)
                        if isinstance(n, ast.Name) and n.id in defs and n.id not in seen:
                            seen.add(n.id)
                            for d in defs[n.id]:
                                visit(d, seen)
                for r in [s_ for s_ in iter_stmts(q.node.body) if isinstance(s_, ast.Return) and s_.value is not None]:
                    visit(r.value, set())
                rep.check(not bad, rule, key, q.where,
                          "the value returned by %s.%s depends on state written by earlier queries (%s): a repeated query can return the cached answer of "
                          "a previous pose / direction" % (ci.name, qname, "; ".join(sorted(set(bad))[:3])),
                          "query-written state %s reaches the result only as a search start hint" % sorted(written))
    # second clause: what a query writes is private to the query.  No OTHER method of a collider (first_vertex, center, aabb, collider2origin, ...) reads it,
    # neither on self nor through a member object (`self._support_function.first_idx`): those answers must be functions of the pose alone.
    qwritten = {}       # attribute name -> class that writes it in a query method
    for mname in ("distance3d.mesh", "distance3d.colliders"):
        for ci in idx.module(mname).classes.values():
            for qname in ("__call__", "support_function"):
                q = ci.methods.get(qname)
                if q is None:
                    continue
                for n in ast.walk(q.node):
                    if isinstance(n, ast.Attribute) and isinstance(n.ctx, ast.Store) and u(n.value) == "self":
                        qwritten[n.attr] = ci
    for mname in ("distance3d.mesh", "distance3d.colliders"):
        for ci in idx.module(mname).classes.values():
            for name, meth in sorted(ci.methods.items()):
                if name in ("__call__", "support_function", "__init__", "update_pose"):
                    continue
                reads = [n for n in ast.walk(meth.node) if isinstance(n, ast.Attribute) and isinstance(n.ctx, ast.Load) and n.attr in qwritten
                         and u(n.value).split(".")[0] == "self"]
                key = "%s|no answer from query-written state" % meth.key
                if reads:
                    rep.bad(rule, key, "%s:%d" % (meth.module.relpath, reads[0].lineno),
                            "%s.%s reads `%s`, which %s.__call__ / support_function overwrites on every query: its answer depends on the queries made before "
                            "(an updated collider and a freshly built one at the same pose disagree)" % (ci.name, name, u(reads[0]), qwritten[reads[0].attr].name))
                else:
                    rep.ok(rule, key, meth.where, "reads no query-written state")



def r_stalekey(idx, rep, rule="R-STALEKEY", modules=("distance3d.colliders", "distance3d.mesh")):
    """A cache that is validated by comparing a stored key with the current pose is only a cache if the key is a COPY: `self._k = self.pose[:3, :3]` stores a
    view, and `np.array_equal(self._k, self.pose[:3, :3])` then compares the pose with itself — the cached value of an earlier pose is returned for ever
    (after an in-place pose update, or update_pose with the same array object).  Contradiction rule: a stored attribute that is (a view of) exactly what it
    is later compared with."""
    from ..core.astutil import inline_temps_in
    rep.rule(rule, "an attribute that is compared with (part of) an array attribute to decide whether cached state is still valid is stored as a copy of it, never "
                   "as a view / alias (comparing an array with a view of itself is always true)", floor=0)
    COPY = ("copy", "array", "ascontiguousarray")

    def view_of(e):
        """text of the array-attribute expression e is a view of (no copy in between), else None"""
        while True:
            if isinstance(e, ast.Call):
                return None                      # any call (np.copy, np.array, .copy(), np.dot ...) produces a fresh array or is not a plain view
            if isinstance(e, ast.Attribute) and e.attr == "T":
                e = e.value
                continue
            break
        if isinstance(e, (ast.Subscript, ast.Attribute)):
            base = e
            while isinstance(base, ast.Subscript):
                base = base.value
            if isinstance(base, ast.Attribute) and u(base.value) == "self":
                return u(e).replace(" ", "")
        return None
    n = 0
    for mname in modules:
        m = idx.modules.get(mname)
        if m is None:
            continue
        for ci in m.classes.values():
            stored = {}         # attr -> [(method, view text)]
            for meth in ci.methods.values():
                for st in iter_stmts(meth.node.body):
                    if isinstance(st, ast.Assign):
                        for t in st.targets:
                            if isinstance(t, ast.Attribute) and u(t.value) == "self":
                                v = view_of(inline_temps_in(meth.node, st.value))
                                if v is not None:
                                    stored.setdefault(t.attr, []).append((meth, v, st))
            if not stored:
                continue
            for meth in ci.methods.values():
                for c in ast.walk(meth.node):
                    sides = None
                    if isinstance(c, ast.Call) and (call_name(c) or "").split(".")[-1] in ("array_equal", "allclose", "array_equiv", "isclose") and len(c.args) >= 2:
                        sides = (c.args[0], c.args[1])
                    elif isinstance(c, ast.Compare) and len(c.ops) == 1 and isinstance(c.ops[0], (ast.Eq, ast.NotEq, ast.Is, ast.IsNot)):
                        sides = (c.left, c.comparators[0])
                    if sides is None:
                        continue
                    for a, b in (sides, sides[::-1]):
                        if isinstance(a, ast.Attribute) and u(a.value) == "self" and a.attr in stored:
                            other = view_of(inline_temps_in(meth.node, b))
                            for smeth, v, st in stored[a.attr]:
                                if other is not None and other == v:
                                    n += 1
                                    rep.bad(rule, "%s|self.%s compared with %s" % (ci.key, a.attr, v), "%s:%d" % (m.relpath, st.lineno),
                                            "%s.%s stores `self.%s = %s` — a VIEW of the array — and %s compares self.%s with `%s`: the comparison is between the array and "
                                            "itself, so state cached for an earlier pose is reused after the array changed in place (or update_pose is given the same array object)"
                                            % (ci.name, smeth.name, a.attr, v, meth.name, a.attr, other))
    if n == 0:
        rep.ok(rule, "distance3d.colliders|no validity key aliases the array it is compared with", "distance3d/colliders.py", "no stored view is compared with its own source")



def r_centerinset(idx, rep, rule="R-CENTERINSET"):
    """center() must be a point of the collider's set.  For a collider given by vertices the set is their convex hull, and the value is in it iff it is a convex
    combination of the vertices: the mean over axis 0 is one; per-coordinate extremes (min / max / bounding-box midpoint / median) are not — the midpoint of the
    bounding box of a corner tetrahedron lies outside its oblique face.  MPR aims its origin ray at center(): a centre outside the set breaks the portal
    discovery's premise."""
    from ..core.astutil import inline_temps_in
    rep.rule(rule, "center() of a vertex-defined collider is a convex combination of its vertices (np.mean over axis 0), mapped by the pose — never built from "
                   "per-coordinate extremes of the vertices", floor=1)
    m = idx.module(COLL)
    EXTREME = ("min", "max", "amin", "amax", "ptp", "median", "axis_aligned_bounding_box", "nanmin", "nanmax", "percentile", "quantile")
    for ci in m.classes.values():
        c = ci.methods.get("center")
        if c is None or any("abstractmethod" in d for d in c.decorators):
            continue
        rets = [st for st in iter_stmts(c.node.body) if isinstance(st, ast.Return) and st.value is not None]
        if not rets:
            continue
        vals = [inline_temps_in(c.node, r.value) for r in rets]
        # backward slice over the locals the returned value is built from (a tuple unpacked from a call is defined by that call)
        defs_ = {}
        for st in iter_stmts(c.node.body):
            if isinstance(st, ast.Assign):
                for t in st.targets:
                    for n_ in ast.walk(t):
                        if isinstance(n_, ast.Name):
                            defs_.setdefault(n_.id, []).append(st.value)
        seen_, work = set(), [n_.id for v in vals for n_ in ast.walk(v) if isinstance(n_, ast.Name)]
        while work:
            x = work.pop()
            if x in seen_ or x not in defs_:
                continue
            seen_.add(x)
            for d_ in defs_[x]:
                vals.append(d_)
                work += [n_.id for n_ in ast.walk(d_) if isinstance(n_, ast.Name)]
        if not any("self.vertices" in u(v) for v in vals):
            continue
        key = "%s.center|convex combination of the vertices" % ci.key
        bad, good = [], False
        for v in vals:
            for n in ast.walk(v):
                if isinstance(n, ast.Call) and any("self.vertices" in u(a) for a in list(n.args) + [getattr(n.func, "value", ast.Constant(value=0))]):
                    short = (call_name(n) or "").split(".")[-1]
                    if short in EXTREME:
                        bad.append(u(n)[:70])
                    if short in ("mean", "average") and (any(k.arg == "axis" and const(k.value) == 0 for k in n.keywords) or (len(n.args) > 1 and const(n.args[1]) == 0)):
                        good = True
        if bad:
            rep.bad(rule, key, c.where, "%s.center() is built from per-coordinate extremes of the vertices (%s): such a point need not lie in the convex hull (bounding-box "
                                        "midpoint of a lopsided mesh), so center() is not a point of the set and MPR's origin ray starts outside the shape" % (ci.name, "; ".join(bad[:2])))
        elif good:
            rep.ok(rule, key, c.where, "mean of the vertices")
        else:
            rep.unknown(rule, key, c.where, "center() reads the vertices but neither as their mean nor through a known extreme")
