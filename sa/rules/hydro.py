"""Rules for the hydroelastic contact package (C15, C16).

R-INVALIDATE   every method that reassigns a source attribute of RigidBody resets every cache derived from it.
R-REACTION     wrench12 is built from the negated total force; torques are taken about each body's own centre of mass;
               the (wrench12, wrench21) order is kept through accumulate_wrenches / contact_forces.
R-SAMEPREDICATE both broad phases take (body1, body2) in the same order, return the same triple shape and bottom out in
               the same aabb_overlap predicate.
R-FORCEDIR     the contact force is a scalar times the plane normal contact_plane_hnf[:3].
R-POLYGUARD    fewer than three polygon vertices => no intersection; the contact plane is normalised before its offset
               is interpreted; the degenerate (zero normal) case is tested before dividing.
"""
import ast
import re

from ..core.astutil import u, call_name, calls, iter_stmts, compare_triples, const, is_neg_of, parent_map, index_elts, ncmp, resolved
from ..core.index import AnalysisError

HY = "distance3d.hydroelastic_contact."


def r_invalidate(idx, rep, rule="R-INVALIDATE", relevant_to=None, floor=4):
    rep.rule(rule, "a method that reassigns a source attribute (vertices_, tetrahedra_, potentials_ ...) resets every lazily "
                   "computed cache that transitively depends on it", floor=floor)
    ci = idx.cls(HY + "_rigid_body::RigidBody")
    # caches: properties of the form  if self._x is None: self._x = f(...); return self._x
    caches = {}   # cache attr -> set of attrs / properties read to compute it
    props = {}    # property name -> cache attr it returns (or None)
    for name, m in ci.methods.items():
        if "property" not in m.decorators:
            continue
        # a lazily cached property, whichever way it is written (`if self._x is None: self._x = f(..)` or the guard clause `if self._x is not
        # None: return self._x` in front of the computation): the attribute that is tested against None AND assigned in the property
        tested = {n.left.attr for n in ast.walk(m.node) if isinstance(n, ast.Compare) and len(n.ops) == 1 and isinstance(n.ops[0], (ast.Is, ast.IsNot))
                  and isinstance(n.left, ast.Attribute) and u(n.left.value) == "self" and isinstance(n.comparators[0], ast.Constant) and n.comparators[0].value is None}
        for st in iter_stmts(m.node.body):
            if isinstance(st, ast.Assign) and len(st.targets) == 1 and isinstance(st.targets[0], ast.Attribute) and u(st.targets[0].value) == "self" \
                    and st.targets[0].attr in tested:
                cache = st.targets[0].attr
                deps = set()
                # everything of self that is read in the property outside the None test feeds the cached value (locals included)
                for n in ast.walk(m.node):
                    if isinstance(n, ast.Attribute) and u(n.value) == "self" and isinstance(n.ctx, ast.Load) and n.attr != cache:
                        deps.add(n.attr)
                caches[cache] = deps
                props[name] = cache
    if len(caches) < 3:
        raise AnalysisError("RigidBody: fewer than 3 lazily cached properties found (%s)" % sorted(caches))
    # caches filled from OUTSIDE the class:  `if body._x is None: body._x = f(body.<props>)`  in any hydroelastic function, for an
    # attribute the constructor initialises to None (same idiom, one hop away; its invalidation duty is the same)
    init = ci.methods.get("__init__")
    none_init = set()
    if init is not None:
        for st in iter_stmts(init.node.body):
            if isinstance(st, ast.Assign) and const(st.value) is None and u(st.value) == "None":
                for t in st.targets:
                    if isinstance(t, ast.Attribute) and u(t.value) == "self":
                        none_init.add(t.attr)
    for fn in idx.all_functions():
        if fn.module.is_test or "hydroelastic" not in fn.module.name or fn.cls is ci:
            continue
        for st in ast.walk(fn.node):
            if isinstance(st, ast.Assign) and len(st.targets) == 1 and isinstance(st.targets[0], ast.Attribute) and isinstance(st.targets[0].value, ast.Name) \
                    and st.targets[0].value.id != "self" and st.targets[0].attr in none_init and st.targets[0].attr not in caches and u(st.value) != "None":
                obj = st.targets[0].value.id
                deps = {n.attr for n in ast.walk(st.value) if isinstance(n, ast.Attribute) and isinstance(n.value, ast.Name) and n.value.id == obj}
                caches[st.targets[0].attr] = deps
                rep.note("R-INVALIDATE: %s is a cache of RigidBody filled in %s from %s" % (st.targets[0].attr, fn.key, sorted(deps)))
    # transitive closure over properties
    def sources(cache, seen=()):
        out = set()
        for d in caches.get(cache, ()):
            if d in props and props[d] not in seen:
                out |= sources(props[d], seen + (cache,))
                out.add(props[d])
            else:
                out.add(d)
        return out
    dep_on = {c: sources(c) for c in caches}
    wanted = None
    if relevant_to is not None:
        # only the caches the named method reads (transitively through the cached properties)
        meth = ci.methods.get(relevant_to)
        if meth is None:
            raise AnalysisError("RigidBody.%s not found" % relevant_to)
        wanted = set()
        for n in ast.walk(meth.node):
            if isinstance(n, ast.Attribute) and u(n.value) == "self" and n.attr in props:
                wanted.add(props[n.attr])
                wanted |= {c for c in dep_on[props[n.attr]] if c in caches}
    for name, m in sorted(ci.methods.items()):
        if name == "__init__" or "property" in m.decorators:
            continue
        assigned = {}
        from ..core.inline import normalise_statements
        # straight-line helper methods called on self (`self._invalidate_caches()`) are read as the assignments they make
        for st in iter_stmts(normalise_statements(idx, m.module, m.node.body, cls=ci)):
            if isinstance(st, ast.Assign):
                from ..core.astutil import assign_pairs
                for t, v_ in assign_pairs(st):
                    if isinstance(t, ast.Attribute) and u(t.value) == "self":
                        # element-wise for tuple assignments (`self._a, self._b = None, None`): a statement-like record with the element's own value
                        rec_ = ast.copy_location(ast.Assign(targets=[t], value=v_), st)
                        assigned[t.attr] = rec_
                for t in st.targets:
                    if isinstance(t, ast.Attribute) and u(t.value) == "self" and t.attr not in assigned:
                        assigned[t.attr] = st
        for a, st in assigned.items():
            if a in caches:
                continue
            for c in sorted(caches):
                if wanted is not None and c not in wanted:
                    continue
                if a in dep_on[c]:
                    reset = c in assigned and (const(assigned[c].value) is None and u(assigned[c].value) == "None")
                    key = ci.key + ".%s|%s assigned -> cache %s" % (name, a, c)
                    rep.check(reset, rule, key, "%s:%d" % (ci.module.relpath, st.lineno),
                              "%s reassigns self.%s but does not reset the cache self.%s computed from it: later queries use stale data" % (name, a, c),
                              "reset to None")


def r_reaction(idx, rep, rule="R-REACTION"):
    """Decided on what contact_forces RETURNS, by symbolic evaluation of the chain contact_forces -> accumulate_wrenches -> _transform_wrenches
    (rules/wrenchsym.py): with F the per-triangle forces of the contact surface, r their points of application and c1, c2 the centres of mass,

        wrench21 = X . hstack( sum F,  sum (r - c1) x F )        wrench12 = X . hstack( -sum F,  sum (r - c2) x (-F) )

    with ONE transform X for both, returned as (intersection, wrench12, wrench21, ...).  Names, temporaries, unpacking, forwarded result tuples and the
    split over helpers do not enter: only the terms do."""
    from . import wrenchsym as ws
    rep.rule(rule, "action-reaction by construction: contact_forces returns (intersection, X.hstack(-sum F, sum (r - c2) x (-F)), X.hstack(sum F, sum (r - c1) x F)) "
                   "— force parts are mutual negations, each torque is taken about the centre of mass of the body the wrench acts on, one transform for both",
             floor=5, unknown_ceiling=2)
    cf = idx.func(HY + "_interface::contact_forces")
    ps = cf.params()
    if len(ps) < 2:
        raise AnalysisError("contact_forces no longer takes two bodies")
    b1, b2 = ("param", ps[0]), ("param", ps[1])
    ev = ws.Eval(idx, "distance3d.hydroelastic_contact")
    rets = [r for r in ev.run(cf, [b1, b2]) if isinstance(r, tuple) and r and r[0] == "tuple"]
    if not rets:
        rep.unknown(rule, cf.key + "|returned wrenches", cf.where, "contact_forces does not return a tuple on any path that the evaluator follows")
        return
    names = {b1: ps[0], b2: ps[1]}
    verdict = {}

    def put(key, ok, msg, unknown=False):
        st_ = "unknown" if unknown else ("ok" if ok else "bad")
        rank = {"ok": 0, "unknown": 1, "bad": 2}
        if key not in verdict or rank[st_] > rank[verdict[key][0]]:
            verdict[key] = (st_, msg)

    def split(w):
        """(transforms applied, payload)"""
        xs = []
        while isinstance(w, tuple) and w and w[0] == "apply":
            xs.append(w[1])
            w = w[2]
        return tuple(xs), w
    for r in rets:
        parts = r[1]
        if len(parts) < 3:
            put("return order (intersection, wrench12, wrench21)", False, "contact_forces returns %d values" % len(parts))
            continue
        x12, h12 = split(parts[1])
        x21, h21 = split(parts[2])
        if not (isinstance(h12, tuple) and h12[0] == "hstack" and len(h12[1]) == 2 and isinstance(h21, tuple) and h21[0] == "hstack" and len(h21[1]) == 2):
            put("returned wrenches", False, "the returned wrenches are not (transformed) stacks of a force and a torque: %s / %s" % (ws.show(parts[1], names)[:120], ws.show(parts[2], names)[:120]),
                unknown=True)
            continue
        (f12, t12), (f21, t21) = h12[1], h21[1]
        put("same transform for both wrenches", x12 == x21, "wrench12 is transformed by %s, wrench21 by %s" % ([ws.show(x, names)[:60] for x in x12], [ws.show(x, names)[:60] for x in x21]))
        put("f12 = -f21", f12 == ws.neg(f21), "force parts `%s` and `%s` are not mutual negations" % (ws.show(f12, names)[:100], ws.show(f21, names)[:100]))
        # which term is F?  the summed quantity of the force that is NOT negated
        pos = f21 if not (isinstance(f21, tuple) and f21[0] == "neg") else f12
        if not (isinstance(pos, tuple) and pos[0] == "sum0" and isinstance(pos[1], tuple) and pos[1][0] == "attr"):
            put("f21 = sum of the contact forces", False, "the force part of wrench21 is `%s`, not the sum of the surface's per-triangle forces" % ws.show(f21, names)[:120], unknown=True)
            continue
        F = pos[1]
        S = F[1]
        put("wrenches are computed from the surface as find_contact_surface returned it", not any(isinstance(x_, tuple) and x_[:1] == ("mutated",) for x_ in _walk_terms(S)),
            "the forces are read from `%s`: a method that re-expresses the contact surface in place (world frame) ran BEFORE the wrenches were accumulated, so "
            "world-frame data is transformed by frame2world once more" % ws.show(S, names)[:120])
        names[S] = "surface"
        put("f21 = sum of the contact forces", f21 == ("sum0", F),
            "the third returned value must be the wrench ON body 1 (force +sum F): its force part is `%s` (the two wrenches are swapped somewhere along contact_forces / "
            "accumulate_wrenches / _transform_wrenches)" % ws.show(f21, names)[:120])
        coms = [x for x in _walk_terms(t21) if isinstance(x, tuple) and x[0] == "attr" and x[1] == S and x[2] != F[2]]
        R = coms[0] if coms else ("attr", S, "contact_coms")
        want21 = ("sum0", ws.mk_cross(("sub", R, ("attr", b1, "com")), F))
        want12 = ws.mk_sum0(ws.mk_cross(("sub", R, ("attr", b2, "com")), ws.neg(F)))
        put("torque21 about body 1's centre of mass with +F", t21 == want21,
            "torque of wrench21 is `%s`; need %s" % (ws.show(t21, names)[:160], ws.show(want21, names)))
        put("torque12 about body 2's centre of mass with -F", t12 == want12,
            "torque of wrench12 is `%s`; need %s" % (ws.show(t12, names)[:160], ws.show(want12, names)))
        put("return order (intersection, wrench12, wrench21)", parts[0] == ("attr", S, "intersection") or (isinstance(parts[0], tuple) and parts[0][0] == "attr" and parts[0][2] == "intersection"),
            "the first returned value is `%s`, not the surface's intersection flag" % ws.show(parts[0], names)[:80])
    for key, (st_, msg) in sorted(verdict.items()):
        getattr(rep, st_)(rule, cf.key + "|" + key, cf.where, msg if st_ != "ok" else "holds on every return path")


def _walk_terms(v):
    yield v
    if isinstance(v, tuple):
        for x in v:
            if isinstance(x, tuple):
                yield from _walk_terms(x)


def r_samepredicate(idx, rep, rule="R-SAMEPREDICATE"):
    rep.rule(rule, "tree-based and brute-force broad phase are interchangeable: same (body1, body2) argument order, same "
                   "(indices1, indices2, pairs) result shape, both decided by aabb_tree.aabb_overlap", floor=4)
    f = idx.func(HY + "_interface::find_contact_surface")
    p1, p2 = f.params()[:2]
    ifs = [st for st in iter_stmts(f.node.body) if isinstance(st, ast.If) and "use_aabb_trees" in u(st.test)]
    if len(ifs) != 1:
        raise AnalysisError("find_contact_surface: broad phase switch not found")
    st = ifs[0]

    def branch(body):
        for s in iter_stmts(body):
            if isinstance(s, ast.Assign) and isinstance(s.value, ast.Call) and isinstance(s.targets[0], ast.Tuple):
                return [u(e) for e in s.targets[0].elts], s.value
        return None, None
    t_tg, t_call = branch(st.body)
    b_tg, b_call = branch(st.orelse)
    if t_call is None or b_call is None:
        raise AnalysisError("find_contact_surface: broad phase calls not found")
    rep.check(len(t_tg) == 4 and t_tg[1:] == b_tg, rule, f.key + "|same result triple", f.where,
              "tree branch binds %s, brute-force branch binds %s" % (t_tg, b_tg))
    recv = u(t_call.func.value) if isinstance(t_call.func, ast.Attribute) else ""
    arg = u(t_call.args[0]) if t_call.args else ""
    rep.check(recv.startswith(p1 + ".") and arg.startswith(p2 + ".") and recv.split(".")[1:] == arg.split(".")[1:], rule, f.key + "|tree argument order", f.where,
              "tree query is %s.overlaps_aabb_tree(%s): need body 1's tree against body 2's" % (recv, arg))
    ba = [u(a) for a in b_call.args]
    rep.check(len(ba) == 2 and ba[0].startswith(p1 + ".") and ba[1].startswith(p2 + ".") and ba[0].split(".")[1:] == ba[1].split(".")[1:], rule,
              f.key + "|brute-force argument order", f.where, "brute-force call gets %s" % ba)
    # both reach aabb_overlap
    AT = "distance3d.aabb_tree"
    reach = {}
    for start in ("query_overlap_of_other_tree", "all_aabbs_overlap"):
        seen, todo = set(), [idx.func(AT + "::" + start)]
        while todo:
            g = todo.pop()
            if g.key in seen:
                continue
            seen.add(g.key)
            for c in calls(g.node):
                r = idx.resolve_call(g.module, c)
                if r is not None and hasattr(r, "node") and hasattr(r, "qualname"):
                    todo.append(r)
        reach[start] = (AT + "::aabb_overlap") in seen
    rep.check(all(reach.values()), rule, f.key + "|same predicate", f.where, "aabb_overlap reachable: %s" % reach)
    rep.check((call_name(b_call) or "").split(".")[-1] == "all_aabbs_overlap" and (call_name(t_call) or "").split(".")[-1] == "overlaps_aabb_tree",
              rule, f.key + "|callees", f.where, "unexpected broad phase callees %s / %s" % (call_name(t_call), call_name(b_call)))
    # body 1 is re-expressed in body 2's frame before either broad phase
    ex = [s for s in f.node.body if isinstance(s, ast.Expr) and isinstance(s.value, ast.Call) and u(s.value.func) == p1 + ".express_in"]
    ok = bool(ex) and ex[0].lineno < st.lineno and u(ex[0].value.args[0]).startswith(p2 + ".")
    rep.check(ok, rule, f.key + "|express_in before broad phase", f.where,
              "body 1 must be expressed in body 2's frame before the boxes of both bodies are compared")


def r_forcedir(idx, rep, rule="R-FORCEDIR"):
    rep.rule(rule, "the contact force of a polygon is (scalar) * contact_plane_hnf[:3] (along the plane normal)", floor=1)
    f = idx.func(HY + "_forces::compute_contact_force")
    hnf = f.params()[2]
    rets = [s for s in iter_stmts(f.node.body) if isinstance(s, ast.Return) and isinstance(s.value, ast.Tuple)]
    if not rets:
        raise AnalysisError("compute_contact_force: tuple return vanished")
    val = resolved(f.node, rets[-1].value.elts[1])
    ok = False
    if isinstance(val, ast.BinOp) and isinstance(val.op, ast.Mult):
        l, r = val.left, val.right
        for s, v in ((l, r), (r, l)):
            if isinstance(v, ast.Subscript) and u(v.value) == hnf and u(v.slice) == ":3" and isinstance(s, ast.Name):
                ok = True
    rep.check(ok, rule, f.key + "|force vector = scalar * normal", f.where,
              "force vector is `%s`, need scalar * %s[:3]" % (u(val), hnf))


def r_contactforce(idx, rep, rule="R-CONTACTFORCE"):
    """compute_contact_force integrates the pressure over a fan of triangles.  Decided by algebraic evaluation of ONE generic iteration of the triangle loop
    (rules/contactsym.py: sums / products flattened and sorted, corners of the current triangle as terms, piecewise-filled buffers tracked): per
    triangle (v0, v1, v2)

        centroid c = (v0 + v1 + v2) / 3          area A = 1/2 |e x e'| (two different edges)          pressure p = sum( solve(X, [c; 1]) * potentials * E )
        force += p * A          total area += A          centre += A * c          and afterwards centre /= total area,  force vector = force * plane normal."""
    from . import contactsym as cs
    rep.rule(rule, "compute_contact_force: one generic iteration of the triangle fan accumulates pressure(centroid) * area, area and area * centroid with "
                   "centroid = (v0 + v1 + v2) / 3, area = 1/2 |cross of two different edges|, pressure = sum(barycentric coordinates of the centroid * potentials "
                   "* modulus); the centre is divided by the total area, the force vector is the accumulated force times the plane normal", floor=4, unknown_ceiling=3)
    f = idx.func(HY + "_forces::compute_contact_force")
    ps = f.params()
    if len(ps) < 4:
        raise AnalysisError("compute_contact_force signature changed")
    tet, eps, plane, polygon = ps[:4]
    E = ps[4] if len(ps) > 4 else None
    loops = [st for st in f.node.body if isinstance(st, ast.For) and isinstance(st.target, ast.Name)]
    if len(loops) != 1:
        rep.unknown(rule, f.key + "|triangle fan", f.where, "no single triangle loop with a plain loop variable (restructured / vectorised): the integration formulas are not decided")
        return
    loop = loops[0]
    where = "%s:%d" % (f.module.relpath, loop.lineno)
    ev = cs.Eval(polygon, loop.target.id)
    pre = f.node.body[:f.node.body.index(loop)]
    ev.run([st for st in pre if isinstance(st, ast.Assign)])
    pre_env = dict(ev.env)
    ev.acc = {}
    ev.run(loop.body)
    if ev.notes:
        rep.unknown(rule, f.key + "|triangle fan", where, "; ".join(ev.notes[:2]))
        return
    rets = [st for st in f.node.body if isinstance(st, ast.Return) and isinstance(st.value, ast.Tuple) and len(st.value.elts) == 4]
    if not rets:
        raise AnalysisError("compute_contact_force: 4-tuple return vanished")
    com_n, fvec_n, area_n = [u(e) for e in rets[0].value.elts[:3]]
    # an index-driven fan (`for i in range(n - 2)`: polygon[0], polygon[i + 1], polygon[i + 2]) names its corners as polygon vertices directly: when exactly
    # three distinct ones occur in what is accumulated they ARE the corners (any bijection: the obligations are symmetric in the corners)
    direct = []
    for v_ in ev.acc.values():
        for t_ in v_:
            cs.polygon_vertices(t_, polygon, direct)
    fan_note = None
    if len(direct) == 3 and not any(x[0] == "corner" for v_ in ev.acc.values() for t_ in v_ for x in _walk_terms(t_)):
        mapping = {t_: ("corner", k_) for k_, t_ in enumerate(sorted(direct, key=repr))}
        for k_ in list(ev.acc):
            ev.acc[k_] = [cs.rebuild(t_, lambda x: mapping.get(x)) for t_ in ev.acc[k_]]
        # the fan itself: vertex 0 and two consecutive later vertices of the loop index
        lv = ("sym", loop.target.id)
        want_fan = sorted([("idx", ("sym", polygon), cs.num(0)), ("idx", ("sym", polygon), cs.add(lv, cs.num(1))), ("idx", ("sym", polygon), cs.add(lv, cs.num(2)))], key=repr)
        fan_note = sorted(direct, key=repr) == want_fan
        rep.check(fan_note, rule, f.key + "|fan around the first vertex", where,
                  "the triangles are built from %s; a fan over an ordered convex polygon is (p[0], p[i + 1], p[i + 2])" % [cs.show(x) for x in direct], "p[0], p[i+1], p[i+2]")
    c0, c1, c2 = ("corner", 0), ("corner", 1), ("corner", 2)
    C = cs.mul(cs.add(c0, c1, c2), cs.num(Fraction_(1, 3)))
    # area: the term added to the returned total area
    A = (ev.acc.get(area_n) or [None])[0]
    ok_area = False
    if A is not None:
        fac = A[1] if A[0] == "mul" else (A,)
        nc = [x for x in fac if x[0] == "normcross"]
        half = [x for x in fac if x[0] == "num"]
        if len(nc) == 1 and len(fac) == 2 and half and half[0][1] == Fraction_(1, 2):
            e1, e2 = nc[0][1]
            ok_area = e1[0] == "edge" and e2[0] == "edge" and e1 != e2 and all(set(e[1]) <= {0, 1, 2} and len(set(e[1])) == 2 for e in (e1, e2))
    rep.check(ok_area, rule, f.key + "|area of the triangle", where,
              "the term added to the total area is `%s`: need 1/2 * |cross(e, e')| with two DIFFERENT edges of the triangle (v_i - v_j)" % (cs.show(A) if A is not None else "nothing"),
              "1/2 |e x e'|")
    rep.check(A is not None and len(ev.acc.get(area_n, [])) == 1, rule, f.key + "|total area accumulated", where, "the returned area `%s` is not accumulated once per triangle" % area_n, "+= area")
    # centre: += A * C
    com_terms = ev.acc.get(com_n, [])
    okc = A is not None and len(com_terms) == 1 and com_terms[0] == cs.mul(A, C)
    rep.check(okc, rule, f.key + "|area-weighted centroid accumulated", where,
              "the returned centre `%s` accumulates `%s`; need area * (v0 + v1 + v2) / 3 with the SAME area term" % (com_n, [cs.show(t) for t in com_terms][:2]), "+= area * centroid")
    # force: += p * A with p = sum(solve(X, [C; 1]) * eps * E)
    fterms = {k: v for k, v in ev.acc.items() if k not in (com_n, area_n)}
    okf, why = False, "no scalar force accumulator found"
    X = None
    for k, v in fterms.items():
        if len(v) != 1 or A is None:
            continue
        t = v[0]
        fac = list(t[1]) if t[0] == "mul" else [t]
        afac = list(A[1]) if A[0] == "mul" else [A]
        rest = list(fac)
        try:
            for x in afac:
                rest.remove(x)
        except ValueError:
            why = "`%s += %s` does not contain the area term" % (k, cs.show(t))
            continue
        if len(rest) != 1 or rest[0][0] != "sum":
            why = "`%s += %s`: after removing the area a single sum(...) (the pressure) must remain" % (k, cs.show(t))
            continue
        inner = rest[0][1]
        pf = list(inner[1]) if inner[0] == "mul" else [inner]
        sol = [x for x in pf if x[0] == "solve"]
        others = sorted((x for x in pf if x[0] != "solve"), key=repr)
        want_others = sorted([("sym", eps)] + ([("sym", E)] if E else []), key=repr)
        if len(sol) == 1 and others == want_others and sol[0][2] == ("hom", C, cs.num(1)):
            okf, X = True, sol[0][1]
        else:
            why = "pressure is `%s`; need sum(solve(X, [centroid; 1]) * %s%s) with the centroid (v0 + v1 + v2) / 3 of THIS triangle" % (cs.show(rest[0]), eps, " * " + E if E else "")
        force_acc = k
    rep.check(okf, rule, f.key + "|force accumulates pressure(centroid) * area", where, why, "+= p(c) * A")
    if okf:
        Xs = cs.show(X)
        rep.check(X[0] == "call" and X[1] in ("vstack", "row_stack", "concatenate") and ("%s.T" % tet) in Xs and "ones" in Xs, rule, f.key + "|barycentric system", where,
                  "the system matrix is `%s`; need the tetrahedron's vertices as columns above a row of ones" % Xs[:120], "[tet.T; 1]")
    # after the loop
    post = f.node.body[f.node.body.index(loop) + 1:]
    norm_ok = any(isinstance(s_, ast.AugAssign) and isinstance(s_.op, ast.Div) and u(s_.target) == com_n and u(s_.value) == area_n for st in post for s_ in ast.walk(st))
    rep.check(norm_ok, rule, f.key + "|centroid divided by the total area", where, "the accumulated centre `%s` is not divided by the total area `%s`" % (com_n, area_n), "/= total area")
    if okf:
        from ..core.astutil import inline_temps_in
        fv = inline_temps_in(f.node, rets[0].value.elts[1])
        okv = isinstance(fv, ast.BinOp) and isinstance(fv.op, ast.Mult) and {u(fv.left), u(fv.right)} == {force_acc, "%s[:3]" % plane}
        rep.check(okv, rule, f.key + "|force vector along the plane normal", f.where, "the force vector is `%s`; need the accumulated force times %s[:3]" % (u(fv)[:80], plane), "force * normal")


def Fraction_(a, b):
    from fractions import Fraction
    return Fraction(a, b)


def r_polyguard(idx, rep, rule="R-POLYGUARD"):
    rep.rule(rule, "fewer than 3 polygon vertices means no intersection (at all three stages); the contact plane is normalised "
                   "by the norm of its normal part before the offset is used, with the zero-normal case tested first", floor=4)
    TI = HY + "_tetrahedron_intersection"
    ccp = idx.func(TI + "::compute_contact_polygon")
    # The polygon is projected to 3D only where BOTH the half-plane intersection and the de-duplicated, ordered polygon are known to have at least 3
    # vertices — as facts on the guard chain of the projecting statement (enclosing tests and preceding exits), so early returns and a single exit with
    # a default empty result are the same instance — and what is returned otherwise is the empty (0, 3) polygon.
    from ..core.astutil import guard_chain as _gc
    pm_c = parent_map(ccp.node)

    def len_ge3(t, pol):
        """name N when (t, pol) states len(N) >= 3"""
        c = ncmp(t)
        if c is None:
            return None
        op, a_, b_ = c                    # a < b  /  a <= b
        if isinstance(a_, ast.Call) and call_name(a_) == "len" and a_.args and const(b_) == 3 and op == "<" and pol is False:
            return u(a_.args[0])
        if isinstance(b_, ast.Call) and call_name(b_) == "len" and b_.args and ((const(a_) == 3 and op == "<=") or (const(a_) == 2 and op == "<")) and pol is True:
            return u(b_.args[0])
        return None
    proj = [c_ for c_ in calls(ccp.node) if (call_name(c_) or "").split(".")[-1] == "project_polygon_to_3d"]
    if len(proj) != 1:
        raise AnalysisError("compute_contact_polygon: expected one projection of the 2D polygon to 3D")
    pst = proj[0]
    while not isinstance(pst, ast.stmt):
        pst = pm_c[pst]
    known = {len_ge3(t_, pol) for t_, pol in _gc(pm_c, pst, ccp.node)} - {None}

    def origin(name):
        """callees that produce any value the name is bound to in this function"""
        out = set()
        for st_ in ast.walk(ccp.node):
            if isinstance(st_, ast.Assign) and any(u(t_) == name for t_ in st_.targets):
                out |= {(call_name(c_) or "").split(".")[-1] for c_ in ast.walk(st_.value) if isinstance(c_, ast.Call)}
        return out
    uq = [n_ for n_ in known if "filter_unique_points" in origin(n_)]
    hp = [n_ for n_ in known if "intersect_halfplanes" in origin(n_) and n_ not in uq]
    rep.check(bool(hp), rule, ccp.key + "|len(half-plane intersection) >= 3 before the polygon is built", "%s:%d" % (ccp.module.relpath, pst.lineno),
              "the polygon is projected without knowing that the half-plane intersection has at least 3 vertices (known: %s)" % sorted(known))
    rep.check(bool(uq) and (not proj[0].args or u(proj[0].args[0]) in uq), rule, ccp.key + "|len(unique vertices) >= 3 before the polygon is built",
              "%s:%d" % (ccp.module.relpath, pst.lineno),
              "the polygon is projected without knowing that at least 3 DISTINCT vertices remain after duplicate removal (known: %s)" % sorted(known))
    n_other = 0
    for r_ in [n_ for n_ in ast.walk(ccp.node) if isinstance(n_, ast.Return) and n_.value is not None]:
        if r_ is pst or any(x is proj[0] for x in ast.walk(r_)):
            continue
        # a return of the variable that may hold the projection: its other definition must be the empty polygon
        vals = [r_.value] if not isinstance(r_.value, ast.Name) else [st_.value for st_ in ast.walk(ccp.node) if isinstance(st_, ast.Assign) and any(u(t_) == r_.value.id for t_ in st_.targets)]
        others = [v_ for v_ in vals if not any(x is proj[0] for x in ast.walk(v_))]
        if not others:
            continue
        n_other += 1
        rep.check(all("np.empty((0, 3)" in u(resolved(ccp.node, v_) if isinstance(v_, ast.Name) else v_) for v_ in others), rule,
                  ccp.key + "|empty polygon otherwise #%d" % n_other, "%s:%d" % (ccp.module.relpath, r_.lineno), "a degenerate polygon does not return the empty (0, 3) polygon")
    rep.check(n_other >= 1, rule, ccp.key + "|degenerate results exist", ccp.where, "no path returns the empty polygon")
    itp = idx.func(TI + "::intersect_tetrahedron_pair")
    # every return whose flag can be True while a polygon exists must know len(polygon) >= 3: either the flag IS that comparison, or the return is
    # reached only past `if len(polygon) < 3: return False, ...`
    from ..core.astutil import guard_chain
    pm_i = parent_map(itp.node)

    def is_len3(t, want_ge):
        c = ncmp(t)
        if c is None:
            return False
        op, a, b = c                      # normalised to a < b / a <= b
        if isinstance(a, ast.Call) and call_name(a) == "len" and const(b) == 3 and op == "<":
            return not want_ge            # len < 3
        if isinstance(b, ast.Call) and call_name(b) == "len" and const(a) == 3 and op == "<=":
            return want_ge                # 3 <= len
        if isinstance(b, ast.Call) and call_name(b) == "len" and const(a) == 2 and op == "<":
            return want_ge                # 2 < len
        return False
    ok, seen_poly = True, False
    for r_ in [n_ for n_ in ast.walk(itp.node) if isinstance(n_, ast.Return) and isinstance(n_.value, ast.Tuple) and n_.value.elts]:
        flag = r_.value.elts[0]
        if const(flag) is False:
            continue
        atoms = guard_chain(pm_i, r_, itp.node)
        guarded = any((is_len3(t_, True) and pol is True) or (is_len3(t_, False) and pol is False) for t_, pol in atoms)
        if isinstance(flag, ast.Compare) and is_len3(flag, True):
            seen_poly = True
        elif const(flag) is True and guarded:
            seen_poly = True
        elif const(flag) is True and not any("len(" in u(t_) for t_, _ in atoms):
            continue                      # an early success that does not involve the polygon (identical tetrahedra)
        else:
            ok = False
    ok = ok and seen_poly
    rep.check(ok, rule, itp.key + "|len(contact_polygon) < 3 -> False", itp.where,
              "a polygon with fewer than 3 vertices must be reported as no intersection")
    cp = idx.func(TI + "::contact_plane")
    body = list(iter_stmts(cp.node.body))
    norm_def = [st for st in body if isinstance(st, ast.Assign) and isinstance(st.value, ast.Call) and call_name(st.value) == "np.linalg.norm"
                and ":3" in u(st.value.args[0])]
    div = [st for st in body if isinstance(st, ast.AugAssign) and isinstance(st.op, ast.Div) and norm_def and u(st.value) == u(norm_def[0].targets[0])
           and isinstance(st.target, ast.Name) and ("%s[:3]" % st.target.id) == u(norm_def[0].value.args[0])]
    flip = [st for st in body if isinstance(st, ast.AugAssign) and isinstance(st.target, ast.Subscript) and const(st.target.slice) == 3]
    # the division is reached only where the norm is known to be non-zero: `if norm == 0.0: return ...` before it, or the division inside
    # `if norm != 0.0:` — the guard chain of the dividing statement (enclosing tests and preceding exits) says which
    ok = bool(norm_def and div)
    if ok:
        from ..core.astutil import guard_chain
        nname = u(norm_def[0].targets[0])
        atoms = guard_chain(parent_map(cp.node), div[0], cp.node)

        def zero_fact(t, pol):
            c = t if isinstance(t, ast.Compare) and len(t.ops) == 1 else None
            if c is None:
                return False
            sides = {u(c.left), u(c.comparators[0])}
            if nname not in sides or not (sides & {"0.0", "0"}):
                return False
            return (isinstance(c.ops[0], ast.Eq) and pol is False) or (isinstance(c.ops[0], ast.NotEq) and pol is True) \
                or (isinstance(c.ops[0], (ast.Gt, ast.Lt)) and pol is True)
        ok = any(zero_fact(t_, pol) for t_, pol in atoms) and norm_def[0].lineno < div[0].lineno
    rep.check(ok, rule, cp.key + "|normalise after zero test", cp.where,
              "contact_plane must compute the norm of plane[:3] and divide the plane by it only where the norm is known to be non-zero")
    rep.check(bool(flip) and bool(div) and div[0].lineno < flip[0].lineno, rule, cp.key + "|offset used after normalisation", cp.where,
              "the offset component [3] is modified/used before the plane is normalised")


def _bool_eval(node, val):
    """evaluate a boolean expression given val(compare_node) -> bool"""
    if isinstance(node, ast.BoolOp):
        vs = [_bool_eval(v, val) for v in node.values]
        return all(vs) if isinstance(node.op, ast.And) else any(vs)
    if isinstance(node, ast.UnaryOp) and isinstance(node.op, ast.Not):
        return not _bool_eval(node.operand, val)
    if isinstance(node, ast.Compare):
        if len(node.ops) == 1:
            return val(node)
        # chained: a < b < c
        left = node.left
        out = True
        for op, right in zip(node.ops, node.comparators):
            out = out and val(ast.Compare(left=left, ops=[op], comparators=[right]))
            left = right
        return out
    if isinstance(node, ast.Constant):
        return bool(node.value)
    raise AnalysisError("boolean structure not understood: %s" % u(node))


def r_planecross(idx, rep, rule="R-PLANECROSS"):
    rep.rule(rule, "check_tetrahedra_intersect_contact_plane is True exactly when BOTH tetrahedra have a vertex strictly below "
                   "-tolerance and one strictly above +tolerance (truth table over the four comparisons, by constant evaluation of "
                   "the function's boolean structure)", floor=2)
    import itertools
    f = idx.func(HY + "_tetrahedron_intersection::check_tetrahedra_intersect_contact_plane")
    # one-expression helpers (`_on_both_sides_of_plane(distances, tolerance)`) are read as the expression they return
    import copy as _copy
    from ..core.inline import expand_helpers as _expand
    f0_, f = f, _copy.copy(f)
    f.node = _expand(idx, f0_.module, f0_.node, depth=3)
    ps = f.params()
    t1, t2, nrm, dd, tol = ps[:5]
    loc = {}
    for st in iter_stmts(f.node.body):
        if isinstance(st, ast.Assign) and isinstance(st.targets[0], ast.Name):
            loc[st.targets[0].id] = st.value

    def which(x):
        """'min1' / 'max2' ... for min(<signed distances of tetrahedron k>)"""
        if isinstance(x, ast.Call) and call_name(x) in ("min", "max", "np.min", "np.max") and x.args:
            a = x.args[0]
            a = loc.get(a.id, a) if isinstance(a, ast.Name) else a
            txt = u(a).replace(" ", "")
            for k, t in ((1, t1), (2, t2)):
                if txt in ("%s.dot(%s)-%s" % (t, nrm, dd), "np.dot(%s,%s)-%s" % (t, nrm, dd)):
                    return call_name(x).split(".")[-1] + str(k)
        return None

    def atom(cmp_):
        n = ncmp(cmp_)
        if n is None:
            return None
        op, a, b = n
        wa, wb = which(a), which(b)
        # min_k < -tol   |   tol < max_k      (and their complements  -tol <= min_k , max_k <= tol)
        if wa and wa.startswith("min") and u(b).replace(" ", "") == "-" + tol:
            return (wa, op == "<", True) if op in ("<", "<=") else None
        if wb and wb.startswith("min") and u(a).replace(" ", "") == "-" + tol:
            return (wb, op == "<=", False) if op in ("<", "<=") else None        # -tol <(=) min  == not (min <(=) -tol)
        if wb and wb.startswith("max") and u(a) == tol:
            return (wb, op == "<", True) if op in ("<", "<=") else None
        if wa and wa.startswith("max") and u(b) == tol:
            return (wa, op == "<=", False) if op in ("<", "<=") else None
        return None
    atoms = {}
    for n in ast.walk(f.node):
        if isinstance(n, ast.Compare):
            left = n.left
            for op, right in zip(n.ops, n.comparators):
                c = ast.Compare(left=left, ops=[op], comparators=[right])
                a = atom(c)
                if a is None:
                    w = which(c.left) or which(c.comparators[0])
                    if w is not None:
                        rep.bad(rule, f.key + "|strict beyond the tolerance", f.where,
                                "`%s` compares the %s signed distance of tetrahedron %s with the wrong threshold: a vertex counts as below the plane only "
                                "beyond -tolerance and as above only beyond +tolerance (min < -tolerance, max > tolerance)" % (u(c), w[:3], w[3]))
                        return
                    raise AnalysisError("check_tetrahedra_intersect_contact_plane: comparison `%s` is not min/max of a tetrahedron's signed distances against +-tolerance" % u(c))
                atoms[u(c)] = a
                left = right
    names = sorted({a[0] for a in atoms.values()})
    rep.check(names == ["max1", "max2", "min1", "min2"], rule, f.key + "|four comparisons", f.where,
              "the test must look at min and max of both tetrahedra; it looks at %s" % names)
    strict = all(a[1] for a in atoms.values())
    rep.check(strict, rule, f.key + "|strict beyond the tolerance", f.where, "a comparison is non-strict / complemented inconsistently: %s" % atoms)
    if names != ["max1", "max2", "min1", "min2"]:
        return
    bad = []
    for bits in itertools.product([False, True], repeat=4):
        truth = dict(zip(names, bits))          # truth[x] == 'x is beyond its tolerance'

        def val(c):
            nm, _, pos = atoms[u(c)]
            return truth[nm] if pos else (not truth[nm])
        # run the body
        res = None
        def run(body):
            for st in body:
                if isinstance(st, ast.Return):
                    return _bool_eval(st.value, val)
                if isinstance(st, ast.If):
                    r = run(st.body) if _bool_eval(st.test, val) else run(st.orelse)
                    if r is not None:
                        return r
            return None
        res = run(f.node.body)
        if res is None:
            raise AnalysisError("check_tetrahedra_intersect_contact_plane: a path without return")
        if res != all(bits):
            bad.append((truth, res))
    rep.check(not bad, rule, f.key + "|True iff all four hold", f.where,
              "the function returns %s for %s: both tetrahedra must straddle the contact plane (a polygon is otherwise built from an unbounded "
              "prism of the remaining half-planes)" % (bad[0][1] if bad else "", bad[0][0] if bad else ""), "16 truth assignments")


def r_planecross_caller(idx, rep, rule="R-PLANECROSS"):
    """intersect_tetrahedron_pair builds a polygon only after BOTH tetrahedra were tested against the contact plane: before the call of
    compute_contact_polygon there is an exit guarded by check_tetrahedra_intersect_contact_plane(tetrahedron1, tetrahedron2, normal, d, ..),
    or by an inlined test whose min / max reductions each range over ONE tetrahedron.  A reduction over the stacked vertices of both tests
    the union: a tetrahedron that lies wholly on one side then contributes an unbounded prism of half-planes."""
    f = idx.func(HY + "_tetrahedron_intersection::intersect_tetrahedron_pair")
    ps = f.params()
    t1, t2 = ps[0], ps[3]
    body = f.node.body
    pos = None
    for i, st in enumerate(body):
        if any(isinstance(c, ast.Call) and (call_name(c) or "").split(".")[-1] == "compute_contact_polygon" for c in ast.walk(st)):
            pos = i
            break
    if pos is None:
        raise AnalysisError("intersect_tetrahedron_pair: call of compute_contact_polygon not found")
    loc = {}
    for st in body[:pos]:
        if isinstance(st, ast.Assign) and len(st.targets) == 1 and isinstance(st.targets[0], ast.Name):
            loc[st.targets[0].id] = st.value

    def res(e, depth=0):
        """names of the tetrahedra an expression is computed from"""
        out = set()
        for n in ast.walk(e):
            if isinstance(n, ast.Name):
                if n.id in (t1, t2):
                    out.add(n.id)
                elif n.id in loc and depth < 5:
                    out |= res(loc[n.id], depth + 1)
        return out
    key = f.key + "|both tetrahedra are tested against the contact plane before a polygon is built"
    guards = [st for st in body[:pos] if isinstance(st, ast.If) and any(isinstance(x, ast.Return) for x in ast.walk(st))]
    for g in guards:
        for c in ast.walk(g.test):
            if isinstance(c, ast.Call) and (call_name(c) or "").split(".")[-1] == "check_tetrahedra_intersect_contact_plane":
                args = [u(a) for a in c.args[:2]]
                rep.check(args == [t1, t2] or args == [t2, t1], rule, key, "%s:%d" % (f.module.relpath, g.lineno),
                          "the plane test is called with %s instead of the two tetrahedra (%s, %s)" % (args, t1, t2), "helper called with both tetrahedra")
                return
    reds = []
    for g in guards:
        for c in ast.walk(g.test):
            if isinstance(c, ast.Call) and (call_name(c) or "").split(".")[-1] in ("min", "max", "amin", "amax", "any", "all") and c.args:
                reds.append((g, c, res(c.args[0])))
    union = [(g, c) for g, c, r in reds if r == {t1, t2}]
    if union:
        g, c = union[0]
        rep.bad(rule, key, "%s:%d" % (f.module.relpath, g.lineno),
                "`%s` reduces over the vertices of BOTH tetrahedra at once: the exit only asks whether their union reaches through the contact plane. A tetrahedron that lies "
                "wholly on one side passes, its face parallel to the plane is dropped by make_halfplanes, and a polygon outside that tetrahedron is reported; "
                "each tetrahedron must have a vertex beyond -tolerance and one beyond +tolerance" % u(c)[:60])
        return
    per = {(call_name(c).split(".")[-1][-3:], tuple(sorted(r))) for g, c, r in reds if len(r) == 1}
    if {("min", (t1,)), ("max", (t1,)), ("min", (t2,)), ("max", (t2,))} <= per:
        rep.unknown(rule, key, f.where, "inlined plane test with one min / max per tetrahedron: thresholds not analysed here")
    else:
        rep.bad(rule, key, f.where, "no exit in front of compute_contact_polygon tests both tetrahedra against the contact plane (neither check_tetrahedra_intersect_contact_plane "
                                    "nor a min / max pair per tetrahedron): half-plane intersection then runs for tetrahedra that do not straddle the plane")


ALIASING_WRAPPERS = ("np.asarray", "np.ascontiguousarray", "np.asanyarray", "np.atleast_2d", "np.squeeze", "np.reshape")


def _may_alias(expr, pname):
    """expression may be the very array object bound to parameter pname (no copy)"""
    if isinstance(expr, ast.Name):
        return expr.id == pname
    if isinstance(expr, ast.Call):
        cn = call_name(expr) or ""
        if cn in ALIASING_WRAPPERS and expr.args:
            return _may_alias(expr.args[0], pname)
        if isinstance(expr.func, ast.Attribute) and expr.func.attr in ("view", "reshape", "squeeze", "astype") and not expr.args:
            return _may_alias(expr.func.value, pname)
        if isinstance(expr.func, ast.Attribute) and expr.func.attr == "astype":
            # astype(..., copy=False) aliases
            if any(k.arg == "copy" and const(k.value) is False for k in expr.keywords):
                return _may_alias(expr.func.value, pname)
        return False
    if isinstance(expr, ast.Subscript):
        return _may_alias(expr.value, pname)     # basic slices are views
    if isinstance(expr, ast.Attribute) and expr.attr == "T":
        return _may_alias(expr.value, pname)
    return False


def r_sharedpose(idx, rep, rule="R-SHAREDPOSE"):
    rep.rule(rule, "a method that receives another body's pose array stores a COPY: two rigid bodies never share one mutable pose "
                   "array (otherwise moving one body in place moves the other, and repeated contact queries depend on the call history)",
             floor=1)
    ci = idx.cls(HY + "_rigid_body::RigidBody")
    # call sites  X.m(Y.attr)  with X, Y different objects, m a RigidBody method
    n = 0
    for f in idx.all_functions():
        if f.module.is_test or "hydroelastic" not in f.module.name:
            continue
        for c in calls(f.node):
            if not isinstance(c.func, ast.Attribute) or c.func.attr not in ci.methods:
                continue
            recv = u(c.func.value)
            m = ci.methods[c.func.attr]
            ps = [p for p in m.params() if p != "self"]
            for i, a in enumerate(c.args):
                if isinstance(a, ast.Attribute) and isinstance(a.value, ast.Name) and u(a.value) != recv and u(a.value) != "self" and i < len(ps) \
                        and re.match(r"^[a-z_]+2[a-z_]+$", a.attr):
                    pname = ps[i]
                    n += 1
                    key = "%s|%s(<other>.%s) stores a copy" % (f.key, m.qualname, a.attr)
                    stores = [st for st in iter_stmts(m.node.body) if isinstance(st, ast.Assign) and any(isinstance(t, ast.Attribute) and u(t.value) == "self" for t in st.targets)
                              and _may_alias(st.value, pname)]
                    rep.check(not stores, rule, key, "%s:%d" % (f.module.relpath, c.lineno),
                              "%s is given %s and %s stores it without copying (`%s`): both bodies now share one pose array, so an in-place pose update of one "
                              "body silently moves the other" % (u(c.func), u(a), m.qualname, u(stores[0]) if stores else ""), "copied")
    if n == 0:
        rep.error("R-SHAREDPOSE: no call site passing another body's attribute found")


# ---------------------------------------------------------------------------------------------------------------------------------
# R-HPCOVER: the half-plane intersection enumerates EVERY pair of half-planes as a candidate vertex and tests every candidate against EVERY other half-plane.
# Decided by enumerating the index space of the loop nest (core/indexspace.py) for n = 3 .. 6 half-planes.
def r_hpcover(idx, rep, rule="R-HPCOVER"):
    import itertools
    from ..core.indexspace import enumerate_function, NotEnumerable
    rep.rule(rule, "intersect_halfplanes: every pair of half-planes is intersected and every candidate vertex is tested against every OTHER half-plane — index space of "
                   "the loop nest enumerated for n = 3 .. 6 (integer expressions only; calls on the rows are recorded with their indices)", floor=2)
    f = idx.func(HY + "_halfplanes::intersect_halfplanes")
    arr = f.params()[0]
    key1 = f.key + "|all pairs are candidates"
    key2 = f.key + "|each candidate is tested against all other half-planes"
    bad1 = bad2 = None
    try:
        for n in (3, 4, 5, 6):
            events = enumerate_function(idx, f, {arr: n})
            calls_ = [(name, rows) for kind, name, rows in events if kind == "call"]
            if any(r is None for _, rows in calls_ for _, r in rows):
                raise NotEnumerable("a row index is not an integer expression of the loop variables")
            want = {frozenset(c) for c in itertools.combinations(range(n), 2)}
            pairs, tested, cur = set(), {}, None
            for name, rows in calls_:
                if len(rows) == 2:
                    cur = frozenset(r for _, r in rows)
                    pairs.add(cur)
                elif len(rows) == 1 and cur is not None:
                    tested.setdefault(cur, set()).add(rows[0][1])
            if bad1 is None and pairs != want:
                miss = sorted(sorted(x) for x in want - pairs)
                extra = sorted(sorted(x) for x in pairs - want)
                bad1 = "for %d half-planes the pairs %s are never intersected%s" % (n, miss[:4], ("; degenerate pairs %s are" % extra[:3]) if extra else "")
            for P in sorted(pairs & want, key=sorted):
                need = set(range(n)) - set(P)
                if bad2 is None and not need <= tested.get(P, set()):
                    bad2 = "for %d half-planes the candidate of the pair %s is never tested against half-plane(s) %s: a vertex outside that half-plane is kept, " \
                           "the contact polygon is not clipped by it" % (n, sorted(P), sorted(need - tested.get(P, set())))
    except NotEnumerable as ex:
        rep.unknown(rule, key1, f.where, "index space not enumerable: %s" % ex)
        rep.unknown(rule, key2, f.where, "index space not enumerable: %s" % ex)
        return
    rep.check(bad1 is None, rule, key1, f.where, bad1 or "", "all C(n, 2) pairs for n = 3 .. 6")
    rep.check(bad2 is None, rule, key2, f.where, bad2 or "", "every k outside the pair for n = 3 .. 6")


# ---------------------------------------------------------------------------------------------------------------------------------
# R-ALLFACES: the contact polygon of a tetrahedron pair is the contact plane clipped by ALL EIGHT faces (four half-spaces per tetrahedron).  Which face of a
# tetrahedron is redundant depends on the mesh (for sphere / cube meshes the last row happens to be the outer zero-pressure face, for cylinder / capsule meshes
# it is not), so no row may be dropped on the way from (X1, X2) to the half-plane loop.
def _rows_of(e, params4):
    """number of rows of a stacked half-space expression, or None"""
    if isinstance(e, ast.Name):
        return 4 if e.id in params4 else None
    if isinstance(e, ast.Subscript):
        base = _rows_of(e.value, params4)
        sl = e.slice.elts[0] if isinstance(e.slice, ast.Tuple) else e.slice
        if base is None or not isinstance(sl, ast.Slice) or sl.step is not None:
            return None
        lo = const(sl.lower) if sl.lower is not None else 0
        hi = const(sl.upper) if sl.upper is not None else base
        if not isinstance(lo, int) or not isinstance(hi, int):
            return None
        lo = lo + base if lo < 0 else lo
        hi = hi + base if hi < 0 else hi
        return max(0, min(hi, base) - lo)
    if isinstance(e, ast.Call) and (call_name(e) or "").split(".")[-1] in ("vstack", "concatenate", "row_stack") and e.args and isinstance(e.args[0], (ast.Tuple, ast.List)):
        parts = [_rows_of(x, params4) for x in e.args[0].elts]
        return None if None in parts else sum(parts)
    if isinstance(e, ast.Call) and (call_name(e) or "").split(".")[-1] in ("ascontiguousarray", "asarray", "array", "copy") and e.args:
        return _rows_of(e.args[0], params4)
    return None


def r_allfaces(idx, rep, rule="R-ALLFACES"):
    rep.rule(rule, "compute_contact_polygon hands all 4 + 4 half-spaces of the two tetrahedra to make_halfplanes, and make_halfplanes visits every row it is given", floor=2)
    f = idx.func(HY + "_tetrahedron_intersection::compute_contact_polygon")
    g = idx.func(HY + "_tetrahedron_intersection::make_halfplanes")
    x1, x2 = f.params()[:2]
    cs = [c for c in calls(f.node) if (call_name(c) or "").split(".")[-1] == "make_halfplanes"]
    key = f.key + "|all eight half-spaces reach make_halfplanes"
    if len(cs) != 1 or not cs[0].args:
        rep.unknown(rule, key, f.where, "the call of make_halfplanes was not found")
    else:
        arg = cs[0].args[0]
        arg = resolved(f.node, arg) if isinstance(arg, ast.Name) else arg
        n = _rows_of(arg, {x1, x2})
        names = {n_.id for n_ in ast.walk(arg) if isinstance(n_, ast.Name)}
        if n is None:
            rep.unknown(rule, key, "%s:%d" % (f.module.relpath, cs[0].lineno), "the number of rows of `%s` is not derivable" % u(arg)[:60])
        else:
            rep.check(n == 8 and {x1, x2} <= names, rule, key, "%s:%d" % (f.module.relpath, cs[0].lineno),
                      "`%s` has %d rows: the polygon must be clipped by the four faces of BOTH tetrahedra (8 half-spaces); a dropped face is redundant only for meshes whose "
                      "tetrahedra are ordered (surface, surface, surface, centre) — for cylinder / capsule meshes the polygon spills into the neighbouring tetrahedron and "
                      "the force on one body is counted twice" % (u(arg)[:60], n), "4 + 4 rows")
    # make_halfplanes visits every row
    from ..core.indexspace import Enumerator, NotEnumerable
    X = g.params()[0]
    key2 = g.key + "|every half-space row is visited"
    bad = None
    try:
        for n in (8, 5):
            # rows touched: any subscript A[i] with i a loop variable, A the parameter or an array derived from it (same leading length)
            loops = [st for st in iter_stmts(g.node.body) if isinstance(st, ast.For) and isinstance(st.iter, ast.Call) and call_name(st.iter) == "range"]
            if not loops:
                raise NotEnumerable("no range loop")
            en = Enumerator({X: n})
            env = {}
            for st in g.node.body:
                if isinstance(st, ast.Assign) and isinstance(st.targets[0], ast.Name):
                    try:
                        env[st.targets[0].id] = en.ieval(st.value, env, {X: X})
                    except NotEnumerable:
                        pass
            args = [en.ieval(a, env, {X: X}) for a in loops[0].iter.args]
            visited = set(range(*args))
            if visited != set(range(n)) and not (n != 8 and const(loops[0].iter.args[-1]) == 8):
                bad = "with %d rows the loop `%s` visits %s" % (n, u(loops[0].iter), sorted(visited))
                break
    except NotEnumerable as ex:
        rep.unknown(rule, key2, g.where, "loop bounds not derivable: %s" % ex)
        return
    rep.check(bad is None, rule, key2, g.where, "%s: a half-space that is never turned into a half-plane does not clip the polygon" % (bad or ""), "all rows")
