"""Rules for the hydroelastic contact package (C15, C16).

R-INVALIDATE   every method that reassigns a source attribute of RigidBody resets every cache derived from it.
R-REACTION     wrench12 is built from the negated total force; torques are taken about each body's own centre of mass;
               the (wrench12, wrench21) order is kept through accumulate_wrenches / contact_forces.
R-SAMEPREDICATE both broad phases take (body1, body2) in the same order, return the same triple shape and bottom out in
               the same aabb_overlap predicate.
R-FORCEDIR     the contact force is a scalar times the plane normal contact_plane_hnf[:3].
R-POLYGUARD    fewer than three polygon vertices => no intersection; the contact plane is normalised before its offset
               is interpreted; the degenerate (zero normal) case is tested before dividing.
"""
import ast

from ..core.astutil import u, call_name, calls, iter_stmts, compare_triples, const, is_neg_of, parent_map, index_elts, ncmp
from ..core.index import AnalysisError

HY = "distance3d.hydroelastic_contact."


def r_invalidate(idx, rep, rule="R-INVALIDATE"):
    rep.rule(rule, "a method that reassigns a source attribute (vertices_, tetrahedra_, potentials_ ...) resets every lazily "
                   "computed cache that transitively depends on it", floor=4)
    ci = idx.cls(HY + "_rigid_body::RigidBody")
    # caches: properties of the form  if self._x is None: self._x = f(...); return self._x
    caches = {}   # cache attr -> set of attrs / properties read to compute it
    props = {}    # property name -> cache attr it returns (or None)
    for name, m in ci.methods.items():
        if "property" not in m.decorators:
            continue
        for st in iter_stmts(m.node.body):
            if isinstance(st, ast.If) and isinstance(st.test, ast.Compare) and u(st.test).replace(" ", "") .startswith("self.") \
                    and "isNone" in u(st.test).replace(" ", ""):
                cache = u(st.test.left).replace("self.", "")
                deps = set()
                for s in iter_stmts(st.body):
                    for n in ast.walk(s):
                        if isinstance(n, ast.Attribute) and u(n.value) == "self" and isinstance(n.ctx, ast.Load) and n.attr != cache:
                            deps.add(n.attr)
                caches[cache] = deps
                props[name] = cache
    if len(caches) < 3:
        raise AnalysisError("RigidBody: fewer than 3 lazily cached properties found (%s)" % sorted(caches))
    # transitive closure over properties
    def sources(cache, seen=()):
        out = set()
        for d in caches.get(cache, ()):
            if d in props and props[d] not in seen:
                out |= sources(props[d], seen + (cache,))
                out.add(props[d])
            else:
                out.add(d)
        return out
    dep_on = {c: sources(c) for c in caches}
    for name, m in sorted(ci.methods.items()):
        if name == "__init__" or "property" in m.decorators:
            continue
        assigned = {}
        for st in iter_stmts(m.node.body):
            if isinstance(st, ast.Assign):
                for t in st.targets:
                    if isinstance(t, ast.Attribute) and u(t.value) == "self":
                        assigned[t.attr] = st
        for a, st in assigned.items():
            if a in caches:
                continue
            for c in sorted(caches):
                if a in dep_on[c]:
                    reset = c in assigned and (const(assigned[c].value) is None and u(assigned[c].value) == "None")
                    key = ci.key + ".%s|%s assigned -> cache %s" % (name, a, c)
                    rep.check(reset, rule, key, "%s:%d" % (ci.module.relpath, st.lineno),
                              "%s reassigns self.%s but does not reset the cache self.%s computed from it: later queries use stale data" % (name, a, c),
                              "reset to None")


def r_reaction(idx, rep, rule="R-REACTION"):
    rep.rule(rule, "action-reaction by construction: the force part of wrench12 is the negation of wrench21's, torque21 is taken "
                   "about body 1's centre of mass with +f, torque12 about body 2's with -f, and the (wrench12, wrench21) order is "
                   "the same in _transform_wrenches, accumulate_wrenches and contact_forces", floor=6)
    tw = idx.func(HY + "_forces::_transform_wrenches")
    acc = idx.func(HY + "_forces::accumulate_wrenches")
    cf = idx.func(HY + "_interface::contact_forces")
    loc = {}
    for st in iter_stmts(tw.node.body):
        if isinstance(st, ast.Assign) and isinstance(st.targets[0], ast.Name):
            loc[st.targets[0].id] = st.value

    def parts(name):
        v = loc.get(name)
        if isinstance(v, ast.Call) and call_name(v) in ("np.hstack", "np.concatenate") and v.args and isinstance(v.args[0], (ast.Tuple, ast.List)) \
                and len(v.args[0].elts) == 2:
            return v.args[0].elts
        return None
    p12, p21 = parts("wrench12"), parts("wrench21")
    if p12 is None or p21 is None:
        raise AnalysisError("_transform_wrenches: wrench12 / wrench21 are no longer hstack((force, torque))")
    rep.check(is_neg_of(p12[0], p21[0]), rule, tw.key + "|f12 = -f21", tw.where,
              "force parts `%s` and `%s` are not mutual negations" % (u(p12[0]), u(p21[0])))
    rep.check("12" in u(p12[1]) and "21" in u(p21[1]), rule, tw.key + "|torque pairing", tw.where,
              "wrench12 carries `%s`, wrench21 carries `%s`" % (u(p12[1]), u(p21[1])))
    # torques in accumulate_wrenches
    aloc = {}
    for st in iter_stmts(acc.node.body):
        if isinstance(st, ast.Assign) and isinstance(st.targets[0], ast.Name):
            aloc[st.targets[0].id] = st.value
    ap = acc.params()
    for tname, body, sign in (("total_torque_21", ap[1], +1), ("total_torque_12", ap[2], -1)):
        v = aloc.get(tname)
        ok = False
        why = "%s not found" % tname
        if v is not None:
            cr = calls(v, "cross")
            if cr and len(cr[0].args) == 2:
                arm, frc = cr[0].args
                arm_ok = isinstance(arm, ast.BinOp) and isinstance(arm.op, ast.Sub) and u(arm.right) == "%s.com" % body and "contact_coms" in u(arm.left)
                neg = isinstance(frc, ast.UnaryOp) and isinstance(frc.op, ast.USub)
                f_ok = ("contact_forces" in u(frc)) and (neg == (sign < 0))
                ok = arm_ok and f_ok
                why = "lever arm `%s` / force `%s`: need (contact_coms - %s.com) x (%scontact_forces)" % (u(arm), u(frc), body, "-" if sign < 0 else "")
        rep.check(ok, rule, acc.key + "|%s" % tname, acc.where, why)
    # order through the call chain
    def ret_names(f):
        rets = [s for s in iter_stmts(f.node.body) if isinstance(s, ast.Return) and isinstance(s.value, ast.Tuple)]
        return [[u(e) for e in r.value.elts] for r in rets]

    def unpack_of(f, callee):
        for st in iter_stmts(f.node.body):
            if isinstance(st, ast.Assign) and isinstance(st.value, ast.Call) and (call_name(st.value) or "").split(".")[-1] == callee \
                    and isinstance(st.targets[0], ast.Tuple):
                return [u(e) for e in st.targets[0].elts], st.value
        return None, None
    tw_ret = ret_names(tw)
    tg, call = unpack_of(acc, "_transform_wrenches")
    ok = bool(tw_ret) and tg is not None and all(("12" in a) == ("12" in b) and ("21" in a) == ("21" in b) for a, b in zip(tw_ret[0], tg))
    rep.check(ok, rule, acc.key + "|unpack order of _transform_wrenches", acc.where,
              "_transform_wrenches returns %s, accumulate_wrenches unpacks into %s" % (tw_ret, tg))
    if call is not None:
        an = [u(a) for a in call.args]
        pn = tw.params()
        ok = len(an) == len(pn) and all((("12" in a) == ("12" in p)) and (("21" in a) == ("21" in p)) for a, p in zip(an[1:], pn[1:]))
        rep.check(ok, rule, acc.key + "|argument roles of _transform_wrenches", acc.where,
                  "arguments %s do not line up with parameters %s" % (an, pn))
    acc_ret = ret_names(acc)
    tg2, _ = unpack_of(cf, "accumulate_wrenches")
    ok = bool(acc_ret) and tg2 is not None and all(("12" in a) == ("12" in b) for a, b in zip(acc_ret[0], tg2))
    rep.check(ok, rule, cf.key + "|unpack order of accumulate_wrenches", cf.where,
              "accumulate_wrenches returns %s, contact_forces unpacks into %s" % (acc_ret, tg2))
    for r in ret_names(cf):
        ok = len(r) >= 3 and "intersection" in r[0] and "12" in r[1] and "21" in r[2]
        rep.check(ok, rule, cf.key + "|return order %s" % (r[:3],), cf.where,
                  "contact_forces must return (intersection, wrench12, wrench21, ...), returns %s" % r)


def r_samepredicate(idx, rep, rule="R-SAMEPREDICATE"):
    rep.rule(rule, "tree-based and brute-force broad phase are interchangeable: same (body1, body2) argument order, same "
                   "(indices1, indices2, pairs) result shape, both decided by aabb_tree.aabb_overlap", floor=4)
    f = idx.func(HY + "_interface::find_contact_surface")
    p1, p2 = f.params()[:2]
    ifs = [st for st in iter_stmts(f.node.body) if isinstance(st, ast.If) and "use_aabb_trees" in u(st.test)]
    if len(ifs) != 1:
        raise AnalysisError("find_contact_surface: broad phase switch not found")
    st = ifs[0]

    def branch(body):
        for s in iter_stmts(body):
            if isinstance(s, ast.Assign) and isinstance(s.value, ast.Call) and isinstance(s.targets[0], ast.Tuple):
                return [u(e) for e in s.targets[0].elts], s.value
        return None, None
    t_tg, t_call = branch(st.body)
    b_tg, b_call = branch(st.orelse)
    if t_call is None or b_call is None:
        raise AnalysisError("find_contact_surface: broad phase calls not found")
    rep.check(len(t_tg) == 4 and t_tg[1:] == b_tg, rule, f.key + "|same result triple", f.where,
              "tree branch binds %s, brute-force branch binds %s" % (t_tg, b_tg))
    recv = u(t_call.func.value) if isinstance(t_call.func, ast.Attribute) else ""
    arg = u(t_call.args[0]) if t_call.args else ""
    rep.check(recv.startswith(p1 + ".") and arg.startswith(p2 + ".") and recv.split(".")[1:] == arg.split(".")[1:], rule, f.key + "|tree argument order", f.where,
              "tree query is %s.overlaps_aabb_tree(%s): need body 1's tree against body 2's" % (recv, arg))
    ba = [u(a) for a in b_call.args]
    rep.check(len(ba) == 2 and ba[0].startswith(p1 + ".") and ba[1].startswith(p2 + ".") and ba[0].split(".")[1:] == ba[1].split(".")[1:], rule,
              f.key + "|brute-force argument order", f.where, "brute-force call gets %s" % ba)
    # both reach aabb_overlap
    AT = "distance3d.aabb_tree"
    reach = {}
    for start in ("query_overlap_of_other_tree", "all_aabbs_overlap"):
        seen, todo = set(), [idx.func(AT + "::" + start)]
        while todo:
            g = todo.pop()
            if g.key in seen:
                continue
            seen.add(g.key)
            for c in calls(g.node):
                r = idx.resolve_call(g.module, c)
                if r is not None and hasattr(r, "node") and hasattr(r, "qualname"):
                    todo.append(r)
        reach[start] = (AT + "::aabb_overlap") in seen
    rep.check(all(reach.values()), rule, f.key + "|same predicate", f.where, "aabb_overlap reachable: %s" % reach)
    rep.check((call_name(b_call) or "").split(".")[-1] == "all_aabbs_overlap" and (call_name(t_call) or "").split(".")[-1] == "overlaps_aabb_tree",
              rule, f.key + "|callees", f.where, "unexpected broad phase callees %s / %s" % (call_name(t_call), call_name(b_call)))
    # body 1 is re-expressed in body 2's frame before either broad phase
    ex = [s for s in f.node.body if isinstance(s, ast.Expr) and isinstance(s.value, ast.Call) and u(s.value.func) == p1 + ".express_in"]
    ok = bool(ex) and ex[0].lineno < st.lineno and u(ex[0].value.args[0]).startswith(p2 + ".")
    rep.check(ok, rule, f.key + "|express_in before broad phase", f.where,
              "body 1 must be expressed in body 2's frame before the boxes of both bodies are compared")


def r_forcedir(idx, rep, rule="R-FORCEDIR"):
    rep.rule(rule, "the contact force of a polygon is (scalar) * contact_plane_hnf[:3] (along the plane normal)", floor=1)
    f = idx.func(HY + "_forces::compute_contact_force")
    hnf = f.params()[2]
    rets = [s for s in iter_stmts(f.node.body) if isinstance(s, ast.Return) and isinstance(s.value, ast.Tuple)]
    if not rets:
        raise AnalysisError("compute_contact_force: tuple return vanished")
    fname = u(rets[-1].value.elts[1])
    defs = [st for st in iter_stmts(f.node.body) if isinstance(st, ast.Assign) and u(st.targets[0]) == fname]
    ok = False
    if len(defs) == 1 and isinstance(defs[0].value, ast.BinOp) and isinstance(defs[0].value.op, ast.Mult):
        l, r = defs[0].value.left, defs[0].value.right
        for s, v in ((l, r), (r, l)):
            if isinstance(v, ast.Subscript) and u(v.value) == hnf and u(v.slice) == ":3" and isinstance(s, ast.Name):
                ok = True
    rep.check(ok, rule, f.key + "|%s" % (u(defs[0]) if defs else fname), f.where,
              "force vector is `%s`, need scalar * %s[:3]" % (u(defs[0].value) if defs else "?", hnf))


def r_polyguard(idx, rep, rule="R-POLYGUARD"):
    rep.rule(rule, "fewer than 3 polygon vertices means no intersection (at all three stages); the contact plane is normalised "
                   "by the norm of its normal part before the offset is used, with the zero-normal case tested first", floor=5)
    TI = HY + "_tetrahedron_intersection"
    ccp = idx.func(TI + "::compute_contact_polygon")
    n = 0
    for st in iter_stmts(ccp.node.body):
        if isinstance(st, ast.If) and ncmp(st.test) is not None:
            op, a, b = ncmp(st.test)
            if isinstance(a, ast.Call) and call_name(a) == "len" and op == "<" and const(b) == 3:
                empty = any(isinstance(s, ast.Return) and "np.empty((0, 3)" in u(s.value) for s in st.body)
                n += 1
                rep.check(empty, rule, ccp.key + "|%s" % u(st.test), "%s:%d" % (ccp.module.relpath, st.lineno),
                          "degenerate polygon does not return the empty (0, 3) polygon")
    rep.check(n >= 2, rule, ccp.key + "|two degenerate-polygon exits", ccp.where,
              "expected the <3-vertex exit after half-plane intersection and after duplicate removal, found %d" % n)
    itp = idx.func(TI + "::intersect_tetrahedron_pair")
    ok = False
    for st in iter_stmts(itp.node.body):
        if isinstance(st, ast.If) and ncmp(st.test) is not None:
            op, a, b = ncmp(st.test)
            if isinstance(a, ast.Call) and call_name(a) == "len" and op == "<" and const(b) == 3:
                for s in st.body:
                    if isinstance(s, ast.Return) and isinstance(s.value, ast.Tuple) and const(s.value.elts[0]) is False:
                        ok = True
    rep.check(ok, rule, itp.key + "|len(contact_polygon) < 3 -> False", itp.where,
              "a polygon with fewer than 3 vertices must be reported as no intersection")
    cp = idx.func(TI + "::contact_plane")
    body = list(iter_stmts(cp.node.body))
    norm_def = [st for st in body if isinstance(st, ast.Assign) and isinstance(st.value, ast.Call) and call_name(st.value) == "np.linalg.norm"
                and ":3" in u(st.value.args[0])]
    div = [st for st in body if isinstance(st, ast.AugAssign) and isinstance(st.op, ast.Div) and norm_def and u(st.value) == u(norm_def[0].targets[0])
           and isinstance(st.target, ast.Name) and ("%s[:3]" % st.target.id) == u(norm_def[0].value.args[0])]
    zero = [st for st in body if isinstance(st, ast.If) and norm_def and u(st.test).replace(" ", "") in ("%s==0.0" % u(norm_def[0].targets[0]), "%s==0" % u(norm_def[0].targets[0]))]
    flip = [st for st in body if isinstance(st, ast.AugAssign) and isinstance(st.target, ast.Subscript) and const(st.target.slice) == 3]
    ok = bool(norm_def and div and zero) and norm_def[0].lineno < zero[0].lineno < div[0].lineno
    rep.check(ok, rule, cp.key + "|normalise after zero test", cp.where,
              "contact_plane must compute the norm of plane[:3], return the degenerate case when it is 0, then divide the plane by it")
    rep.check(bool(flip) and bool(div) and div[0].lineno < flip[0].lineno, rule, cp.key + "|offset used after normalisation", cp.where,
              "the offset component [3] is modified/used before the plane is normalised")
