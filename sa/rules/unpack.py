"""R-UNPACK: a tuple result is unpacked in the order the callee returns it.  For every `a, b, c = f(...)` whose callee returns a
tuple of plain names, the target names and the returned names are compared token-wise (com/coms, force/force_vector, area/areas,
closest_point_line/...): two positions whose targets match each other's returned names but not their own are a swap."""
import ast
import re

from ..core.astutil import u, stable_text
from ..core.index import FuncInfo

GENERIC = {"point", "closest", "new", "total", "the", "of", "in", "to", "idx", "index", "array", "vector", "value", "result", "res", "tmp", "is", "n"}

# R-ROLE's reasoned exception (same construct): the degenerate exit of _line_to_line_segment needs a non-unit direction (outside domain P)
EXCEPTIONS = {"distance3d.distance._line::_line_to_line_segment"}


def _toks(name):
    out = set()
    for t in re.split(r"[_\d]+", name.lower()):
        if not t:
            continue
        if t.endswith("s") and len(t) > 3:
            t = t[:-1]
        if t not in GENERIC:
            out.add(t)
    return out


def _tname(t):
    base = t
    while isinstance(base, (ast.Subscript, ast.Attribute)):
        if isinstance(base, ast.Attribute):
            return base.attr
        base = base.value
    return base.id if isinstance(base, ast.Name) else None


def r_unpack(idx, rep, rule="R-UNPACK", floor=3):
    rep.rule(rule, "tuple results are unpacked in the callee's return order (token-wise name agreement; a pair of positions that match "
                   "each other's returned names but not their own is a swap)", floor=floor)
    for f in idx.all_functions():
        if f.module.is_test:
            continue
        k = 0
        for st in ast.walk(f.node):
            if not (isinstance(st, ast.Assign) and isinstance(st.targets[0], ast.Tuple) and isinstance(st.value, ast.Call)):
                continue
            callee = idx.resolve_call(f.module, st.value, f.cls)
            if not isinstance(callee, FuncInfo):
                continue
            tg = [_tname(t) for t in st.targets[0].elts]
            rets = [r for r in ast.walk(callee.node) if isinstance(r, ast.Return) and isinstance(r.value, ast.Tuple) and len(r.value.elts) == len(tg)]
            if not rets:
                continue
            k += 1
            key = "%s|unpack #%d of %s()" % (f.key, k, callee.name)
            where = "%s:%d" % (f.module.relpath, st.lineno)
            swap = None
            for r in rets:
                rn = [e.id if isinstance(e, ast.Name) else None for e in r.value.elts]
                for i in range(len(tg)):
                    for j in range(i + 1, len(tg)):
                        if tg[i] and tg[j] and rn[i] and rn[j]:
                            ti, tj, ri, rj = _toks(tg[i]), _toks(tg[j]), _toks(rn[i]), _toks(rn[j])
                            if not (ti & ri) and not (tj & rj) and (ti & rj) and (tj & ri):
                                swap = (tg[i], tg[j], rn[i], rn[j], callee)
            if swap and callee.key in EXCEPTIONS:
                rep.note("R-UNPACK exception: %s returns (%s, %s) on a path that needs a non-unit direction (outside domain P)" % (callee.key, swap[2], swap[3]))
                swap = None
            rep.check(swap is None, rule, key, where,
                      "`%s`: %s receives the value the callee returns as `%s` and %s the one returned as `%s` — the two results are unpacked in the "
                      "wrong order" % (u(st)[:90], swap[0] if swap else "", swap[2] if swap else "", swap[1] if swap else "", swap[3] if swap else ""), "order agrees")
