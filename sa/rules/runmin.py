"""R-RUNMIN: running-minimum chains.  `if cand < best:` guards that share one `best` variable form a chain (straight-line sequence
of candidates, or one guard inside a loop); every guard that is followed by another read of `best` (a later guard, or the next
loop iteration) must store `best = cand` in its body — otherwise later candidates are compared against a stale (too large) value
and a farther candidate overwrites a nearer one."""
import ast

from ..core.astutil import u, ncmp, parent_map, stable_text
from ..core.peval import peval


def _guards(f):
    out = []
    for n in ast.walk(f.node):
        if isinstance(n, ast.If):
            t = ncmp(n.test)
            if t is not None and t[0] in ("<", "<=") and isinstance(t[2], ast.Name) and not isinstance(t[1], ast.Constant):
                out.append((n, t[1], t[2].id))
    out.sort(key=lambda g: (g[0].lineno, g[0].col_offset))
    return out


def r_runmin(idx, rep, modules, rule="R-RUNMIN", floor=2):
    rep.rule(rule, "running-minimum chains: every `if cand < best:` block that is followed by another comparison against the same `best` "
                   "(a later candidate, or the next loop iteration) stores `best = cand`; the last block of a straight-line chain may omit it",
             floor=floor)
    for mname in modules:
        m = idx.modules.get(mname)
        if m is None:
            continue
        for f in m.functions.values():
            f = peval(idx, f)
            gs = _guards(f)
            if not gs:
                continue
            pm = None
            byvar = {}
            for g in gs:
                byvar.setdefault(g[2], []).append(g)
            for best, chain in byvar.items():
                if best in f.params():
                    continue
                pm = pm or parent_map(f.node)

                def in_loop(node):
                    p = pm.get(node)
                    while p is not None and p is not f.node:
                        if isinstance(p, (ast.For, ast.While)):
                            return True
                        p = pm.get(p)
                    return False
                # `best` must be a running value: assigned from a candidate in at least one guard body of the chain
                stores = []
                for g, cand, _ in chain:
                    # plain `best = cand` or an element of a tuple assignment `(best, p, q) = (cand, a, b)`
                    st = [s for s in ast.walk(g) if isinstance(s, ast.Assign) and s in g.body and
                          any((isinstance(t, ast.Name) and t.id == best) or (isinstance(t, ast.Tuple) and any(isinstance(e, ast.Name) and e.id == best for e in t.elts)) for t in s.targets)]
                    stores.append(st)
                if len(chain) < 2 and not in_loop(chain[0][0]):
                    continue
                # a running minimum is a LOCAL that is CARRIED from one comparison to the next: assigned before the chain, and between two
                # comparisons (or inside the loop that repeats the comparison) only inside the guard bodies; values recomputed before every
                # comparison (costs, norms, loop counters) and fixed thresholds are not chains.  Guards must adopt something (rebind locals).
                guard_nodes = [g for g, _, _ in chain]

                def assigned_outside_guards(region_nodes):
                    for s_ in region_nodes:
                        for n_ in ast.walk(s_):
                            tg = []
                            if isinstance(n_, ast.Assign):
                                tg = n_.targets
                            elif isinstance(n_, ast.AugAssign):
                                tg = [n_.target]
                            for t_ in tg:
                                for e_ in (t_.elts if isinstance(t_, ast.Tuple) else [t_]):
                                    if isinstance(e_, ast.Name) and e_.id == best:
                                        # inside a guard body of the chain?
                                        q = pm.get(n_)
                                        inside = False
                                        while q is not None:
                                            if q in guard_nodes:
                                                inside = True
                                                break
                                            q = pm.get(q)
                                        if not inside:
                                            return True
                    return False

                def enclosing_loop(node):
                    p = pm.get(node)
                    while p is not None and p is not f.node:
                        if isinstance(p, (ast.For, ast.While)):
                            return p
                        p = pm.get(p)
                    return None
                # guards of one chain are alternatives that follow each other; a guard nested inside another guard of the same variable is a
                # refinement of a case analysis (d00 <= d22 ... if d22 > d11), not the next candidate
                nested = False
                for g1 in guard_nodes:
                    for g2 in guard_nodes:
                        if g1 is not g2 and any(n_ is g2 for n_ in ast.walk(g1)):
                            nested = True
                if nested:
                    continue
                local_defs = [s_ for s_ in ast.walk(f.node) if isinstance(s_, ast.Assign) and any(isinstance(t, ast.Name) and t.id == best for t in s_.targets)]
                adopts = [any(isinstance(s_, ast.Assign) for s_ in g.body) for g in guard_nodes]
                if not local_defs or not all(adopts):
                    continue
                carried = True
                for g in guard_nodes:
                    lp = enclosing_loop(g)
                    if lp is not None and assigned_outside_guards(lp.body):
                        carried = False
                if len(chain) >= 2 and carried:
                    lo, hi = guard_nodes[0].lineno, guard_nodes[-1].lineno
                    between = [s_ for s_ in ast.walk(f.node) if isinstance(s_, (ast.Assign, ast.AugAssign)) and lo < s_.lineno < hi]
                    if assigned_outside_guards(between) and not any(enclosing_loop(g) is not None for g in guard_nodes):
                        carried = False
                if not carried:
                    continue
                for k, (g, cand, _) in enumerate(chain):
                    later = k + 1 < len(chain) or in_loop(g)
                    if not later:
                        continue
                    key = "%s|guard #%d on the running minimum" % (f.key, k)
                    where = "%s:%d" % (m.relpath, g.lineno)
                    def stored_value(s_):
                        # value assigned to `best` by the statement (element-wise for tuple assignments)
                        for t_ in s_.targets:
                            if isinstance(t_, ast.Name) and t_.id == best:
                                return u(s_.value)
                            if isinstance(t_, ast.Tuple) and isinstance(s_.value, ast.Tuple) and len(t_.elts) == len(s_.value.elts):
                                for e_, v_ in zip(t_.elts, s_.value.elts):
                                    if isinstance(e_, ast.Name) and e_.id == best:
                                        return u(v_)
                        return None
                    ok = any(stored_value(s) == u(cand) for s in stores[k])
                    rep.check(ok, rule, key, where,
                              "the block under `%s` adopts the candidate but does not store `%s = %s`, although `%s` is compared again afterwards: later "
                              "candidates are tested against a stale minimum, so a FARTHER candidate can overwrite this nearer one (wrong closest "
                              "feature; GJK then stalls and reports 'no intersection' for overlapping shapes)" % (u(g.test), best, u(cand), best),
                              "stores the new minimum")
