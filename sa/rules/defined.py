"""R-DEFINED: definite assignment (a must-analysis over the statement tree).

A local that is read on some path on which no assignment reaches it raises UnboundLocalError in the interpreter, while numba compiles the read of a
zero-initialised (or stale) stack slot: the two execution modes then differ in the raised exception type and in the value (property C20); for the
interpreted library it is a crash on that path (C19).  Loops are treated as executing their body at least once for the purpose of what they assign
(the usual `for i in range(n): best = ...` followed by a use of `best` is the repository's idiom and is not reported); the imbalance this rule reports is
between the ARMS OF CONDITIONALS: a name assigned in some arms only and read afterwards."""
import ast
import builtins

from ..core.astutil import u


def _targets(t, out):
    if isinstance(t, ast.Name):
        out.add(t.id)
    elif isinstance(t, (ast.Tuple, ast.List)):
        for e in t.elts:
            _targets(e, out)
    elif isinstance(t, ast.Starred):
        _targets(t.value, out)


class _DA:
    def __init__(self, fn, module_names):
        self.fn = fn
        self.known = set(module_names) | set(dir(builtins))
        self.reports = {}          # name -> first offending node
        self.loop_depth = 0

    SENTINELS = ("MAX_FLOAT", "np.inf", "numpy.inf", "math.inf", "np.finfo(float).max", "float('inf')", 'float("inf")', "sys.float_info.max", "_FLOAT_MAX", "np.finfo(np.float64).max")

    def _beats_sentinel(self, st):
        t = st.test
        if not (isinstance(t, ast.Compare) and len(t.ops) == 1):
            return False
        op, a, b = t.ops[0], t.left, t.comparators[0]
        if isinstance(op, (ast.Gt, ast.GtE)):
            a, b = b, a
        elif not isinstance(op, (ast.Lt, ast.LtE)):
            return False
        if not isinstance(b, ast.Name):
            return False
        best = b.id
        # the incumbent is initialised to a +infinity sentinel somewhere in the function and re-assigned inside this arm
        inits = [n.value for n in ast.walk(self.fn) if isinstance(n, ast.Assign) and any(isinstance(x, ast.Name) and x.id == best for x in n.targets)]
        sentinel = any(u(v) in self.SENTINELS or (isinstance(v, ast.Name) and ("MAX" in v.id.upper() or "INF" in v.id.upper())) for v in inits)
        stored_here = any(isinstance(n, ast.Name) and n.id == best and isinstance(n.ctx, ast.Store) for x in st.body for n in ast.walk(x))
        return sentinel and stored_here

    def reads(self, e, assigned):
        if e is None:
            return
        for n in ast.walk(e):
            if isinstance(n, (ast.Lambda, ast.ListComp, ast.SetComp, ast.DictComp, ast.GeneratorExp)):
                # names bound inside are their own scope: skip the whole construct conservatively
                return
        for n in ast.walk(e):
            if isinstance(n, ast.Name) and isinstance(n.ctx, ast.Load) and n.id in self.locals and n.id not in assigned and n.id not in self.reports:
                self.reports[n.id] = n

    def block(self, stmts, assigned):
        """returns (assigned after, always exits?)"""
        for st in stmts:
            assigned, ex = self.stmt(st, assigned)
            if ex:
                return assigned, True
        return assigned, False

    def stmt(self, st, A):
        if isinstance(st, ast.Assign):
            self.reads(st.value, A)
            for t in st.targets:
                if not isinstance(t, (ast.Name, ast.Tuple, ast.List)):
                    self.reads(t, A)
            new = set(A)
            for t in st.targets:
                _targets(t, new)
            return new, False
        if isinstance(st, ast.AugAssign):
            self.reads(st.value, A)
            self.reads(ast.Name(id=st.target.id, ctx=ast.Load(), lineno=st.lineno, col_offset=0) if isinstance(st.target, ast.Name) else st.target, A)
            return A, False
        if isinstance(st, ast.AnnAssign):
            self.reads(st.value, A)
            new = set(A)
            if st.value is not None:
                _targets(st.target, new)
            return new, False
        if isinstance(st, (ast.Return,)):
            self.reads(st.value, A)
            return A, True
        if isinstance(st, ast.Raise):
            self.reads(st.exc, A)
            return A, True
        if isinstance(st, (ast.Break, ast.Continue)):
            return A, True
        if isinstance(st, ast.Expr):
            self.reads(st.value, A)
            return A, False
        if isinstance(st, ast.Assert):
            self.reads(st.test, A)
            # `assert False` ends the path
            if isinstance(st.test, ast.Constant) and st.test.value is False:
                return A, True
            return A, False
        if isinstance(st, ast.If):
            self.reads(st.test, A)
            a1, e1 = self.block(st.body, set(A))
            a2, e2 = self.block(st.orelse, set(A))
            # running minimum against a +infinity sentinel: `best = MAX_FLOAT` ... `if cand < best: best = cand; keep = ...` — the first candidate always
            # wins (every finite value is below the sentinel), so what that arm assigns is assigned once the enclosing loop has run
            if not st.orelse and self.loop_depth > 0 and self._beats_sentinel(st):
                return a1, False
            if e1 and e2:
                return a1 & a2, True
            if e1:
                return a2, False
            if e2:
                return a1, False
            return a1 & a2, False
        if isinstance(st, ast.For):
            self.reads(st.iter, A)
            new = set(A)
            _targets(st.target, new)
            self.loop_depth += 1
            a1, _ = self.block(st.body, new)
            self.loop_depth -= 1
            a2, _ = self.block(st.orelse, set(a1))
            return a1 | a2, False                # optimistic: the body ran (see module docstring)
        if isinstance(st, ast.While):
            self.reads(st.test, A)
            self.loop_depth += 1
            a1, _ = self.block(st.body, set(A))
            self.loop_depth -= 1
            a2, _ = self.block(st.orelse, set(a1))
            return a1 | a2, False
        if isinstance(st, ast.With):
            new = set(A)
            for it in st.items:
                self.reads(it.context_expr, A)
                if it.optional_vars is not None:
                    _targets(it.optional_vars, new)
            return self.block(st.body, new)
        if isinstance(st, ast.Try):
            a1, e1 = self.block(st.body, set(A))
            outs = [a1] if not e1 else []
            for h in st.handlers:
                hA = set(A)
                if h.name:
                    hA.add(h.name)
                ah, eh = self.block(h.body, hA)
                if not eh:
                    outs.append(ah)
            res = set.intersection(*outs) if outs else set(A)
            af, ef = self.block(st.finalbody, res)
            return af, (not outs) or ef
        if isinstance(st, (ast.FunctionDef, ast.ClassDef)):
            return A | {st.name}, False
        if isinstance(st, (ast.Import, ast.ImportFrom)):
            return A | {(a.asname or a.name).split(".")[0] for a in st.names}, False
        if isinstance(st, (ast.Global, ast.Nonlocal)):
            return A | set(st.names), False
        if isinstance(st, ast.Delete):
            return A, False
        return A, False

    def run(self):
        fn = self.fn
        params = {a.arg for a in fn.args.args + fn.args.kwonlyargs + fn.args.posonlyargs}
        if fn.args.vararg:
            params.add(fn.args.vararg.arg)
        if fn.args.kwarg:
            params.add(fn.args.kwarg.arg)
        stores = set()
        for n in ast.walk(fn):
            if isinstance(n, ast.Name) and isinstance(n.ctx, ast.Store):
                stores.add(n.id)
            if isinstance(n, (ast.FunctionDef, ast.Lambda)) and n is not fn:
                pass
        glob = {x for n in ast.walk(fn) if isinstance(n, (ast.Global, ast.Nonlocal)) for x in n.names}
        self.locals = stores - glob
        self.block(fn.body, set(params))
        return self.reports


def r_defined(idx, rep, modules, rule="R-DEFINED", floor=20, njit_only=False):
    rep.rule(rule, "definite assignment: no local is read on a path on which only SOME arms of an earlier conditional assigned it (UnboundLocalError interpreted, a "
                   "zero / stale stack slot compiled) — must-analysis over the statement tree, loops taken as entered", floor=floor)
    for mname in modules:
        m = idx.modules.get(mname)
        if m is None:
            continue
        for f in m.functions.values():
            if "<locals>" in f.qualname or (njit_only and not getattr(f, "njit", False)):
                continue
            nested = any(isinstance(n, (ast.FunctionDef, ast.Lambda)) and n is not f.node for n in ast.walk(f.node))
            if nested:
                continue
            reports = _DA(f.node, set(m.const_nodes) | set(m.imports) | set(m.functions) | set(m.classes)).run()
            key = "%s|every read is definitely assigned" % f.key
            if reports:
                name, node = sorted(reports.items(), key=lambda kv: kv[1].lineno)[0]
                rep.bad(rule, key, "%s:%d" % (m.relpath, node.lineno),
                        "`%s` is read at line %d although not every arm of the conditionals before it assigns it: on that path the interpreter raises UnboundLocalError "
                        "while compiled code reads a zero-initialised slot (different exception behaviour AND a silently wrong value)%s"
                        % (name, node.lineno, "; also: " + ", ".join(sorted(set(reports) - {name})) if len(reports) > 1 else ""))
            else:
                rep.ok(rule, key, f.where, "definitely assigned")
