"""Buffer discipline rules (generic over the package):

R-COMPACT    compaction idiom: a buffer filled under a condition and returned / used through a counter is written AT the
             counter, in the block that increments the counter.
R-GUARDSTORE contradiction rule: when a function checks a counter against a capacity, the check dominates every store
             indexed by that counter (assert-after-store is an out-of-bounds write compiled, IndexError interpreted).
R-FROZEN     module-level arrays read inside njit functions are never mutated (numba freezes globals at compile time).
"""
import ast

from ..core.astutil import u, iter_stmts, parent_map, index_elts, call_name, compare_triples, const, walk_ordered


def _counters(fnode):
    """names / attribute texts that are initialised and then incremented by a constant 1 in the function."""
    incs = {}
    for st in iter_stmts(fnode.body):
        if isinstance(st, ast.AugAssign) and isinstance(st.op, ast.Add) and const(st.value) == 1:
            incs.setdefault(u(st.target), []).append(st)
    return incs


def _first_index(sub):
    return u(index_elts(sub)[0])


def r_compact(idx, rep, rule="R-COMPACT", modules=None, floor=3):
    rep.rule(rule, "compaction idiom: rows kept under a condition are written at the running counter (not at the loop "
                   "index) inside the block that increments the counter, so that buf[:counter] holds exactly the kept rows",
             floor=floor)
    for f in idx.all_functions():
        if modules is not None and f.module.name not in modules:
            continue
        incs = _counters(f.node)
        if not incs:
            continue
        pm = parent_map(f.node)
        # buffers returned (or sliced) through a counter: B[:n]
        sliced = {}   # buffer -> counter
        for n in ast.walk(f.node):
            if isinstance(n, ast.Subscript) and isinstance(n.slice, ast.Slice) and n.slice.lower is None and n.slice.upper is not None \
                    and n.slice.step is None and u(n.slice.upper) in incs and isinstance(n.ctx, ast.Load):
                # only when it reaches a return
                par = pm.get(n)
                while par is not None and not isinstance(par, ast.stmt):
                    par = pm.get(par)
                if isinstance(par, ast.Return):
                    sliced[u(n.value)] = u(n.slice.upper)
        # counters returned as the new length (update_simplex_* idiom): return n  with stores B[n] = B[i] next to n += 1
        returned_counters = set()
        for st in iter_stmts(f.node.body):
            if isinstance(st, ast.Return) and st.value is not None and u(st.value) in incs:
                returned_counters.add(u(st.value))
        # loop variables
        for counter, inc_sts in incs.items():
            bufs = {b for b, c in sliced.items() if c == counter}
            if not bufs and counter not in returned_counters:
                continue
            # must be initialised to 0 in the function
            init = [st for st in iter_stmts(f.node.body) if isinstance(st, ast.Assign) and u(st.targets[0]) == counter and const(st.value) == 0]
            if not init:
                continue
            for inc in inc_sts:
                block = _block_of(pm, inc)
                if block is None:
                    continue
                # only increments under a condition inside a loop are compaction steps
                in_loop = _enclosing(pm, inc, (ast.For, ast.While)) is not None
                in_if = _enclosing(pm, inc, (ast.If,)) is not None
                if not (in_loop and in_if):
                    continue
                stores = [st for st in block if st.lineno <= inc.lineno and isinstance(st, ast.Assign)
                          and isinstance(st.targets[0], ast.Subscript)]
                for st in stores:
                    tgt = st.targets[0]
                    b = u(tgt.value)
                    if bufs and b not in bufs and counter not in returned_counters:
                        continue
                    key = "%s|%s[%s] before %s += 1" % (f.key, b, u(tgt.slice), counter)
                    rep.check(_first_index(tgt) == counter, rule, key, "%s:%d" % (f.module.relpath, st.lineno),
                              "row is written at index `%s` but the kept rows are read back through the counter `%s` "
                              "(%s[:%s]): kept rows are left at stale positions and unwritten rows are returned"
                              % (_first_index(tgt), counter, b, counter), "written at the counter")
            # SOURCE arrays are read at the loop index: inside a compaction loop (`for i ...: if keep(i): out[n] = f(src[i]); n += 1`) an array that is
            # read at the loop index somewhere in the loop is parallel to the INPUT; reading it at the output counter pairs row i with the data of an
            # earlier row as soon as one row has been skipped (identical results until the first skip)
            for inc in inc_sts:
                loop = _enclosing(pm, inc, (ast.For,))
                if loop is None or not isinstance(loop.target, ast.Name) or _enclosing(pm, inc, (ast.If,)) is None:
                    continue
                lv = loop.target.id
                by_loopvar, by_counter = {}, {}
                for n in ast.walk(loop):
                    if isinstance(n, ast.Subscript) and isinstance(n.ctx, ast.Load) and isinstance(n.value, (ast.Name, ast.Attribute)):
                        first = index_elts(n)[0] if index_elts(n) else None
                        if isinstance(first, ast.Name) and first.id == lv:
                            by_loopvar.setdefault(u(n.value), n)
                        elif first is not None and u(first) == counter:
                            by_counter.setdefault(u(n.value), n)
                stored_at_counter = {u(n_.value) for n_ in ast.walk(f.node) if isinstance(n_, ast.Subscript) and isinstance(n_.ctx, ast.Store)
                                     and index_elts(n_) and u(index_elts(n_)[0]) == counter}
                for arr, n in sorted(by_counter.items()):
                    if arr not in stored_at_counter and arr not in bufs:
                        rep.bad(rule, "%s|%s read at the counter %s" % (f.key, arr, counter), "%s:%d" % (f.module.relpath, n.lineno),
                                "`%s` is read at the output counter `%s` although nothing is ever written to it at that counter: it is an INPUT-side array (one entry per "
                                "row of the loop over `%s`); after the first skipped row the kept row is combined with the data of an earlier input row" % (arr, counter, lv))
                    elif arr in by_loopvar and arr not in bufs:
                        rep.bad(rule, "%s|%s read at the counter %s" % (f.key, arr, counter), "%s:%d" % (f.module.relpath, n.lineno),
                                "`%s` is read at the loop index `%s` (it is parallel to the input) and also at the output counter `%s`: after the first skipped row the "
                                "kept row is combined with the data of an EARLIER input row" % (arr, lv, counter))
                    elif arr in by_loopvar:
                        pass
                for arr in sorted(by_loopvar):
                    if arr not in by_counter:
                        rep.ok(rule, "%s|%s read at the loop index" % (f.key, arr), "%s:%d" % (f.module.relpath, by_loopvar[arr].lineno), "source array read at the loop index only")
            # stores to a sliced buffer anywhere else must also be indexed by the counter
            for b in bufs:
                for st in iter_stmts(f.node.body):
                    if isinstance(st, ast.Assign) and isinstance(st.targets[0], ast.Subscript) and u(st.targets[0].value) == b:
                        blk = _block_of(pm, st)
                        with_inc = any(s in (blk or []) for s in inc_sts)
                        # a peeled first iteration: `B[0] = x` followed, in the same block, by `counter = 1` (the counter was 0 until then)
                        k_ = const(_first_index_node(st.targets[0]))
                        peeled = k_ == 0 and any(isinstance(s2, ast.Assign) and u(s2.targets[0]) == counter and const(s2.value) == 1 and s2.lineno >= st.lineno
                                                 for s2 in (blk or [])) and not any(i_.lineno < st.lineno for i_ in inc_sts)
                        if not with_inc and not peeled:
                            key = "%s|%s[%s] outside the increment block" % (f.key, b, u(st.targets[0].slice))
                            rep.check(_first_index(st.targets[0]) == counter, rule, key, "%s:%d" % (f.module.relpath, st.lineno),
                                      "buffer %s is returned as %s[:%s] but written at `%s` away from the increment" % (b, b, counter, _first_index(st.targets[0])))


def _first_index_node(tgt):
    sl = tgt.slice
    return sl.elts[0] if isinstance(sl, ast.Tuple) and sl.elts else sl


def _block_of(pm, st):
    par = pm.get(st)
    if par is None:
        return None
    for fld in ("body", "orelse", "finalbody"):
        blk = getattr(par, fld, None)
        if isinstance(blk, list) and st in blk:
            return blk
    return None


def _enclosing(pm, node, types):
    n = pm.get(node)
    while n is not None and not isinstance(n, (ast.FunctionDef, ast.AsyncFunctionDef)):
        if isinstance(n, types):
            return n
        n = pm.get(n)
    return None


def _capacity_checks(fnode, counters):
    """[(stmt, counter)] for `assert c < cap` / `if c >= cap: exit`."""
    out = []
    for st in iter_stmts(fnode.body):
        test = None
        if isinstance(st, ast.Assert):
            test = st.test
        elif isinstance(st, ast.If) and st.body and isinstance(st.body[0], (ast.Return, ast.Break, ast.Continue, ast.Raise)):
            test = st.test
        if test is None or not isinstance(test, ast.Compare):
            continue
        trip = compare_triples(test)
        if len(trip) != 1:
            continue   # chained comparisons (1 <= n <= 4) state an invariant, not "n is a valid next index"
        for op, a, b in trip:
            # valid-next-index form only:  assert counter < cap   /   if counter >= cap: exit
            want = "<" if isinstance(st, ast.Assert) else ">="
            flip = {"<": ">", ">": "<", "<=": ">=", ">=": "<="}
            for x, y, o in ((a, b, op), (b, a, flip.get(op))):
                if o == want and u(x) in counters and u(x) not in u(y):
                    out.append((st, u(x), u(y)))
    return out


def r_guardstore(idx, rep, rule="R-GUARDSTORE", modules=None, floor=2):
    rep.rule(rule, "a capacity check on a counter dominates every buffer store indexed by that counter in the same function "
                   "(a check placed after the store lets the compiled code write out of bounds before it fires)", floor=floor)
    for f in idx.all_functions():
        if modules is not None and f.module.name not in modules:
            continue
        incs = _counters(f.node)
        if not incs:
            continue
        checks = _capacity_checks(f.node, incs)
        if not checks:
            continue
        pm = parent_map(f.node)
        for counter in {c for _, c, _ in checks}:
            stores = [st for st in iter_stmts(f.node.body) if isinstance(st, ast.Assign) and isinstance(st.targets[0], ast.Subscript)
                      and _first_index(st.targets[0]) == counter]
            for st in stores:
                buf = u(st.targets[0].value)
                caps = _capacity_exprs(idx, f, buf)
                cks = [(ck, cap) for ck, c, cap in checks if c == counter and cap.replace(" ", "") in caps]
                if not cks:
                    continue   # no capacity check for this buffer in the function: nothing to contradict
                dominated = any(_dominates(pm, ck, st) for ck, cap in cks)
                key = "%s|store %s guarded by check on %s" % (f.key, u(st.targets[0]), counter)
                rep.check(dominated, rule, key, "%s:%d" % (f.module.relpath, st.lineno),
                          "the store `%s` indexed by `%s` is not dominated by the function's capacity check (%s): the check runs "
                          "after the write" % (u(st.targets[0]), counter, "; ".join("line %d: %s vs %s" % (ck.lineno, counter, cap) for ck, cap in cks)),
                          "check precedes the store")


def _capacity_exprs(idx, f, buf):
    """Texts that denote the capacity (first dimension) of buffer ``buf`` as allocated in the function or its class."""
    caps = {"len(%s)" % buf, "%s.shape[0]" % buf}
    scopes = [f.node]
    if f.cls is not None and buf.startswith("self."):
        scopes = [m.node for c in idx.mro(f.cls) for m in c.methods.values()]
    for sc in scopes:
        for st in iter_stmts(sc.body):
            if isinstance(st, ast.Assign) and u(st.targets[0]) == buf and isinstance(st.value, ast.Call) \
                    and call_name(st.value) in ("np.zeros", "np.empty", "np.ones", "np.full") and st.value.args:
                shp = st.value.args[0]
                first = shp.elts[0] if isinstance(shp, (ast.Tuple, ast.List)) and shp.elts else shp
                caps.add(u(first).replace(" ", ""))
    return {c.replace(" ", "") for c in caps}


def _dominates(pm, check, store):
    """check statement is executed before store on every path: check is an earlier statement of a block that encloses
    (or is) the store's block."""
    blk = _block_of(pm, check)
    if blk is None:
        return False
    # find ancestor of store that lives in blk
    cur = store
    while cur is not None:
        if cur in blk:
            return blk.index(check) < blk.index(cur)
        cur = pm.get(cur)
    return False


def r_frozen(idx, rep, rule="R-FROZEN", floor=2):
    rep.rule(rule, "module-level arrays that compiled (njit) functions read as globals are never mutated anywhere: numba "
                   "freezes a global at compile time, the interpreter would see the mutation", floor=floor)
    # module-level array constants
    globs = {}
    for m in idx.lib_modules():
        for name, node in m.const_nodes.items():
            if isinstance(node, ast.Call) and (call_name(node) or "").startswith(("np.", "numpy.")) or \
                    (isinstance(node, ast.Call) and idx.resolve_call(m, node) is not None and name.isupper()):
                globs[(m.name, name)] = node
    used = {}
    for f in idx.all_functions():
        if not f.njit:
            continue
        local = {a for a in f.params()} | {n.id for n in ast.walk(f.node) if isinstance(n, ast.Name) and isinstance(n.ctx, ast.Store)}
        for n in ast.walk(f.node):
            if isinstance(n, ast.Name) and isinstance(n.ctx, ast.Load) and n.id not in local:
                r = idx.resolve_name(f.module, n.id)
                if r and r[0] == "constnode":
                    m, node = r[1]
                    if (m.name, n.id) in globs:
                        used.setdefault((m.name, n.id), []).append(f)
                elif r is None and f.module.imports.get(n.id):
                    pass
    for (mod, name), users in sorted(used.items()):
        # any store / augmented assignment / in-place method on the global anywhere in the package
        viol = []
        for f in idx.all_functions():
            local = {a for a in f.params()} | {n.id for n in ast.walk(f.node) if isinstance(n, ast.Name) and isinstance(n.ctx, ast.Store)}
            if name in local:
                continue
            r = idx.resolve_name(f.module, name)
            if not (r and r[0] == "constnode" and r[1][0].name == mod):
                continue
            for st in iter_stmts(f.node.body):
                tgts = []
                if isinstance(st, ast.Assign):
                    tgts = st.targets
                elif isinstance(st, ast.AugAssign):
                    tgts = [st.target]
                for t in tgts:
                    base = t
                    while isinstance(base, (ast.Subscript, ast.Attribute)):
                        base = base.value
                    if isinstance(base, ast.Name) and base.id == name and (isinstance(t, ast.Subscript) or isinstance(st, ast.AugAssign)):
                        viol.append((f, st))
                if isinstance(st, ast.Expr) and isinstance(st.value, ast.Call) and isinstance(st.value.func, ast.Attribute) \
                        and isinstance(st.value.func.value, ast.Name) and st.value.func.value.id == name \
                        and st.value.func.attr in ("fill", "sort", "resize", "put", "itemset", "setfield"):
                    viol.append((f, st))
        key = "%s.%s|read by %d njit function(s)" % (mod, name, len(users))
        if viol:
            f, st = viol[0]
            rep.bad(rule, key, "%s:%d" % (f.module.relpath, st.lineno),
                    "global array %s is mutated by `%s` in %s; compiled readers (%s) keep the value frozen at compile time"
                    % (name, u(st), f.key, ", ".join(x.qualname for x in users[:3])))
        else:
            rep.ok(rule, key, idx.modules[mod].relpath, "never mutated; readers: %s" % ", ".join(x.qualname for x in users[:4]))


def r_emptyfill(idx, rep, rule="R-EMPTYFILL", modules=None, floor=5):
    rep.rule(rule, "a local np.empty buffer of literal shape that is used as a whole (returned, passed on, used in arithmetic) has "
                   "every cell written by some store of the function (never-written cells are arbitrary memory, different under the "
                   "JIT and the interpreter)", floor=floor)
    import itertools
    for f in idx.all_functions():
        if modules is not None and f.module.name not in modules:
            continue
        if f.module.is_test or "<locals>" in f.qualname:
            continue
        C = f.module.constants
        for st in iter_stmts(f.node.body):
            if not (isinstance(st, ast.Assign) and isinstance(st.targets[0], ast.Name) and isinstance(st.value, ast.Call)
                    and call_name(st.value) == "np.empty" and st.value.args):
                continue
            name = st.targets[0].id
            shp = st.value.args[0]
            dims = [const(e, C) for e in shp.elts] if isinstance(shp, (ast.Tuple, ast.List)) else [const(shp, C)]
            dims = [d if isinstance(d, int) else None for d in dims]
            if not any(isinstance(d, int) for d in dims) or any(isinstance(d, int) and (d == 0 or d > 16) for d in dims):
                continue
            # whole-array uses: loads of the bare name that are not the base of a subscript
            pm = parent_map(f.node)
            whole = [n for n in ast.walk(f.node) if isinstance(n, ast.Name) and n.id == name and isinstance(n.ctx, ast.Load)
                     and not (isinstance(pm.get(n), ast.Subscript) and pm[n].value is n)]
            reassigned = [s for s in iter_stmts(f.node.body) if isinstance(s, ast.Assign) and any(isinstance(t, ast.Name) and t.id == name for t in s.targets) and s is not st]
            if not whole or reassigned:
                continue
            # out-parameter pattern: the buffer is handed to a package function that fills it (Y/P/Q scratch arrays of the GJK)
            outparam = False
            for n in whole:
                par = pm.get(n)
                if isinstance(par, ast.Call) and n in par.args:
                    callee = idx.resolve_call(f.module, par, f.cls)
                    if callee is not None and hasattr(callee, "params"):
                        ps = callee.params()
                        k = par.args.index(n)
                        if k < len(ps):
                            pn = ps[k]
                            if any(isinstance(x, ast.Subscript) and isinstance(x.ctx, ast.Store) and isinstance(x.value, ast.Name) and x.value.id == pn
                                   for x in ast.walk(callee.node)):
                                outparam = True
            if outparam:
                continue
            stores = []
            for s in iter_stmts(f.node.body):
                tg = []
                if isinstance(s, ast.Assign):
                    for t in s.targets:
                        tg.extend(t.elts if isinstance(t, ast.Tuple) else [t])
                elif isinstance(s, ast.AugAssign):
                    continue
                for t in tg:
                    if isinstance(t, ast.Subscript) and isinstance(t.value, ast.Name) and t.value.id == name:
                        stores.append(index_elts(t))
            lit = [i for i, d in enumerate(dims) if d is not None]
            cells = set(itertools.product(*[range(dims[i]) for i in lit]))
            covered = set()
            unknown = False
            for el in stores:
                el = list(el) + [ast.Slice(lower=None, upper=None, step=None)] * (len(dims) - len(el))
                per = []
                ok = True
                for i, e in enumerate(el[:len(dims)]):
                    if dims[i] is None:
                        # symbolic dimension: a loop index or a full slice both cover it over the run of the loop
                        continue
                    if isinstance(e, ast.Slice):
                        lo = const(e.lower, C) if e.lower is not None else 0
                        hi = const(e.upper, C) if e.upper is not None else dims[i]
                        if not isinstance(lo, int) or not isinstance(hi, int) or (e.step is not None):
                            ok = False
                            break
                        per.append(set(range(lo if lo >= 0 else dims[i] + lo, hi if hi >= 0 else dims[i] + hi)))
                    else:
                        k = const(e, C)
                        if isinstance(k, int):
                            per.append({k if k >= 0 else dims[i] + k})
                        else:
                            per.append(set(range(dims[i])))   # a loop variable: assumed to sweep the dimension
                            unknown = True
                if ok:
                    covered |= set(itertools.product(*per)) if per else cells
            key = "%s|%s = np.empty(%s)" % (f.key, name, u(shp))
            where = "%s:%d" % (f.module.relpath, st.lineno)
            missing = sorted(cells - covered)
            rep.check(not missing, rule, key, where,
                      "cells %s of `%s` are never written but the array is used as a whole (e.g. `%s`): they hold arbitrary memory"
                      % (missing[:6], name, u(pm.get(whole[0]))[:60] if pm.get(whole[0]) is not None else name),
                      "%d cells covered by %d stores%s" % (len(cells), len(stores), " (loop-indexed)" if unknown else ""))


def _cap_text(e):
    return u(e).replace(" ", "")


def r_boundedstore(idx, rep, rule="R-BOUNDEDSTORE", modules=None, floor=3):
    """every store at a running counter into a LOCALLY allocated fixed-size buffer is bounded: either a capacity check dominates it, or
    the loops around it execute it at most CAP times (one loop over range(N) with CAP == N; the pair loop i < j over range(N) with
    CAP == N*(N-1)//2).  A buffer 'tightened' below the loop count with the assertion dropped overflows: IndexError interpreted,
    silent out-of-bounds write compiled."""
    rep.rule(rule, "stores at a running counter into a locally allocated np.empty/np.zeros buffer are bounded by a dominating capacity check or "
                   "by the iteration count of the enclosing range loops (N, or N*(N-1)//2 for the i<j pair loop) equal to the allocated capacity",
             floor=floor)
    for f in idx.all_functions():
        if f.module.is_test or (modules is not None and f.module.name not in modules):
            continue
        incs = _counters(f.node)
        if not incs:
            continue
        pm = parent_map(f.node)
        allocs = {}
        for st in iter_stmts(f.node.body):
            if isinstance(st, ast.Assign) and len(st.targets) == 1 and isinstance(st.targets[0], ast.Name) and isinstance(st.value, ast.Call) \
                    and call_name(st.value) in ("np.empty", "np.zeros", "np.ones") and st.value.args:
                shp = st.value.args[0]
                first = shp.elts[0] if isinstance(shp, (ast.Tuple, ast.List)) and shp.elts else shp
                allocs[st.targets[0].id] = first
        checks = _capacity_checks(f.node, incs)
        seen = set()
        for st in iter_stmts(f.node.body):
            if not (isinstance(st, ast.Assign) and isinstance(st.targets[0], ast.Subscript) and isinstance(st.targets[0].value, ast.Name)):
                continue
            buf = st.targets[0].value.id
            counter = _first_index(st.targets[0])
            if buf not in allocs or counter not in incs or (buf, counter) in seen:
                continue
            # a running counter: initialised with a literal and only ever incremented (a simplex length that projections reset is not one)
            other = [a for a in ast.walk(f.node) if isinstance(a, ast.Assign) and any(isinstance(t, ast.Name) and t.id == counter or
                     (isinstance(t, ast.Tuple) and any(isinstance(e, ast.Name) and e.id == counter for e in t.elts)) for t in a.targets)
                     and not (len(a.targets) == 1 and isinstance(a.targets[0], ast.Name) and isinstance(const(a.value), int))]
            if other:
                continue
            seen.add((buf, counter))
            cap = allocs[buf]
            key = "%s|stores %s[%s] bounded by its capacity" % (f.key, buf, counter)
            where = "%s:%d" % (f.module.relpath, st.lineno)
            caps = _capacity_exprs(idx, f, buf)
            if any(c == counter and capx.replace(" ", "") in caps and _dominates(pm, ck, st) for ck, c, capx in checks):
                rep.ok(rule, key, where, "capacity check dominates the store")
                continue
            # loop-count argument
            loops = []
            p = pm.get(st)
            while p is not None and p is not f.node:
                if isinstance(p, ast.While):
                    loops = None
                    break
                if isinstance(p, ast.For):
                    loops.append(p)
                p = pm.get(p)
            bound = None
            if loops is not None:
                loops = list(reversed(loops))

                def rng(lp):
                    it = lp.iter
                    if isinstance(it, ast.Call) and call_name(it) == "range":
                        return it.args
                    return None
                if len(loops) == 1:
                    a = rng(loops[0])
                    if a is not None and len(a) == 1:
                        bound = _cap_text(a[0])
                    elif a is not None and len(a) == 2 and isinstance(const(a[0]), int) and const(a[0]) >= 0:
                        # a peeled loop: the counter starts at k after k items were stored in front of `for j in range(k, N)`: k + (N - k) = N stores
                        inits = [x for x in ast.walk(f.node) if isinstance(x, ast.Assign) and len(x.targets) == 1 and isinstance(x.targets[0], ast.Name)
                                 and x.targets[0].id == counter and isinstance(const(x.value), int) and x.lineno < loops[0].lineno]
                        if inits and const(inits[-1].value) <= const(a[0]):
                            bound = _cap_text(a[1])
                    elif a is None and isinstance(loops[0].iter, ast.Name):
                        bound = "len(%s)" % loops[0].iter.id
                elif len(loops) == 2:
                    a, b = rng(loops[0]), rng(loops[1])
                    if a is not None and b is not None and len(a) == 1 and len(b) == 2 and isinstance(loops[0].target, ast.Name) \
                            and _cap_text(b[0]) == "%s+1" % loops[0].target.id and _cap_text(b[1]) == _cap_text(a[0]):
                        n = _cap_text(a[0])
                        bound = "%s*(%s-1)//2" % (n, n)
            capt = _cap_text(cap)
            ok = bound is not None and (bound == capt or (const(cap) is not None and bound == str(const(cap))))
            rep.check(ok, rule, key, where,
                      "`%s` is written at the running counter `%s`, the buffer holds %s rows, no capacity check dominates the store and the enclosing loops can execute it "
                      "%s times: more kept items than rows is an IndexError when interpreted and a silent out-of-bounds write (heap corruption / truncated result) when compiled"
                      % (u(st.targets[0]), counter, capt, bound or "an unbounded number of"), "loop count %s == capacity" % bound)
