"""R-DOSIMPLEX (C02, libccd-style GJK): the simplex kept by every branch of _line_segment / _triangle / _triangle_ab /
_rearrange_simplex_to_triangle is the feature its new search direction is computed from.

Rows of (v, v1, v2) are tracked symbolically: on entry row k holds the vertex named by the tuple that reads v[k]
(A newest ... D oldest); `_set_point(v, v1, v2, k, *X)` stores vertex X in row k; a leaf keeps rows[0:n_points].
The direction names its feature: XO -> {X};  _triple_cross(XY, XO, XY) -> {X, Y};  +-XYZ (a face normal) -> {X, Y, Z}.
For the tetrahedron the face kept after a failed side test is the face whose normal the test used."""
import ast

from ..core.astutil import u, call_name, const, iter_stmts
from ..core.index import AnalysisError

L = "distance3d.gjk._gjk_libccd"


def _vertex_tuples(f):
    """{letter: row} from  X = v[k], v1[k], v2[k]  (possibly wrapped in np.copy)"""
    out = {}
    vname = f.params()[0] if f.params() else "v"
    for st in f.node.body:
        if isinstance(st, ast.Assign) and len(st.targets) == 1 and isinstance(st.targets[0], ast.Name):
            val = st.value
            first = val.elts[0] if isinstance(val, ast.Tuple) and val.elts else val
            if isinstance(first, ast.Call) and call_name(first) == "np.copy" and first.args:
                first = first.args[0]
            if isinstance(first, ast.Subscript) and isinstance(first.value, ast.Name) and first.value.id == vname and isinstance(const(first.slice), int):
                out[st.targets[0].id] = const(first.slice)
    return out


def _edge_vectors(f, letters):
    """{name: frozenset(letters)} for  XY = Y[0] - X[0] / XY = Y - X[0],  XO = -X[0],  XYZ = np.cross(XY, XZ)"""
    vec = {}
    for st in iter_stmts(f.node.body):
        if not (isinstance(st, ast.Assign) and len(st.targets) == 1 and isinstance(st.targets[0], ast.Name)):
            continue
        n, val = st.targets[0].id, st.value

        def letter(x):
            if isinstance(x, ast.Subscript) and isinstance(x.value, ast.Name) and x.value.id in letters and const(x.slice) == 0:
                return x.value.id
            if isinstance(x, ast.Name) and x.id in letters:
                return x.id
            return None
        if isinstance(val, ast.BinOp) and isinstance(val.op, ast.Sub):
            a, b = letter(val.left), letter(val.right)
            if a and b:
                vec[n] = ("edge", frozenset((a, b)))
        elif isinstance(val, ast.UnaryOp) and isinstance(val.op, ast.USub) and letter(val.operand):
            vec[n] = ("to_origin", frozenset((letter(val.operand),)))
        elif isinstance(val, ast.Call) and call_name(val) == "np.cross" and len(val.args) == 2 and all(isinstance(a, ast.Name) and a.id in vec for a in val.args):
            if vec[val.args[0].id][0] == "edge" and vec[val.args[1].id][0] == "edge":
                vec[n] = ("normal", vec[val.args[0].id][1] | vec[val.args[1].id][1])
            elif vec[val.args[0].id][0] == "edge" and vec[val.args[1].id][0] == "to_origin":
                vec[n] = ("cross2", (val.args[0].id, val.args[1].id))          # e x XO, the inner half of a triple product
    return vec


def _feature_of_direction(e, vec):
    if isinstance(e, ast.UnaryOp) and isinstance(e.op, ast.USub):
        return _feature_of_direction(e.operand, vec)
    if isinstance(e, ast.Name) and e.id in vec:
        kind, s = vec[e.id]
        return s if kind in ("to_origin", "normal") else None
    if isinstance(e, ast.Call) and call_name(e) == "np.cross" and len(e.args) == 2 and isinstance(e.args[0], ast.Name) and e.args[0].id in vec \
            and vec[e.args[0].id][0] == "cross2" and isinstance(e.args[1], ast.Name) and e.args[1].id in vec:
        # (x cross y) cross z with the inner product bound to a name: the same triple product
        x, y = vec[e.args[0].id][1]
        e = ast.Call(func=ast.Name(id="_triple_cross", ctx=ast.Load()), args=[ast.Name(id=x, ctx=ast.Load()), ast.Name(id=y, ctx=ast.Load()), e.args[1]], keywords=[])
    if isinstance(e, ast.Call) and call_name(e) == "_triple_cross" and len(e.args) == 3 and all(isinstance(a, ast.Name) and a.id in vec for a in e.args):
        k0, s0 = vec[e.args[0].id]
        k1, s1 = vec[e.args[1].id]
        k2, s2 = vec[e.args[2].id]
        if k0 == "edge" and k2 == "edge" and s0 == s2 and k1 == "to_origin" and s1 <= s0:
            return s0
        return "malformed"      # the direction towards the origin perpendicular to an edge e is  e x XO x e  with X on e
    return None


def _leaves(body, rows, out, f, vec, params_rows=None):
    """Path walk: every `return` of a (..., n_points, search_direction) tuple is a leaf, whether the two results were assigned to names first or are
    written into the return directly; rows are updated by `_set_point(v, v1, v2, k, *X)` on the way.  Collects (rows, n_points, direction, lineno)."""
    seen = set()

    def resolve(e, env, depth=0):
        while isinstance(e, ast.Name) and e.id in env and e.id not in vec and depth < 4:
            e, depth = env[e.id], depth + 1
        return e

    def walk(stmts, rows, env):
        rows, env = dict(rows), dict(env)
        for i, st in enumerate(stmts):
            if isinstance(st, ast.If):
                walk(list(st.body) + list(stmts[i + 1:]), rows, env)
                walk(list(st.orelse) + list(stmts[i + 1:]), rows, env)
                return
            if isinstance(st, ast.Expr) and isinstance(st.value, ast.Call):
                c = st.value
                if call_name(c) == "_set_point" and len(c.args) >= 5 and isinstance(c.args[4], ast.Starred) and isinstance(const(c.args[3]), int):
                    rows[const(c.args[3])] = u(c.args[4].value)
            if isinstance(st, ast.Assign) and len(st.targets) == 1 and isinstance(st.targets[0], ast.Name):
                env[st.targets[0].id] = st.value
            if isinstance(st, ast.Return):
                if isinstance(st.value, ast.Tuple):
                    elts = [resolve(e, env) for e in st.value.elts]
                    ints = [const(e) for e in elts if isinstance(const(e), int) and not isinstance(const(e), bool)]
                    dirs = [e for e in elts if not isinstance(const(e), int) and not (isinstance(e, ast.Attribute) and isinstance(e.value, ast.Name) and e.value.id[:1].isupper())
                            and not (isinstance(e, ast.Constant) and e.value is None)]
                    if len(ints) == 1 and len(dirs) == 1:
                        keyt = (st.lineno, ints[0], u(dirs[0]), tuple(sorted(rows.items())))
                        if keyt not in seen:
                            seen.add(keyt)
                            out.append((rows, ints[0], dirs[0], st.lineno))
                return
    walk(list(body), rows, {})


def r_dosimplex(idx, rep, rule="R-DOSIMPLEX"):
    rep.rule(rule, "libccd-style simplex refinement: in every branch the vertices kept in rows [0:n_points] are exactly the feature the new "
                   "search direction is computed from (XO -> {X}; XY x XO x XY -> {X,Y}; +-XYZ -> {X,Y,Z}); after a failed side test the "
                   "tetrahedron keeps the face whose normal the test used; vertex tuples read rows newest-first", floor=10)
    m = idx.module(L)
    for fname in ("_line_segment", "_triangle"):
        f = idx.func(L + "::" + fname)
        letters = _vertex_tuples(f)
        # _line_segment reads B = v[0] without a tuple
        for st in f.node.body:
            if isinstance(st, ast.Assign) and isinstance(st.targets[0], ast.Name) and isinstance(st.value, ast.Subscript) and isinstance(st.value.value, ast.Name) \
                    and st.value.value.id == f.params()[0] and isinstance(const(st.value.slice), int):
                letters.setdefault(st.targets[0].id, const(st.value.slice))
        n0 = len(letters)
        order = sorted(letters, key=lambda k: -letters[k])
        rep.check(sorted(letters.values()) == list(range(n0)) and n0 == (2 if fname == "_line_segment" else 3), rule, f.key + "|vertex rows", f.where,
                  "%s must name the vertices of rows %s (newest first): found %s" % (fname, list(range(n0 - 1, -1, -1)), letters), "rows %s" % {k: letters[k] for k in order})
        vec = _edge_vectors(f, set(letters))
        rows0 = {r: k for k, r in letters.items()}
        leaves = []
        _leaves(f.node.body, rows0, leaves, f, vec)
        # calls into _triangle_ab: analysed with the caller's rows
        tab = idx.func(L + "::_triangle_ab")
        if fname == "_triangle":
            vec_ab = dict(vec)
            _leaves(tab.node.body, rows0, leaves, tab, vec_ab)
        for rows, n, direction, line in leaves:
            kept = frozenset(rows[i] for i in range(n) if i in rows)
            feat = _feature_of_direction(direction, vec)
            key = "%s|leaf n_points=%d direction %s" % (f.key, n, u(direction))
            where = "%s:%d" % (m.relpath, line)
            if feat is None:
                rep.unknown(rule, key, where, "direction `%s` not recognised" % u(direction))
                continue
            if feat == "malformed":
                rep.bad(rule, key, where, "`%s` is not of the form e x XO x e (same edge twice, X an end point of e): it is not the direction from the edge towards the origin" % u(direction))
                continue
            rep.check(kept == feat and len(kept) == n, rule, key, where,
                      "this branch keeps the vertices %s in rows [0:%d] but computes the next search direction `%s` from the feature %s: simplex and "
                      "direction disagree, the next support point is added to the wrong sub-simplex (missed or spurious contacts in rare regions)"
                      % (sorted(kept), n, u(direction), sorted(feat)), "keeps %s" % sorted(kept))
    # tetrahedron: side tests and the face kept
    t = idx.func(L + "::_tetrahedron")
    letters = _vertex_tuples(t)
    rep.check(sorted(letters.values()) == [0, 1, 2, 3], rule, t.key + "|vertex rows", t.where, "_tetrahedron must name rows 3,2,1,0: %s" % letters, str(letters))
    vec = _edge_vectors(t, set(letters))
    side = {}      # flag name -> face letters
    for st in iter_stmts(t.node.body):
        if isinstance(st, ast.Assign) and isinstance(st.targets[0], ast.Name) and isinstance(st.value, ast.Compare):
            names = [n.id for n in ast.walk(st.value) if isinstance(n, ast.Name) and n.id in vec and vec[n.id][0] == "normal"]
            if len(names) == 1:
                side[st.targets[0].id] = vec[names[0]][1]
    # a side comparison that is used in place (no flag name) still counts as a side test of its face
    named = {id(st.value) for st in iter_stmts(t.node.body) if isinstance(st, ast.Assign) and isinstance(st.value, ast.Compare)}
    for cmp_ in ast.walk(t.node):
        if isinstance(cmp_, ast.Compare) and id(cmp_) not in named:
            names = [n.id for n in ast.walk(cmp_) if isinstance(n, ast.Name) and n.id in vec and vec[n.id][0] == "normal"]
            if len(names) == 1:
                side["<" + u(cmp_)[:40] + ">"] = vec[names[0]][1]
    rr = idx.func(L + "::_rearrange_simplex_to_triangle")
    call = [c for c in ast.walk(t.node) if isinstance(c, ast.Call) and call_name(c) == "_rearrange_simplex_to_triangle"]
    if len(side) != 3 or len(call) != 1:
        raise AnalysisError("_tetrahedron: three side flags / one rearrangement call expected (%s)" % sorted(side))
    bind = dict(zip(rr.params(), [u(a) for a in call[0].args]))
    rows0 = {r: k for k, r in letters.items()}

    def walk(body, failed, passed):
        for st in body:
            if isinstance(st, ast.If):
                tst = st.test
                if isinstance(tst, ast.UnaryOp) and isinstance(tst.op, ast.Not) and isinstance(tst.operand, ast.Name):
                    flag = bind.get(tst.operand.id, tst.operand.id)
                    # body: this test failed ; orelse: it passed
                    leaf(st.body, flag, passed)
                    walk(st.orelse, failed, passed + [flag])
                elif isinstance(tst, ast.Name):
                    flag = bind.get(tst.id, tst.id)
                    # the canonical two-armed form (core.index._CanonIf): body = the test passed, orelse = it failed
                    leaf(st.orelse, flag, passed)
                    walk(st.body, failed, passed + [flag])
                else:
                    rep.unknown(rule, rr.key + "|test %s" % u(tst), rr.where, "test not of the form `not <flag>`")
            # plain statements at this level belong to the final else
        plain = [st for st in body if not isinstance(st, ast.If)]
        if plain and not any(isinstance(st, ast.If) for st in body):
            remaining = [fl for fl in side if fl not in passed]
            leaf(plain, remaining[0] if len(remaining) == 1 else None, passed)

    def leaf(body, flag, passed):
        rows = dict(rows0)
        for st in body:
            if isinstance(st, ast.Expr) and isinstance(st.value, ast.Call) and call_name(st.value) == "_set_point" and isinstance(const(st.value.args[3]), int):
                rows[const(st.value.args[3])] = bind.get(u(st.value.args[4].value), u(st.value.args[4].value))
        kept = frozenset(rows[i] for i in range(3))
        key = "%s|face kept when %s fails" % (rr.key, flag)
        want = side.get(flag)
        rep.check(want is not None and kept == want, rule, key, rr.where,
                  "when the origin is not on the inner side of the plane tested by `%s` (face %s) the simplex is reduced to rows [0:3] = %s: "
                  "the wrong face is kept and the triangle case continues away from the origin" % (flag, sorted(want) if want else "?", sorted(kept)),
                  "keeps %s" % sorted(kept))
    def push_tail(body):
        """statements shared by all cases and written once behind the if-tree (`_set_point(.., 2, *A)` "A always becomes the last point") belong to every leaf"""
        import copy as _copy
        body = [st for st in body if not (isinstance(st, ast.Expr) and isinstance(st.value, ast.Constant))]
        for i, st in enumerate(body):
            if isinstance(st, ast.If):
                tail = body[i + 1:]
                if any(isinstance(x, (ast.If, ast.For, ast.While, ast.Return)) for x in tail):
                    return body
                new = _copy.copy(st)
                new.body = push_tail(list(st.body) + _copy.deepcopy(tail))
                new.orelse = push_tail(list(st.orelse) + _copy.deepcopy(tail))
                return body[:i] + [new]
        return body
    walk(push_tail(list(rr.node.body)), None, [])


# ---------------------------------------------------------------------------------------------------------------------- R-EXPANDPORTAL
def _tested_vertex(fnode, test, v):
    """k when `test` is a sign test of <v[k], x> (`v[k].dot(x) > 0`, `np.dot(v[k], x) >= 0`, `x.dot(v[k]) < 0`, also through one local), else None"""
    from ..core.astutil import resolved
    if not (isinstance(test, ast.Compare) and len(test.ops) == 1):
        return None
    sides = [test.left, test.comparators[0]]
    if not any(const(s) in (0, 0.0) and const(s) is not None and not isinstance(const(s), bool) for s in sides):
        return None
    e = sides[0] if const(sides[0]) is None else sides[1]
    if isinstance(e, ast.Name):
        e = resolved(fnode, e)
    ops = None
    if isinstance(e, ast.Call) and isinstance(e.func, ast.Attribute) and e.func.attr == "dot" and len(e.args) == 1 and u(e.func.value) != "np":
        ops = [e.func.value, e.args[0]]
    elif isinstance(e, ast.Call) and (call_name(e) or "") == "np.dot" and len(e.args) == 2:
        ops = list(e.args)
    elif isinstance(e, ast.BinOp) and isinstance(e.op, ast.MatMult):
        ops = [e.left, e.right]
    if ops is None:
        return None
    ks = []
    for o in ops:
        if isinstance(o, ast.Name):
            o = resolved(fnode, o) or o
        if isinstance(o, ast.Subscript) and isinstance(o.value, ast.Name) and o.value.id == v:
            k = const(o.slice)
            if isinstance(k, int) and not isinstance(k, bool):
                ks.append(k)
    return ks[0] if len(ks) == 1 else None


def _rows_stored(stmts, v, row_vars=()):
    """constant rows of `v` stored in the statements; when the arm only CHOOSES the row (`replaced = 3`, the store `v[replaced] = ...` follows the case
    analysis), the constants bound to such a row variable"""
    out = set()
    for st in stmts:
        for n in ast.walk(st):
            if isinstance(n, ast.Subscript) and isinstance(n.ctx, ast.Store) and isinstance(n.value, ast.Name) and n.value.id == v:
                k = const(n.slice)
                out.add(k if isinstance(k, int) and not isinstance(k, bool) else None)
            elif isinstance(n, ast.Assign) and len(n.targets) == 1 and isinstance(n.targets[0], ast.Name) and n.targets[0].id in row_vars:
                k = const(n.value)
                out.add(k if isinstance(k, int) and not isinstance(k, bool) else None)
    return out


def r_expandportal(idx, rep, rule="R-EXPANDPORTAL"):
    rep.rule(rule, "mpr._expand_portal (libccd ccdMPRExpandPortal): the new support point v4 replaces one of the portal vertices v1..v3 so that the origin ray stays inside the "
                   "portal.  Each innermost sign test `<v[k], v4 x v0> > 0` decides which of the two OTHER vertices is replaced: the tested vertex k is kept on both "
                   "outcomes, the two outcomes replace different vertices, and the two innermost tests look at different vertices.  A test that looks at a vertex it then "
                   "replaces decides on the wrong side of the new edge: the portal no longer contains the origin ray and refinement converges to a face that is not the one "
                   "the ray leaves through", floor=2)
    f = idx.func("distance3d.mpr::_expand_portal")
    v = f.params()[0]
    inner = []
    for n in ast.walk(f.node):
        if isinstance(n, ast.If):
            k = _tested_vertex(f.node, n.test, v)
            if k is None:
                continue
            nested = [x for b in (n.body, n.orelse) for s in b for x in ast.walk(s) if isinstance(x, ast.If) and _tested_vertex(f.node, x.test, v) is not None]
            if not nested:
                inner.append((n, k))
    # row variables: `v[replaced], v1[replaced], v2[replaced] = v4, v14, v24` after the case analysis
    row_vars = {n.slice.id for n in ast.walk(f.node) if isinstance(n, ast.Subscript) and isinstance(n.ctx, ast.Store) and isinstance(n.value, ast.Name) and n.value.id == v
                and isinstance(n.slice, ast.Name)}
    if not inner:
        rep.unknown(rule, f.key + "|innermost vertex tests", f.where, "no sign test of <v[k], .> on the portal vertices recognised")
        rep.unknown(rule, f.key + "|innermost vertex tests cover", f.where, "no sign test recognised")
        return
    for n, k in inner:
        key = "%s|test of vertex %d keeps it (`%s`)" % (f.key, k, u(n.test)[:50])
        where = "%s:%d" % (f.module.relpath, n.lineno)
        a, b = _rows_stored(n.body, v, row_vars), _rows_stored(n.orelse, v, row_vars)
        if None in a | b or not a or not b:
            rep.unknown(rule, key, where, "replaced rows not constant on both outcomes (%r / %r)" % (sorted(map(str, a)), sorted(map(str, b))))
        elif k in a | b:
            rep.bad(rule, key, where,
                    "the test `%s` looks at portal vertex %d and one of its outcomes REPLACES vertex %d by the new support point (rows replaced: %s / %s): the side of the plane "
                    "(v4, v0, v%d) is only meaningful for choosing between the other two vertices — the expanded portal can lose the origin ray, and MPR reports a wrong "
                    "penetration depth / direction" % (u(n.test)[:60], k, k, sorted(a), sorted(b), k))
        elif a == b:
            rep.bad(rule, key, where, "both outcomes of `%s` replace the same vertex %s: the test decides nothing" % (u(n.test)[:60], sorted(a)))
        else:
            rep.ok(rule, key, where, "replaces %s / %s" % (sorted(a), sorted(b)))
    ks = [k for _n, k in inner]
    key = f.key + "|innermost tests look at different vertices"
    if len(ks) >= 2 and len(set(ks)) < len(ks):
        rep.bad(rule, key, f.where, "the innermost tests look at the vertices %s: the same vertex decides in both half spaces of <v[1], v4 x v0>, the third vertex is never consulted" % ks)
    else:
        rep.ok(rule, key, f.where, "vertices %s" % ks)
