"""C06 rules over broad_phase.py / self_collision.py.

R-UPDATEORDER  update_collider_poses starts from a fresh tree, visits ALL colliders, looks the pose up as (frame -> "origin")
               like _make_collider does, calls update_pose BEFORE aabb(), inserts with payload (frame, collider).
R-PAYLOAD      writer/reader agreement on the (frame, collider) payload; pair[0] indexes self, pair[1] the other tree;
               self-pairs are skipped only when the two indices are equal.
R-WHITELIST    detect / detect_any iterate all colliders, filter candidates only by the whitelist of the querying frame,
               run the narrow phase on every remaining candidate; detect marks both frames.
"""
import ast

from ..core.astutil import u, call_name, calls, iter_stmts, const, ncmp, parent_map, guard_chain, resolved
from ..core.index import AnalysisError

BP = "distance3d.broad_phase"
SC = "distance3d.self_collision"


def r_updateorder(idx, rep, rule="R-UPDATEORDER"):
    rep.rule(rule, "pose refresh: fresh tree, every collider, pose looked up to 'origin', update_pose before aabb(), payload "
                   "(frame, collider)", floor=6)
    ci = idx.cls(BP + "::BoundingVolumeHierarchy")
    f = ci.methods.get("update_collider_poses")
    if f is None:
        raise AnalysisError("update_collider_poses vanished")
    fk = f.key
    body = f.node.body
    # the fresh tree may be bound to a local first (tree = AabbTree(); self.aabbtree_ = tree)
    tree_names = {"self.aabbtree_"}
    for st in body:
        if isinstance(st, ast.Assign) and u(st.targets[0]) == "self.aabbtree_" and isinstance(st.value, ast.Name):
            tree_names.add(st.value.id)
    fresh = [st for st in body if isinstance(st, ast.Assign) and u(st.targets[0]) in tree_names and isinstance(st.value, ast.Call) and call_name(st.value) == "AabbTree"]
    loops = [st for st in body if isinstance(st, ast.For)]
    rep.check(len(fresh) == 1 and len(loops) == 1 and fresh[0].lineno < loops[0].lineno, rule, fk + "|fresh tree", f.where,
              "the tree must be rebuilt from scratch (self.aabbtree_ = AabbTree()) before the colliders are re-inserted; stale boxes would stay in the tree")
    if len(loops) != 1:
        return
    lp = loops[0]
    it = u(lp.iter)
    rep.check(it in ("self.colliders_", "self.colliders_.keys()", "self.colliders_.items()", "self.collider_frames"), rule, fk + "|all colliders", f.where,
              "the refresh loop iterates `%s`, not all colliders" % it)
    frame = u(lp.target) if isinstance(lp.target, ast.Name) else (u(lp.target.elts[0]) if isinstance(lp.target, ast.Tuple) else None)
    gets = calls(lp.body, "get_transform")
    ok = len(gets) == 1 and len(gets[0].args) == 2 and u(gets[0].args[0]) == frame and const(gets[0].args[1]) == "origin"
    rep.check(ok, rule, fk + "|pose = tm.get_transform(frame, 'origin')", f.where,
              "the new pose must be tm.get_transform(<frame>, 'origin'); found %s" % [u(g) for g in gets])
    mk = ci.methods.get("_make_collider")
    if mk is not None:
        g2 = calls(mk.node, "get_transform")
        ok2 = len(g2) == 1 and const(g2[0].args[1]) == "origin"
        rep.check(ok2, rule, mk.key + "|same target frame as the refresh", mk.where, "_make_collider and update_collider_poses must look poses up to the same target frame 'origin'")
    ups = [c for c in calls(lp.body, "update_pose")]
    abs_ = [c for c in calls(lp.body, "aabb")]
    ins = [c for c in calls(lp.body, "insert_aabb")]
    # the pose handed to update_pose is the looked-up transform, named or not
    pose_ok = len(ups) == 1 and len(ups[0].args) == 1 and isinstance(resolved(f.node, ups[0].args[0]), ast.Call) \
        and (call_name(resolved(f.node, ups[0].args[0])) or "").endswith("get_transform")
    ok = len(ups) == 1 and len(abs_) == 1 and len(ins) == 1 and (ups[0].lineno, ups[0].col_offset) < (abs_[0].lineno, abs_[0].col_offset) \
        and pose_ok and u(ups[0].func.value) == u(abs_[0].func.value)
    rep.check(ok, rule, fk + "|update_pose before aabb()", f.where,
              "each collider must get update_pose(<new pose>) BEFORE its aabb() is inserted (otherwise the tree holds the boxes of the previous configuration)")
    # ... on EVERY iteration: update_pose and the insertion are plain statements of the loop body (a 'did it move?' guard around
    # update_pose leaves derived collider state - box vertices, mesh support - at the old pose when the pose array was edited in place)
    def top_level(call):
        return any(isinstance(st, ast.Expr) and st.value is call or (isinstance(st, (ast.Expr, ast.Assign)) and any(n is call for n in ast.walk(st))) for st in lp.body)
    if len(ups) == 1 and len(ins) == 1:
        rep.check(top_level(ups[0]) and top_level(ins[0]) and not any(isinstance(st, (ast.Continue, ast.Break)) for st in iter_stmts(lp.body)), rule,
                  fk + "|every collider is updated and re-inserted unconditionally", f.where,
                  "update_pose / insert_aabb are executed only under a condition (or the loop skips colliders): a collider whose pose test says 'unchanged' keeps "
                  "derived state of the previous pose (poses are stored by reference, an in-place edit compares equal to itself)")
    if len(ins) == 1:
        a = ins[0].args
        coll = u(ups[0].func.value) if ups else None
        ok = len(a) == 2 and isinstance(a[1], ast.Tuple) and [u(e) for e in a[1].elts] == [frame, coll] and isinstance(a[0], ast.Call) and u(a[0].func.value) == coll
        rep.check(ok, rule, fk + "|payload (frame, collider)", f.where, "the refreshed box must be inserted as insert_aabb(collider.aabb(), (frame, collider)); found %s" % u(ins[0]))
    ad = ci.methods.get("add_collider")
    if ad is not None:
        ins = calls(ad.node, "insert_aabb")
        ps = [p for p in ad.params() if p != "self"]
        ok = len(ins) == 1 and len(ins[0].args) == 2 and isinstance(ins[0].args[1], ast.Tuple) and [u(e) for e in ins[0].args[1].elts] == ps[:2] \
            and any(isinstance(st, ast.Assign) and u(st.targets[0]) == "self.colliders_[%s]" % ps[0] and u(st.value) == ps[1] for st in ad.node.body)
        rep.check(ok, rule, ad.key + "|registers and inserts (frame, collider)", ad.where, "add_collider must store colliders_[frame] = collider and insert its box with payload (frame, collider)")


def r_payload(idx, rep, rule="R-PAYLOAD"):
    rep.rule(rule, "tree payload is read as written: dict over (frame, collider) pairs for box queries; pair[0] -> this tree, "
                   "pair[1] -> other tree; self-pairs skipped only for equal indices", floor=3, unknown_ceiling=2)
    ci = idx.cls(BP + "::BoundingVolumeHierarchy")
    f = ci.methods.get("aabb_overlapping_colliders")
    if f is None:
        raise AnalysisError("aabb_overlapping_colliders vanished")
    ps = [p for p in f.params() if p != "self"]
    q = calls(f.node, "overlaps_aabb")
    ok = len(q) == 1 and isinstance(q[0].args[0], (ast.Name, ast.Call))
    src = None
    for st in iter_stmts(f.node.body):
        if isinstance(st, ast.Assign) and isinstance(st.value, ast.Call) and call_name(st.value).endswith("overlaps_aabb") and isinstance(st.targets[0], ast.Tuple):
            src = u(st.targets[0].elts[1])
    dicts = [c for c in calls(f.node, "dict")]
    import copy as _copy

    class _Res(ast.NodeTransformer):
        def visit_Name(self, n):
            r = resolved(f.node, n) if isinstance(n.ctx, ast.Load) else n
            return _copy.deepcopy(r) if (r is not n and isinstance(r, (ast.Attribute, ast.Subscript))) else n
    dtxt = u(_Res().visit(_copy.deepcopy(dicts[0]))) if len(dicts) == 1 else ""
    ok = ok and len(dicts) == 1 and "self.aabbtree_.external_data_list" in dtxt and src is not None and src in {n.id for n in ast.walk(dicts[0]) if isinstance(n, ast.Name)}
    rep.check(ok, rule, f.key + "|dict(external_data_list[overlaps])", f.where,
              "box query results must index self.aabbtree_.external_data_list with the overlap indices and be read as (frame, collider) pairs")
    ok = bool(q) and u(resolved(f.node, q[0].args[0])) == "%s.aabb()" % ps[0]
    rep.check(ok, rule, f.key + "|query box = collider.aabb()", f.where, "the query box must be the query collider's own aabb()")
    # whitelist removal only
    pops = [c for c in calls(f.node, "pop")]
    fors = [st for st in f.node.body if isinstance(st, ast.For)]
    ok = len(fors) == 1 and u(fors[0].iter) == ps[1] and len(pops) == 1 and u(pops[0].args[0]) == u(fors[0].target)
    rep.check(ok, rule, f.key + "|only whitelisted frames removed", f.where, "candidates may only be removed by `for frame in whitelist: colliders.pop(frame, None)`")
    for name, other in (("aabb_overlapping_with_other_bvh", None), ("aabb_overlapping_with_self", "self")):
        g = ci.methods.get(name)
        if g is None:
            raise AnalysisError("%s vanished" % name)
        oparam = ([p for p in g.params() if p != "self"] or ["self"])[0]
        q = calls(g.node, "overlaps_aabb_tree")
        if not q:
            rep.unknown(rule, g.key + "|pair look-up", g.where, "the tree-against-tree query is not made in this method (delegated / restructured): payload pairing not decided here")
            continue
        ok = len(q) == 1 and u(q[0].func.value) == "self.aabbtree_" and u(q[0].args[0]) == "%s.aabbtree_" % oparam
        rep.check(ok, rule, g.key + "|tree query self vs %s" % oparam, g.where, "expected self.aabbtree_.overlaps_aabb_tree(%s.aabbtree_)" % oparam)
        pairs_name = None
        for st in iter_stmts(g.node.body):
            if isinstance(st, ast.Assign) and isinstance(st.targets[0], ast.Tuple) and isinstance(st.value, ast.Call) and call_name(st.value).endswith("overlaps_aabb_tree"):
                pairs_name = u(st.targets[0].elts[3]) if len(st.targets[0].elts) == 4 else None
        fors = [st for st in g.node.body if isinstance(st, ast.For)]
        ok = pairs_name is not None and len(fors) == 1 and u(fors[0].iter) == pairs_name
        rep.check(ok, rule, g.key + "|iterates the pair list", g.where, "the 4th result (pairs) of the tree query must be iterated")
        if not fors:
            continue
        pv = u(fors[0].target)
        # the two components of a pair: `pair[0]`, `pair[1]` for a plain loop variable, the two names for an unpacking target
        if isinstance(fors[0].target, (ast.Tuple, ast.List)) and len(fors[0].target.elts) == 2:
            comp = [u(e) for e in fors[0].target.elts]
        else:
            comp = ["%s[0]" % pv, "%s[1]" % pv]
        # what is recorded: the argument of the append (or the tuple it names), temporaries read through
        from ..core.astutil import inline_temps_in
        rec_vals = [st.value.args[0] for st in iter_stmts(fors[0].body) if isinstance(st, ast.Expr) and isinstance(st.value, ast.Call)
                    and (call_name(st.value) or "").endswith(".append") and st.value.args]
        good = False
        if rec_vals:
            v_ = inline_temps_in(g.node, rec_vals[0])
            if isinstance(v_, ast.Tuple) and len(v_.elts) == 2:
                e0, e1 = [u(e).replace(" ", "") for e in v_.elts]
                good = e0 == "self.aabbtree_.external_data_list[%s]" % comp[0] and e1 == "%s.aabbtree_.external_data_list[%s]" % (oparam, comp[1])
        rep.check(good, rule, g.key + "|pair[0] -> self, pair[1] -> other", g.where,
                  "payload lookup must be (self...external_data_list[pair[0]], %s...external_data_list[pair[1]])" % oparam)
        # under which conditions is a pair recorded?  (guard clauses and enclosing ifs are one and the same to the guard chain)
        pm = parent_map(g.node)
        rec = [st for st in iter_stmts(fors[0].body) if isinstance(st, ast.Expr) and isinstance(st.value, ast.Call) and (call_name(st.value) or "").endswith(".append")]
        if len(rec) != 1:
            rep.bad(rule, g.key + "|pairs recorded once", g.where, "expected exactly one `.append(...)` of a payload pair in the pair loop, found %d" % len(rec))
            continue
        atoms = guard_chain(pm, rec[0], fors[0])
        if name.endswith("_self"):
            ok = len(atoms) == 1 and isinstance(atoms[0][0], ast.Compare) and len(atoms[0][0].ops) == 1 \
                and {u(atoms[0][0].left), u(atoms[0][0].comparators[0])} == set(comp) \
                and ((isinstance(atoms[0][0].ops[0], ast.Eq) and atoms[0][1] is False) or (isinstance(atoms[0][0].ops[0], ast.NotEq) and atoms[0][1] is True))
            rep.check(ok, rule, g.key + "|self pairs skipped iff equal indices", g.where,
                      "a pair is recorded under %s; pairs may be skipped only when pair[0] == pair[1]" % [("" if pol else "not ") + u(t) for t, pol in atoms])
        else:
            rep.check(not atoms, rule, g.key + "|no pair skipped", g.where,
                      "a pair of the other tree is recorded only under %s; no pair may be skipped (indices of two different trees are unrelated)" % [("" if pol else "not ") + u(t) for t, pol in atoms])


def r_whitelist(idx, rep, rule="R-WHITELIST"):
    rep.rule(rule, "self-collision detection: every collider queries the BVH, candidates are filtered only by the querying "
                   "frame's whitelist, the narrow phase runs on every remaining candidate; detect marks both frames, detect_any "
                   "returns True on the first hit and False after all", floor=2, unknown_ceiling=2)
    for name in ("detect", "detect_any"):
        f = idx.func(SC + "::" + name)
        bvh = f.params()[0]
        outer = [st for st in f.node.body if isinstance(st, ast.For)]
        ok = len(outer) == 1 and u(outer[0].iter) == "%s.colliders_.items()" % bvh
        rep.check(ok, rule, f.key + "|all colliders", f.where, "the outer loop must visit every (frame, collider) of bvh.colliders_")
        if not ok:
            continue
        fr, co = [u(e) for e in outer[0].target.elts]
        q = calls(outer[0].body, "aabb_overlapping_colliders")
        if not q:
            rep.unknown(rule, f.key + "|candidate loop", f.where, "the BVH query is not made inside the collider loop (delegated to a helper / restructured): whitelist and narrow-phase discipline not decided here")
            continue
        good = len(q) == 1 and u(q[0].args[0]) == co and any(k.arg == "whitelist" and u(k.value) == "%s.self_collision_whitelists_[%s]" % (bvh, fr) for k in q[0].keywords)
        rep.check(good, rule, f.key + "|candidates = BVH query with the querying frame's whitelist", f.where,
                  "candidates must be bvh.aabb_overlapping_colliders(collider, whitelist=bvh.self_collision_whitelists_[frame])")
        inner = [st for st in iter_stmts(outer[0].body) if isinstance(st, ast.For)]
        good = len(inner) == 1 and ".items()" in u(inner[0].iter)
        rep.check(good, rule, f.key + "|every candidate", f.where, "every candidate must be tested")
        if not good:
            continue
        f2, c2 = [u(e) for e in inner[0].target.elts]
        tests = [st for st in inner[0].body if isinstance(st, ast.If)]
        good = len(tests) == 1 and len(inner[0].body) == 1 and isinstance(tests[0].test, ast.Call) and (call_name(tests[0].test) or "").split(".")[-1] in ("gjk_intersection", "gjk_intersection_jolt") \
            and [u(a) for a in tests[0].test.args] == [co, c2]
        rep.check(good, rule, f.key + "|narrow phase on (collider, candidate) without further filter", f.where,
                  "the candidate loop must consist of `if gjk_intersection(collider, collider2): ...` only")
        if not tests:
            continue
        hit = tests[0].body
        if name == "detect":
            rets_ = [st for st in f.node.body if isinstance(st, ast.Return) and isinstance(st.value, ast.Name)]
            cname = rets_[-1].value.id if rets_ else "contacts"
            marks = {u(st.targets[0]) for st in hit if isinstance(st, ast.Assign) and const(st.value) is True}
            rep.check(marks == {"%s[%s]" % (cname, fr), "%s[%s]" % (cname, f2)}, rule, f.key + "|marks both frames", f.where,
                      "a hit must mark contacts[frame] and contacts[frame2]; marks %s" % sorted(marks))
            init = [st for st in iter_stmts(outer[0].body) if isinstance(st, ast.Assign) and u(st.targets[0]) == "%s[%s]" % (cname, fr) and const(st.value) is False
                    and st not in list(iter_stmts(inner[0].body))]
            rep.check(len(init) == 1 and init[0].lineno < inner[0].lineno, rule, f.key + "|default False before the candidates", f.where,
                      "contacts[frame] must default to False before the candidate loop")
            # the candidate loop runs for every frame that is not decided yet: its guards inside the outer loop
            pm = parent_map(f.node)
            atoms = guard_chain(pm, inner[0], outer[0])
            want = "%sin%s" % (fr, cname)
            ok = all((u(t).replace(" ", "") == want and pol is False) or (u(t).replace(" ", "") == "%snotin%s" % (fr, cname) and pol is True) for t, pol in atoms)
            rep.check(ok, rule, f.key + "|skips only frames already decided", f.where,
                      "the candidates of a frame are tested only under %s; a frame may be skipped only because it is already in contacts" % [("" if pol else "not ") + u(t) for t, pol in atoms])
            rets = [st for st in f.node.body if isinstance(st, ast.Return)]
            rep.check(len(rets) == 1 and isinstance(rets[0].value, ast.Name), rule, f.key + "|returns contacts", f.where, "detect must return the contacts dict")
        else:
            # decided by running the function's control skeleton in two scenarios — the narrow phase never reports a hit / reports one at its first
            # evaluation — with every loop body executed once: `return True` inside the loops, a result flag with `break`s, or a sentinel all give
            # (False, True); only boolean locals, the narrow-phase test and the loop exits are interpreted
            narrow = tests[0].test

            def scenario(hit_value):
                env = {}

                class _Ret(Exception):
                    def __init__(self, v):
                        self.v = v

                class _Brk(Exception):
                    pass

                def truth(t):
                    if t is narrow or u(t) == u(narrow):
                        return hit_value
                    if isinstance(t, ast.Name):
                        return env.get(t.id)
                    if isinstance(t, ast.Constant):
                        return bool(t.value)
                    if isinstance(t, ast.UnaryOp) and isinstance(t.op, ast.Not):
                        v = truth(t.operand)
                        return None if v is None else (not v)
                    return None

                def run(stmts):
                    for st in stmts:
                        if isinstance(st, ast.Return):
                            raise _Ret(truth(st.value) if st.value is not None else None)
                        if isinstance(st, ast.Assign) and len(st.targets) == 1 and isinstance(st.targets[0], ast.Name):
                            env[st.targets[0].id] = truth(st.value)
                        elif isinstance(st, ast.If):
                            v = truth(st.test)
                            if v is None:
                                continue          # a filter that the scenario does not decide: its body does not run in the skeleton
                            run(st.body if v else st.orelse)
                        elif isinstance(st, (ast.For, ast.While)):
                            try:
                                run(st.body)
                            except _Brk:
                                pass
                        elif isinstance(st, ast.Break):
                            raise _Brk()
                try:
                    run(f.node.body)
                except _Ret as r:
                    return r.v
                return None
            rep.check(scenario(True) is True, rule, f.key + "|True on the first hit", f.where, "detect_any must return True at the first colliding pair")
            rep.check(scenario(False) is False, rule, f.key + "|False after all pairs", f.where,
                      "detect_any must return False only after all colliders and candidates were tested")
