"""R-SIDES: side purity of paired quantities.  In code that treats two bodies symmetrically, names come in pairs x1 / x2
(rigid_body1 / rigid_body2, X1 / X2, epsilon1 / epsilon2 ...).  A value bound to a side-k name (assignment target or callee
parameter) must be computed from side-k quantities only; a side-2 quantity flowing into a side-1 slot is the classic copy-paste
slip between symmetric lines.  Names ending in 12 / 21 (wrench12 ...) are pair quantities and are not checked."""
import ast
import re

from ..core.astutil import u, call_name

_SIDED = re.compile(r"^(.*?[A-Za-z_])([12])$")


def _side(name, universe):
    m = _SIDED.match(name)
    if not m or name[-2:] in ("12", "21") or re.search(r"\d[12]$", name):
        return None
    other = m.group(1) + ("2" if m.group(2) == "1" else "1")
    return (m.group(1), m.group(2)) if other in universe else None


def _sides_in(expr, universe):
    out = set()
    for n in ast.walk(expr):
        if isinstance(n, ast.Name):
            s = _side(n.id, universe)
            if s:
                out.add((n.id, s[1]))
    return out


def r_sides(idx, rep, modules, rule="R-SIDES", floor=10, assignments=True):
    rep.rule(rule, "side purity: a value assigned to / passed for a side-1 name (x1) is computed from side-1 quantities only, and likewise for "
                   "side 2; pairs are recognised by the presence of both x1 and x2 in the function (or in the callee's parameter list)", floor=floor)
    for mname in modules:
        m = idx.modules.get(mname)
        if m is None:
            continue
        for f in m.functions.values():
            names = {n.id for n in ast.walk(f.node) if isinstance(n, ast.Name)} | set(f.params())
            for st in ast.walk(f.node):
                # assignments
                if assignments and isinstance(st, ast.Assign) and len(st.targets) == 1:
                    tg = st.targets[0]
                    elts = tg.elts if isinstance(tg, ast.Tuple) else [tg]
                    vals = st.value.elts if isinstance(tg, ast.Tuple) and isinstance(st.value, ast.Tuple) and len(st.value.elts) == len(elts) else None
                    for i, t in enumerate(elts):
                        base = t
                        while isinstance(base, (ast.Subscript, ast.Attribute)):
                            base = base.value
                        if not isinstance(base, ast.Name):
                            continue
                        s = _side(base.id, names)
                        if s is None:
                            continue
                        v = vals[i] if vals is not None else (st.value if not isinstance(tg, ast.Tuple) else None)
                        if v is None:
                            continue
                        # one element of a library call's result (`point_to_disk(q, c1, r1, n1)[1]`) is judged like the tuple-unpack form `_, x = point_to_disk(..)`:
                        # by the call clause below (which side each ARGUMENT belongs to), not as an expression over names
                        pv = v
                        while isinstance(pv, ast.Subscript):
                            pv = pv.value
                        if pv is not v and isinstance(pv, ast.Call) and idx.resolve_call(m, pv, f.cls) is not None:
                            continue
                        used = _sides_in(v, names)
                        if not used:
                            continue
                        # a stem that occurs with BOTH sides is a coupled formula (t1 = (a12*b2 - b1)/det); a stem that occurs only with the other
                        # side is the slip
                        stems_ok = {_SIDED.match(n).group(1) for n, k in used if k == s[1]}
                        wrong = sorted(n for n, k in used if k != s[1] and _SIDED.match(n).group(1) not in stems_ok)
                        key = "%s|%s <- side %s only" % (f.key, base.id, s[1])
                        rep.check(not wrong, rule, key, "%s:%d" % (m.relpath, st.lineno),
                                  "`%s` computes the side-%s quantity `%s` from %s, which belong to the other side (copy-paste slip between the two symmetric lines)"
                                  % (u(st)[:100], s[1], base.id, wrong), "pure")
                # calls
                if isinstance(st, ast.Call):
                    callee = idx.resolve_call(m, st, f.cls)
                    if callee is None or not hasattr(callee, "params"):
                        continue
                    cps = [p for p in callee.params() if p != "self"]
                    cuni = set(cps)
                    binds = list(zip(cps, st.args)) + [(k.arg, k.value) for k in st.keywords if k.arg in cuni]
                    for p, a in binds:
                        if isinstance(a, ast.Starred):
                            break
                        s = _side(p, cuni)
                        if s is None:
                            continue
                        used = _sides_in(a, names)
                        if not used:
                            continue
                        ks = {k for _, k in used}
                        key = "%s|call %s(%s=...)" % (f.key, callee.name, p)
                        where = "%s:%d" % (m.relpath, st.lineno)
                        # the caller may consistently swap (f(x2, x1)): accept when ALL sided parameters of this call are bound to the opposite side
                        rep.check(len(ks) == 1, rule, key + " pure", where,
                                  "argument `%s` for parameter `%s` of %s mixes quantities of both sides (%s)" % (u(a)[:70], p, callee.name, sorted(n for n, _ in used)), "one side")
                    # consistency of the side mapping over the whole call
                    mp = {}
                    for p, a in binds:
                        if isinstance(a, ast.Starred):
                            break
                        s = _side(p, cuni)
                        ks = {k for _, k in _sides_in(a, names)}
                        if s is not None and len(ks) == 1:
                            mp.setdefault(s[1], set()).add(next(iter(ks)))
                    if mp:
                        consistent = all(len(v) == 1 for v in mp.values()) and (len(mp) < 2 or mp.get("1") != mp.get("2"))
                        rep.check(consistent, rule, "%s|call %s side mapping" % (f.key, callee.name), "%s:%d" % (m.relpath, st.lineno),
                                  "%s is called with an inconsistent assignment of the two sides to its paired parameters (%s): one of a pair of symmetric "
                                  "arguments was copied without switching the side" % (callee.name, {k: sorted(v) for k, v in mp.items()}), "consistent")
