"""C11 rules.

R-FEATURES    the candidate enumerations that the optimality arguments rest on are complete: 3 edges per triangle, 4 edges per
              rectangle, 6 faces per box, every rectangle vertex; loops over candidates are cut short only under `best <= epsilon`.
R-CLAMPCONVEX 'solve for the infinite line, then clamp the line parameter to the segment and re-query the end point' is only valid
              when the distance along the line is convex, i.e. when the OTHER primitive is convex (a circle is not).
"""
import ast

from ..core.peval import module_tables

from ..core.astutil import u, call_name, calls, iter_stmts, const, ncmp, parent_map, resolved
from ..core.index import AnalysisError, FuncInfo
from .roles import parse_name, DIST_MODS

CONVEX = {"point": True, "line": True, "line_segment": True, "plane": True, "triangle": True, "rectangle": True, "box": True, "disk": True,
          "ellipsoid": True, "cylinder": True, "circle": False}


def _loops(f):
    return [n for n in ast.walk(f.node) if isinstance(n, (ast.For, ast.While))]


def r_features(idx, rep, rule="R-FEATURES"):
    rep.rule(rule, "feature enumerations are complete (3 triangle edges via the i0/i1 wrap-around, 2x2 rectangle edges, 2x3 box faces, "
                   "all rectangle vertices) and candidate loops are left early only when the incumbent is <= epsilon", floor=8)
    n_tri = n_rect = n_box = 0
    for mname in DIST_MODS:
        m = idx.module(mname)
        for f in m.functions.values():
            pm = parent_map(f.node)
            body = list(iter_stmts(f.node.body))
            # ---- triangle edges: however they are enumerated (i0/i1 wrap-around while loop, `for i1 in range(3)` with a carried i0, a helper that
            #      returns the three vertex pairs), the enumeration is SIMULATED on its integer index state and must visit {2,0}, {0,1}, {1,2}
            for w in [n for n in ast.walk(f.node) if isinstance(n, (ast.While, ast.For))]:
                got = _edge_enumeration(idx, f, w, pm)
                if got is None:
                    continue
                arr, pairs, how = got
                n_tri += 1
                key = "%s|triangle edges loop@%d" % (f.key, sum(1 for x in ast.walk(f.node) if isinstance(x, (ast.While, ast.For)) and x.lineno <= w.lineno))
                where = "%s:%d" % (m.relpath, w.lineno)
                want = {frozenset((2, 0)), frozenset((0, 1)), frozenset((1, 2))}
                have = {frozenset(p_) for p_ in pairs}
                rep.check(have == want and len(pairs) == 3, rule, key, where,
                          "the edge enumeration over `%s` (%s) visits the vertex pairs %s; a triangle has the edges (2,0) (0,1) (1,2): otherwise an edge of the "
                          "triangle is never a candidate (or one is tested twice instead of another)" % (arr, how, pairs), "edges %s" % pairs)
                _early_exits(rep, rule, f, w, pm, key)
            # ---- rectangle edges: for i1 in range(2): for i0 in range(2): convert_rectangle_to_segment(c, ext, i0, i1)
            for c in calls(f.node, "convert_rectangle_to_segment"):
                if f.name == "convert_rectangle_to_segment":
                    continue
                n_rect += 1
                key = "%s|rectangle edges via %s" % (f.key, u(c)[:70])
                where = "%s:%d" % (m.relpath, c.lineno)
                loops_ = []
                p = pm.get(c)
                while p is not None:
                    if isinstance(p, ast.For):
                        loops_.append(p)
                    p = pm.get(p)
                a = [u(x) for x in c.args]
                ok = len(a) == 4 and len(loops_) >= 2
                if ok:
                    inner, outer = loops_[0], loops_[1]
                    rng = lambda l: isinstance(l.iter, ast.Call) and call_name(l.iter) == "range" and [const(x) for x in l.iter.args] == [2]
                    ok = rng(inner) and rng(outer) and {u(inner.target), u(outer.target)} == {a[2], a[3]} and u(inner.target) != u(outer.target)
                rep.check(ok, rule, key, where,
                          "the four edges of a rectangle are enumerated by two nested `range(2)` loops whose variables are passed as (i0, i1); found %s" % a,
                          "2 x 2 edges")
                if len(loops_) >= 2:
                    _early_exits(rep, rule, f, loops_[1], pm, key)
            # ---- box faces
            for c in calls(f.node, "convert_box_to_face"):
                if f.name == "convert_box_to_face":
                    continue
                n_box += 1
                key = "%s|box faces via %s" % (f.key, u(c)[:60])
                where = "%s:%d" % (m.relpath, c.lineno)
                loops_ = []
                p = pm.get(c)
                while p is not None:
                    if isinstance(p, ast.For):
                        loops_.append(p)
                    p = pm.get(p)
                a = [u(x) for x in c.args]
                ok = len(a) == 4 and len(loops_) >= 2
                if ok:
                    by = {u(l.target): l for l in loops_}
                    li, ls = by.get(a[2]), by.get(a[3])
                    ok = li is not None and ls is not None and isinstance(li.iter, ast.Call) and call_name(li.iter) == "range" and [const(x) for x in li.iter.args] == [3] \
                        and isinstance(ls.iter, (ast.List, ast.Tuple)) and sorted(const(e) for e in ls.iter.elts) == [-1, 1]
                rep.check(ok, rule, key, where, "the six faces of a box are (sign in [-1, 1]) x (axis in range(3)); found loops over %s with arguments %s" % (
                    [u(l.iter) for l in loops_], a), "2 x 3 faces")
                if len(loops_) >= 2:
                    _early_exits(rep, rule, f, loops_[-1], pm, key)
    # ---- all rectangle vertices tested against the box
    # the function is found by what it does (turns the rectangle into vertices and measures points against the box), not by its private name
    bm = idx.module("distance3d.distance._box")
    cands = [g for g in bm.functions.values() if calls(g.node, "convert_rectangle_to_vertices") and calls(g.node, "point_to_box")]
    if not cands:
        rep.unknown(rule, "distance3d.distance._box|all rectangle vertices", bm.relpath, "no function of _box converts the rectangle to vertices and measures them against the box")
    for f in cands[:1]:
        fors = [n for n in ast.walk(f.node) if isinstance(n, ast.For)]
        pts = [st.targets[0].id for st in iter_stmts(f.node.body) if isinstance(st, ast.Assign) and isinstance(st.targets[0], ast.Name)
               and isinstance(st.value, ast.Call) and (call_name(st.value) or "").endswith("convert_rectangle_to_vertices")]
        pn_ = pts[0] if pts else "rectangle_points"
        ok = len(fors) == 1 and u(fors[0].iter).replace(" ", "") in ("range(len(%s))" % pn_, pn_, "enumerate(%s)" % pn_, "range(4)")
        rep.check(ok, rule, "distance3d.distance._box|all rectangle vertices", f.where, "every vertex of the rectangle must be tested against the box")
    if n_tri < 2 or n_rect < 2 or n_box < 1:
        rep.error("R-FEATURES: expected >= 4 triangle-edge loops, >= 4 rectangle-edge sites and 1 box-face site; found %d / %d / %d" % (n_tri, n_rect, n_box))


def _edge_enumeration(idx, f, loop, pm):
    """(array text, [(i, j) vertex index pairs in visiting order], description) when the loop enumerates pairs of rows of ONE 3-row array; else None"""
    # (B) for a, b in helper(X): helper returns a literal of pairs, each element resolving to <param>[k]
    if isinstance(loop, ast.For) and isinstance(loop.iter, ast.Call) and isinstance(loop.target, ast.Tuple) and len(loop.target.elts) == 2:
        callee = idx.resolve_call(f.module, loop.iter, None)
        fn = getattr(callee, "node", None)
        if isinstance(fn, ast.FunctionDef) and len(loop.iter.args) == 1:
            rets = [st for st in ast.walk(fn) if isinstance(st, ast.Return) and isinstance(st.value, (ast.Tuple, ast.List))]
            if len(rets) == 1:
                par = fn.args.args[0].arg
                defs = {}
                for st in fn.body:
                    if isinstance(st, ast.Assign):
                        tg, val = st.targets[0], st.value
                        if isinstance(tg, ast.Tuple) and isinstance(val, ast.Tuple) and len(tg.elts) == len(val.elts):
                            for t_, v_ in zip(tg.elts, val.elts):
                                defs[u(t_)] = v_
                        elif isinstance(tg, ast.Name):
                            defs[tg.id] = val

                def row(e):
                    e = defs.get(u(e), e) if isinstance(e, ast.Name) else e
                    if isinstance(e, ast.Subscript) and u(e.value) == par and isinstance(const(e.slice), int):
                        return const(e.slice)
                    return None
                pairs = []
                for el in rets[0].value.elts:
                    if isinstance(el, (ast.Tuple, ast.List)) and len(el.elts) == 2:
                        pairs.append((row(el.elts[0]), row(el.elts[1])))
                if pairs and all(p_[0] is not None and p_[1] is not None for p_ in pairs):
                    return u(loop.iter.args[0]), pairs, "pairs returned by %s" % callee.name
        return None
    # (C) for i, j in TABLE: a module-level (or local) literal table of index pairs, both names index one array in the body
    if isinstance(loop, ast.For) and isinstance(loop.target, ast.Tuple) and len(loop.target.elts) == 2 and all(isinstance(e, ast.Name) for e in loop.target.elts):
        tab = loop.iter
        if isinstance(tab, ast.Name):
            tab = module_tables(f.module).get(tab.id) or resolved(f.node, tab)
        if isinstance(tab, (ast.Tuple, ast.List)) and tab.elts and all(isinstance(e, (ast.Tuple, ast.List)) and len(e.elts) == 2 and all(isinstance(const(x), int) for x in e.elts) for e in tab.elts):
            names = {e.id for e in loop.target.elts}
            arrs = {}
            for n in ast.walk(loop):
                if isinstance(n, ast.Subscript) and isinstance(n.slice, ast.Name) and n.slice.id in names and isinstance(n.ctx, ast.Load):
                    arrs.setdefault(u(n.value), set()).add(n.slice.id)
            full = [a_ for a_, ns in arrs.items() if ns == names]
            if len(full) == 1:
                return full[0], [(const(e.elts[0]), const(e.elts[1])) for e in tab.elts], "index pairs of the table %s" % u(loop.iter)
        return None
    # (A) index-state loops: simulate the integer variables
    state = {}
    blk = None
    par = pm.get(loop)
    for fld in ("body", "orelse"):
        b = getattr(par, fld, None)
        if isinstance(b, list) and loop in b:
            blk = b
    for st in (blk[:blk.index(loop)] if blk else []):
        if isinstance(st, ast.Assign) and len(st.targets) == 1 and isinstance(st.targets[0], ast.Name) and isinstance(const(st.value), int):
            state[st.targets[0].id] = const(st.value)
    idxnames = {}
    for n in ast.walk(loop):
        if isinstance(n, ast.Subscript) and isinstance(n.slice, ast.Name) and isinstance(n.ctx, ast.Load):
            idxnames.setdefault(u(n.value), set()).add(n.slice.id)
    cands = [(a_, names) for a_, names in idxnames.items() if len(names) == 2]
    if len(cands) != 1:
        return None
    arr, names = cands[0]
    if isinstance(loop, ast.For):
        if not (isinstance(loop.iter, ast.Call) and call_name(loop.iter) == "range" and len(loop.iter.args) == 1 and isinstance(const(loop.iter.args[0]), int)
                and isinstance(loop.target, ast.Name) and loop.target.id in names):
            return None
        lv, n_iter = loop.target.id, const(loop.iter.args[0])
        other = next(iter(names - {lv}))
        if other not in state or n_iter > 8:
            return None
    else:
        t = ncmp(loop.test)
        if not (t and t[0] in ("<", "<=") and isinstance(t[1], ast.Name) and t[1].id in names and isinstance(const(t[2]), int)):
            return None
        lv = t[1].id
        if not names <= set(state):
            return None
    order = sorted(names, key=lambda x: 0 if x != lv else 1)      # (companion, loop variable): start vertex, end vertex as used by the callers
    first = None
    for n in ast.walk(loop):
        if isinstance(n, ast.Subscript) and isinstance(n.slice, ast.Name) and n.slice.id in names and u(n.value) == arr:
            first = n.slice.id if first is None else first
    pairs = []
    it = 0
    while it < 8:
        if isinstance(loop, ast.For):
            if it >= n_iter:
                break
            state[lv] = it
        else:
            op, _, bnd = ncmp(loop.test)
            if not (state[lv] < const(bnd) if op == "<" else state[lv] <= const(bnd)):
                break
        pairs.append((state[order[0]], state[order[1]]))
        for st in loop.body:
            if isinstance(st, ast.Assign) and len(st.targets) == 1 and isinstance(st.targets[0], ast.Name) and st.targets[0].id in names:
                v = st.value
                if isinstance(v, ast.Name) and v.id in state:
                    state[st.targets[0].id] = state[v.id]
                elif isinstance(const(v), int):
                    state[st.targets[0].id] = const(v)
                else:
                    return None
            elif isinstance(st, ast.AugAssign) and isinstance(st.target, ast.Name) and st.target.id in names and isinstance(const(st.value), int):
                state[st.target.id] += const(st.value) * (1 if isinstance(st.op, ast.Add) else -1 if isinstance(st.op, ast.Sub) else 0)
        it += 1
    if it >= 8:
        return None
    return arr, pairs, "index state (%s, %s)" % tuple(order)


def _early_exits(rep, rule, f, loop, pm, key):
    for st in iter_stmts(loop.body):
        if not isinstance(st, (ast.Break, ast.Return)):
            continue
        # an exit at the end of the function after the loop is not inside it
        guard = pm.get(st)
        while guard is not None and not isinstance(guard, (ast.If, ast.For, ast.While)):
            guard = pm.get(guard)
        ok = False
        txt = "unguarded"
        if isinstance(guard, ast.If):
            t = ncmp(guard.test)
            txt = u(guard.test)
            lhs = t[1] if t else None
            is_dist = isinstance(lhs, ast.Name) and "dist" in lhs.id
            if t and isinstance(lhs, ast.Subscript) and const(lhs.slice) == 0 and isinstance(lhs.value, ast.Name):
                # element 0 of a candidate tuple that was bound to a distance query (`candidate = x_to_y(...)`; `candidate[0]` is its distance)
                src = resolved(f.node, lhs.value)
                callee = src if isinstance(src, ast.Call) else None
                is_dist = callee is not None and parse_name((call_name(callee) or "").split(".")[-1]) is not None
            if t and t[0] in ("<=", "<") and is_dist and (u(t[2]) == "epsilon" or isinstance(const(t[2]), float)):
                ok = True
        rep.check(ok, rule, key + " early exit@%s" % type(st).__name__, "%s:%d" % (f.module.relpath, st.lineno),
                  "the candidate loop is left by a %s guarded by `%s`; only `dist <= epsilon` (a zero distance cannot be improved) may cut the enumeration short"
                  % (type(st).__name__.lower(), txt), "only when the incumbent is <= epsilon")


def r_clampconvex(idx, rep, rule="R-CLAMPCONVEX"):
    rep.rule(rule, "the 'infinite line first, then clamp the line parameter and re-query the end point' idiom is used only against "
                   "convex primitives (the distance along a line is convex only then)", floor=4)
    for mname in DIST_MODS:
        m = idx.module(mname)
        for f in m.functions.values():
            pn = parse_name(f.name)
            if pn is None or pn[0] != "line_segment":
                continue
            if not calls(f.node, "convert_segment_to_line"):
                continue
            line_calls = [c for c in calls(f.node) if isinstance(idx.resolve_call(m, c, None), FuncInfo)
                          and (parse_name(idx.resolve_call(m, c, None).name) or ("", ""))[0] == "line"]
            requery = [c for c in calls(f.node) if isinstance(idx.resolve_call(m, c, None), FuncInfo)
                       and (parse_name(idx.resolve_call(m, c, None).name) or ("", ""))[0] == "point"]
            if not line_calls or not requery:
                continue
            key = "%s|clamp to the end points against a %s" % (f.key, pn[1])
            where = f.where
            # the two re-queries use the two end points under t < 0 / t > length
            ends = set()
            ps = f.params()
            for c in requery:
                a0 = u(c.args[0])
                if a0 in ps[:2]:
                    ends.add(a0)
                else:
                    # a local that is assigned from the end points
                    for st in iter_stmts(f.node.body):
                        if isinstance(st, ast.Assign) and u(st.targets[0]) == a0 and u(st.value) in ps[:2]:
                            ends.add(u(st.value))
            rep.check(ends == set(ps[:2]), rule, key + " re-queries both end points", where,
                      "the clamp must re-query exactly the two end points %s; re-queries %s" % (ps[:2], sorted(ends)))
            conv = CONVEX.get(pn[1])
            rep.check(bool(conv), rule, key, where,
                      "%s solves the infinite line against the %s and then clamps the line parameter to the segment, re-querying the nearer end "
                      "point. That is only valid when the distance along the line is convex, i.e. for a CONVEX second primitive; a %s is a curve, not "
                      "a convex set, so the true minimum can lie at an interior point of the segment that is not the line's critical point"
                      % (f.name, pn[1], pn[1]), "%s is convex" % pn[1])
