"""C11 rules.

R-FEATURES    the candidate enumerations that the optimality arguments rest on are complete: 3 edges per triangle, 4 edges per
              rectangle, 6 faces per box, every rectangle vertex; loops over candidates are cut short only under `best <= epsilon`.
R-CLAMPCONVEX 'solve for the infinite line, then clamp the line parameter to the segment and re-query the end point' is only valid
              when the distance along the line is convex, i.e. when the OTHER primitive is convex (a circle is not).
"""
import ast

from ..core.astutil import u, call_name, calls, iter_stmts, const, ncmp, parent_map
from ..core.index import AnalysisError, FuncInfo
from .roles import parse_name, DIST_MODS

CONVEX = {"point": True, "line": True, "line_segment": True, "plane": True, "triangle": True, "rectangle": True, "box": True, "disk": True,
          "ellipsoid": True, "cylinder": True, "circle": False}


def _loops(f):
    return [n for n in ast.walk(f.node) if isinstance(n, (ast.For, ast.While))]


def r_features(idx, rep, rule="R-FEATURES"):
    rep.rule(rule, "feature enumerations are complete (3 triangle edges via the i0/i1 wrap-around, 2x2 rectangle edges, 2x3 box faces, "
                   "all rectangle vertices) and candidate loops are left early only when the incumbent is <= epsilon", floor=12)
    n_tri = n_rect = n_box = 0
    for mname in DIST_MODS:
        m = idx.module(mname)
        for f in m.functions.values():
            pm = parent_map(f.node)
            body = list(iter_stmts(f.node.body))
            # ---- triangle edges:  i0 = 2; i1 = 0; while i1 < 3: ... X[i0], X[i1] ...; i0 = i1; i1 += 1
            for w in [n for n in ast.walk(f.node) if isinstance(n, ast.While)]:
                t = ncmp(w.test)
                if not (t and t[0] in ("<", "<=") and isinstance(t[1], ast.Name) and isinstance(const(t[2]), int)):
                    continue
                i1 = t[1].id
                # an edge loop indexes one array with the loop index and a companion index
                idxnames = {}
                for n in ast.walk(w):
                    if isinstance(n, ast.Subscript) and isinstance(n.slice, ast.Name):
                        idxnames.setdefault(u(n.value), set()).add(n.slice.id)
                comps = {x for names in idxnames.values() if i1 in names for x in names if x != i1}
                if len(comps) != 1:
                    continue
                i0 = comps.pop()
                comp = [st for st in w.body if isinstance(st, ast.Assign) and isinstance(st.targets[0], ast.Name) and st.targets[0].id == i0 and u(st.value) == i1]
                bound_ok = t[0] == "<" and const(t[2]) == 3
                n_tri += 1
                key = "%s|triangle edges loop@%d" % (f.key, sum(1 for x in ast.walk(f.node) if isinstance(x, ast.While) and x.lineno <= w.lineno))
                where = "%s:%d" % (m.relpath, w.lineno)
                blk = None
                par = pm.get(w)
                for fld in ("body", "orelse"):
                    b = getattr(par, fld, None)
                    if isinstance(b, list) and w in b:
                        blk = b
                before = blk[:blk.index(w)] if blk else []
                init0 = [st for st in before if isinstance(st, ast.Assign) and u(st.targets[0]) == i0]
                init1 = [st for st in before if isinstance(st, ast.Assign) and u(st.targets[0]) == i1]
                inc = [st for st in w.body if isinstance(st, ast.AugAssign) and u(st.target) == i1 and isinstance(st.op, ast.Add) and const(st.value) == 1]
                ok = bound_ok and bool(comp) and bool(init0) and const(init0[-1].value) == 2 and bool(init1) and const(init1[-1].value) == 0 and len(inc) == 1 \
                    and w.body.index(comp[0]) < w.body.index(inc[0])
                used = set()
                for n in ast.walk(w):
                    if isinstance(n, ast.Subscript) and isinstance(n.slice, ast.Name) and n.slice.id in (i0, i1):
                        used.add((u(n.value), n.slice.id))
                arrs = {a for a, _ in used}
                pair_ok = any({(a, i0), (a, i1)} <= used for a in arrs)
                rep.check(ok and pair_ok, rule, key, where,
                          "the edge loop must start with (%s, %s) = (2, 0), use vertices [%s] and [%s] of one triangle, then set %s = %s and %s += 1 up to 3: "
                          "otherwise an edge of the triangle is never a candidate" % (i0, i1, i0, i1, i0, i1, i1), "edges (2,0) (0,1) (1,2)")
                _early_exits(rep, rule, f, w, pm, key)
            # ---- rectangle edges: for i1 in range(2): for i0 in range(2): convert_rectangle_to_segment(c, ext, i0, i1)
            for c in calls(f.node, "convert_rectangle_to_segment"):
                if f.name == "convert_rectangle_to_segment":
                    continue
                n_rect += 1
                key = "%s|rectangle edges via %s" % (f.key, u(c)[:70])
                where = "%s:%d" % (m.relpath, c.lineno)
                loops_ = []
                p = pm.get(c)
                while p is not None:
                    if isinstance(p, ast.For):
                        loops_.append(p)
                    p = pm.get(p)
                a = [u(x) for x in c.args]
                ok = len(a) == 4 and len(loops_) >= 2
                if ok:
                    inner, outer = loops_[0], loops_[1]
                    rng = lambda l: isinstance(l.iter, ast.Call) and call_name(l.iter) == "range" and [const(x) for x in l.iter.args] == [2]
                    ok = rng(inner) and rng(outer) and {u(inner.target), u(outer.target)} == {a[2], a[3]} and u(inner.target) != u(outer.target)
                rep.check(ok, rule, key, where,
                          "the four edges of a rectangle are enumerated by two nested `range(2)` loops whose variables are passed as (i0, i1); found %s" % a,
                          "2 x 2 edges")
                if len(loops_) >= 2:
                    _early_exits(rep, rule, f, loops_[1], pm, key)
            # ---- box faces
            for c in calls(f.node, "convert_box_to_face"):
                if f.name == "convert_box_to_face":
                    continue
                n_box += 1
                key = "%s|box faces via %s" % (f.key, u(c)[:60])
                where = "%s:%d" % (m.relpath, c.lineno)
                loops_ = []
                p = pm.get(c)
                while p is not None:
                    if isinstance(p, ast.For):
                        loops_.append(p)
                    p = pm.get(p)
                a = [u(x) for x in c.args]
                ok = len(a) == 4 and len(loops_) >= 2
                if ok:
                    by = {u(l.target): l for l in loops_}
                    li, ls = by.get(a[2]), by.get(a[3])
                    ok = li is not None and ls is not None and isinstance(li.iter, ast.Call) and call_name(li.iter) == "range" and [const(x) for x in li.iter.args] == [3] \
                        and isinstance(ls.iter, (ast.List, ast.Tuple)) and sorted(const(e) for e in ls.iter.elts) == [-1, 1]
                rep.check(ok, rule, key, where, "the six faces of a box are (sign in [-1, 1]) x (axis in range(3)); found loops over %s with arguments %s" % (
                    [u(l.iter) for l in loops_], a), "2 x 3 faces")
                if len(loops_) >= 2:
                    _early_exits(rep, rule, f, loops_[-1], pm, key)
    # ---- all rectangle vertices tested against the box
    f = idx.func("distance3d.distance._box::_rectangle_points_in_box")
    fors = [n for n in ast.walk(f.node) if isinstance(n, ast.For)]
    pts = [st.targets[0].id for st in iter_stmts(f.node.body) if isinstance(st, ast.Assign) and isinstance(st.targets[0], ast.Name)
           and isinstance(st.value, ast.Call) and (call_name(st.value) or "").endswith("convert_rectangle_to_vertices")]
    pn_ = pts[0] if pts else "rectangle_points"
    ok = len(fors) == 1 and u(fors[0].iter).replace(" ", "") in ("range(len(%s))" % pn_, pn_, "enumerate(%s)" % pn_)
    rep.check(ok, rule, f.key + "|all rectangle vertices", f.where, "every vertex of the rectangle must be tested against the box")
    if n_tri < 4 or n_rect < 4 or n_box < 1:
        rep.error("R-FEATURES: expected >= 4 triangle-edge loops, >= 4 rectangle-edge sites and 1 box-face site; found %d / %d / %d" % (n_tri, n_rect, n_box))


def _early_exits(rep, rule, f, loop, pm, key):
    for st in iter_stmts(loop.body):
        if not isinstance(st, (ast.Break, ast.Return)):
            continue
        # an exit at the end of the function after the loop is not inside it
        guard = pm.get(st)
        while guard is not None and not isinstance(guard, (ast.If, ast.For, ast.While)):
            guard = pm.get(guard)
        ok = False
        txt = "unguarded"
        if isinstance(guard, ast.If):
            t = ncmp(guard.test)
            txt = u(guard.test)
            if t and t[0] in ("<=", "<") and isinstance(t[1], ast.Name) and ("dist" in t[1].id) and (u(t[2]) == "epsilon" or isinstance(const(t[2]), float)):
                ok = True
        rep.check(ok, rule, key + " early exit@%s" % type(st).__name__, "%s:%d" % (f.module.relpath, st.lineno),
                  "the candidate loop is left by a %s guarded by `%s`; only `dist <= epsilon` (a zero distance cannot be improved) may cut the enumeration short"
                  % (type(st).__name__.lower(), txt), "only when the incumbent is <= epsilon")


def r_clampconvex(idx, rep, rule="R-CLAMPCONVEX"):
    rep.rule(rule, "the 'infinite line first, then clamp the line parameter and re-query the end point' idiom is used only against "
                   "convex primitives (the distance along a line is convex only then)", floor=4)
    for mname in DIST_MODS:
        m = idx.module(mname)
        for f in m.functions.values():
            pn = parse_name(f.name)
            if pn is None or pn[0] != "line_segment":
                continue
            if not calls(f.node, "convert_segment_to_line"):
                continue
            line_calls = [c for c in calls(f.node) if isinstance(idx.resolve_call(m, c, None), FuncInfo)
                          and (parse_name(idx.resolve_call(m, c, None).name) or ("", ""))[0] == "line"]
            requery = [c for c in calls(f.node) if isinstance(idx.resolve_call(m, c, None), FuncInfo)
                       and (parse_name(idx.resolve_call(m, c, None).name) or ("", ""))[0] == "point"]
            if not line_calls or not requery:
                continue
            key = "%s|clamp to the end points against a %s" % (f.key, pn[1])
            where = f.where
            # the two re-queries use the two end points under t < 0 / t > length
            ends = set()
            ps = f.params()
            for c in requery:
                a0 = u(c.args[0])
                if a0 in ps[:2]:
                    ends.add(a0)
                else:
                    # a local that is assigned from the end points
                    for st in iter_stmts(f.node.body):
                        if isinstance(st, ast.Assign) and u(st.targets[0]) == a0 and u(st.value) in ps[:2]:
                            ends.add(u(st.value))
            rep.check(ends == set(ps[:2]), rule, key + " re-queries both end points", where,
                      "the clamp must re-query exactly the two end points %s; re-queries %s" % (ps[:2], sorted(ends)))
            conv = CONVEX.get(pn[1])
            rep.check(bool(conv), rule, key, where,
                      "%s solves the infinite line against the %s and then clamps the line parameter to the segment, re-querying the nearer end "
                      "point. That is only valid when the distance along the line is convex, i.e. for a CONVEX second primitive; a %s is a curve, not "
                      "a convex set, so the true minimum can lie at an interior point of the segment that is not the line's critical point"
                      % (f.name, pn[1], pn[1]), "%s is convex" % pn[1])
