"""R-MIRROR: case trees produced by a symmetric case analysis keep their mirror symmetry — the else-branch of the top-level
decision is the image of the if-branch under the index swap (i0<->i1 in _case_0; i1<->i2 in _box_face), including the
suffixes of the local names (edge0<->edge1, prod0<->prod1).  A one-sided edit (an index swapped in one half only) breaks it."""
import ast
import re

from ..core.astutil import u, ncmp
from ..core.index import AnalysisError

LB = "distance3d.distance._line_to_box"


def _swap(txt, a, b):
    """swap index parameters a<->b and the digit suffixes of local names that end in the same digits"""
    da, db = a[-1], b[-1]
    def repl(m):
        w = m.group(0)
        if w == a:
            return b
        if w == b:
            return a
        if re.fullmatch(r"[a-z_]+[a-z_]" + da, w) and not re.fullmatch(r"i\d", w):
            return w[:-1] + db
        if re.fullmatch(r"[a-z_]+[a-z_]" + db, w) and not re.fullmatch(r"i\d", w):
            return w[:-1] + da
        return w
    return re.sub(r"[A-Za-z_][A-Za-z_0-9]*", repl, txt)


def _norm_commutative(txt):
    """canonical operand order for commutative + and * (n-ary chains flattened and sorted), so that `a*x + b*y` == `b*y + a*x`"""
    try:
        tree = ast.parse(txt)
    except SyntaxError:
        return txt

    def flat(node, op):
        if isinstance(node, ast.BinOp) and isinstance(node.op, op):
            return flat(node.left, op) + flat(node.right, op)
        return [node]

    class T(ast.NodeTransformer):
        def visit_BinOp(self, node):
            if isinstance(node.op, (ast.Add, ast.Mult)):
                op = type(node.op)
                parts = [self.visit(p) for p in flat(node, op)]
                parts.sort(key=ast.unparse)
                out = parts[0]
                for p_ in parts[1:]:
                    out = ast.BinOp(left=out, op=op(), right=p_)
                return out
            self.generic_visit(node)
            return node
    return ast.unparse(ast.fix_missing_locations(T().visit(tree)))


def r_mirror(idx, rep, rule="R-MIRROR"):
    rep.rule(rule, "symmetric case trees stay symmetric: the else-branch of the top decision equals the if-branch under the index "
                   "swap of the mirrored axes (a one-sided index edit is a transcription error)", floor=1)
    for fname, a, b in (("_case_0", "i0", "i1"),):
        f = idx.func(LB + "::" + fname)
        tops = [st for st in f.node.body if isinstance(st, ast.If) and st.orelse]
        if not tops:
            raise AnalysisError("%s: top-level if/else not found" % fname)
        st = tops[0]
        body = _norm_commutative("\n".join(ast.unparse(s) for s in st.body))
        other = _norm_commutative(_swap("\n".join(ast.unparse(s) for s in st.orelse), a, b))
        key = "%s|else-branch == if-branch under %s<->%s" % (f.key, a, b)
        where = "%s:%d" % (f.module.relpath, st.lineno)
        if body == other:
            rep.ok(rule, key, where, "%d statements mirror each other" % len(st.body))
        else:
            la, lb = body.splitlines(), other.splitlines()
            diff = next(((x, y) for x, y in zip(la, lb) if x != y), (la[-1] if la else "", lb[-1] if lb else ""))
            rep.bad(rule, key, where,
                    "the two halves of %s are no longer mirror images under %s<->%s: the if-branch has `%s` where the mirrored else-branch "
                    "has `%s`; one half was edited without its twin (index transcription error in a rarely taken case)" % (fname, a, b, diff[0], diff[1]))
        # the decision itself compares the two mirrored products
        t = ncmp(st.test)
        ok = t is not None and _swap(u(t[1]), a, b) == u(t[2]) or (t is not None and _swap(u(t[2]), a, b) == u(t[1]))
        rep.check(bool(ok), rule, "%s|decision compares mirrored quantities" % f.key, where, "the top decision `%s` does not compare two mirrored quantities" % u(st.test))


# ------------------------------------------------------------------------------------------------ case dispatch
def _axis_of(node, vec):
    """direction_in_box[k] -> k (int constant) when node subscripts the vector named vec"""
    if isinstance(node, ast.Subscript) and isinstance(node.value, ast.Name) and node.value.id == vec:
        try:
            k = ast.literal_eval(node.slice)
        except Exception:
            return None
        return k if isinstance(k, int) else None
    return None


def _index_roles(f, dirparam):
    """index parameters of a case function: 'moving' when direction[ix] is read, 'static' otherwise"""
    params = f.params()
    roles = {}
    used_as_index = set()
    # index lists built from the parameters (`other_axes = [i1, i2]; x[other_axes]`) index with each of their elements
    lists = {}
    for st in ast.walk(f.node):
        if isinstance(st, ast.Assign) and len(st.targets) == 1 and isinstance(st.targets[0], ast.Name) and isinstance(st.value, (ast.List, ast.Tuple)) \
                and st.value.elts and all(isinstance(e, ast.Name) and e.id in params for e in st.value.elts):
            lists[st.targets[0].id] = [e.id for e in st.value.elts]
    for n in ast.walk(f.node):
        if isinstance(n, ast.Subscript):
            for m in ast.walk(n.slice):
                ids = [m.id] if (isinstance(m, ast.Name) and m.id in params) else (lists.get(m.id, []) if isinstance(m, ast.Name) else [])
                for pid in ids:
                    used_as_index.add(pid)
                    if isinstance(n.value, ast.Name) and n.value.id == dirparam:
                        roles[pid] = "moving"
    for p in used_as_index:
        roles.setdefault(p, "static")
    return roles


def r_casedispatch(idx, rep, rule="R-CASEDISPATCH"):
    rep.rule(rule, "_line_to_box dispatches on the sign pattern of the (reflected, hence non-negative) direction: on every one of the 8 "
                   "patterns the case function receives the axes with a positive component as the indices it moves along (it divides by "
                   "them) and the axes with a zero component as the indices it only clamps; truth table over the three tests", floor=8)
    import itertools
    f = idx.func(LB + "::_line_to_box")
    # the direction vector: the local compared with 0 in the top-level decision
    tops = [st for st in f.node.body if isinstance(st, ast.If)]
    if not tops:
        raise AnalysisError("_line_to_box: decision tree not found")
    top = tops[-1]
    t = ncmp(top.test)
    if t is None or not isinstance(t[2], ast.Subscript) or not isinstance(t[2].value, ast.Name):
        raise AnalysisError("_line_to_box: top decision `%s` is not `0 < direction[k]`" % u(top.test))
    dvec = t[2].value.id
    m = idx.module(LB)

    def atom(test):
        t = ncmp(test)
        if t is None or t[0] != "<":
            return None
        k = _axis_of(t[2], dvec)
        if k is None or ast.unparse(t[1]) not in ("0.0", "0"):
            return None
        return k

    for bits in itertools.product([True, False], repeat=3):
        reached = []

        def run(body, path):
            for st in body:
                if isinstance(st, ast.If):
                    k = atom(st.test)
                    if k is None:
                        raise AnalysisError("_line_to_box: test `%s` is not `direction[k] > 0`" % u(st.test))
                    run(st.body if bits[k] else st.orelse, path + [k])
                else:
                    for c in ast.walk(st):
                        if isinstance(c, ast.Call) and isinstance(c.func, ast.Name) and c.func.id in m.functions and c.func.id.startswith("_case"):
                            reached.append((c, set(path)))
        run([top], [])
        pat = "(%s)" % ",".join("+" if b else "0" for b in bits)
        key = "%s|pattern %s" % (f.key, pat)
        where = "%s:%d" % (m.relpath, top.lineno)
        if len(reached) != 1:
            rep.bad(rule, key, where, "sign pattern %s reaches %d case calls (expected exactly one)" % (pat, len(reached)))
            continue
        call, tested = reached[0]
        P = {k for k in range(3) if bits[k]}
        Z = {k for k in range(3) if not bits[k]}
        if tested != {0, 1, 2}:
            rep.bad(rule, key, where, "pattern %s reaches %s after testing only the axes %s" % (pat, call.func.id, sorted(tested)))
            continue
        callee = m.functions[call.func.id]
        cparams = callee.params()
        dirparam = None
        for a, p in zip(call.args, cparams):
            if isinstance(a, ast.Name) and a.id == dvec:
                dirparam = p
        roles = _index_roles(callee, dirparam) if dirparam else {}
        moving, static = set(), set()
        ok_const = True
        for a, p in zip(call.args, cparams):
            if p in roles:
                try:
                    v = ast.literal_eval(a)
                except Exception:
                    ok_const = False
                    continue
                (moving if roles[p] == "moving" else static).add(v)
        if not ok_const:
            rep.unknown(rule, key, where, "index arguments of %s are not literals" % call.func.id)
            continue
        if not roles:
            # no index parameters: the callee treats all three axes alike
            all_moving = dirparam is not None
            good = (P == {0, 1, 2}) if all_moving else (Z == {0, 1, 2})
            rep.check(good, rule, key, where,
                      "pattern %s is handled by %s, which %s" % (pat, call.func.id, "divides by all three direction components (needs (+,+,+))" if all_moving
                                                                 else "ignores the direction (needs (0,0,0))"),
                      "%s" % call.func.id)
            continue
        rep.check(moving == P and static == Z, rule, key, where,
                  "pattern %s calls %s with moving axes %s and clamped axes %s, but the positive components are %s and the zero components %s: "
                  "the callee divides by a zero component or ignores the line's motion along a positive one"
                  % (pat, u(call)[:60], sorted(moving), sorted(static), sorted(P), sorted(Z)),
                  "%s moving=%s clamped=%s" % (call.func.id, sorted(moving), sorted(static)))


def r_tournament(idx, rep, rule="R-TOURNAMENT"):
    rep.rule(rule, "_case_no_zeros picks the box face the line leaves through by pairwise comparisons d[j]*pme[i] >= d[i]*pme[j] "
                   "('axis i before axis j'): on every path the face handed to _box_face is the one axis that won all its comparisons, "
                   "every comparison is the antisymmetric pair of products, and the three indices are a permutation", floor=4)
    f = idx.func(LB + "::_case_no_zeros")
    m = idx.module(LB)
    params = f.params()
    # products: name -> (direction axis, pme axis)
    prods = {}
    pme = None
    for st in ast.walk(f.node):
        if isinstance(st, ast.Assign) and len(st.targets) == 1 and isinstance(st.targets[0], ast.Name):
            v = st.value
            if isinstance(v, ast.BinOp) and isinstance(v.op, ast.Sub) and all(isinstance(x, ast.Name) and x.id in params for x in (v.left, v.right)):
                pme = st.targets[0].id          # point_m_edge = point_in_box - box_half_size
    dirp = None
    for st in ast.walk(f.node):
        if isinstance(st, ast.Assign) and len(st.targets) == 1 and isinstance(st.targets[0], ast.Name) and isinstance(st.value, ast.BinOp) \
                and isinstance(st.value.op, ast.Mult):
            l, r = st.value.left, st.value.right
            for a, b in ((l, r), (r, l)):
                if isinstance(a, ast.Subscript) and isinstance(b, ast.Subscript) and isinstance(a.value, ast.Name) and isinstance(b.value, ast.Name) \
                        and a.value.id in params and b.value.id == pme:
                    try:
                        prods[st.targets[0].id] = (ast.literal_eval(a.slice), ast.literal_eval(b.slice))
                        dirp = a.value.id
                    except Exception:
                        pass
    if pme is None or len(prods) < 4:
        raise AnalysisError("_case_no_zeros: products d[a] * point_m_edge[b] not found (%d)" % len(prods))
    n_leaf = [0]

    def walk(body, beaten, path):
        # path walk: what follows an `if` belongs to every arm that does not return (early-return and nested-else styles give the same paths)
        for i_, st in enumerate(body):
            if isinstance(st, ast.If):
                rest = list(body[i_ + 1:])
                t = ncmp(st.test)
                where = "%s:%d" % (m.relpath, st.lineno)
                key = "%s|comparison %s" % (f.key, " > ".join(path + ["?"]))
                if t is None or t[0] != "<=" or not all(isinstance(x, ast.Name) and x.id in prods for x in (t[1], t[2])):
                    rep.unknown(rule, key, where, "test `%s` is not a >= comparison of two products" % u(st.test))
                    return
                (dy, py), (dx, px) = prods[t[1].id], prods[t[2].id]        # t[1] <= t[2]  i.e.  X=t[2] >= Y=t[1]
                # X = d[dx]*pme[px] >= Y = d[dy]*pme[py]; antisymmetric pair needs dx == py and dy == px; winner is px
                okpair = dx == py and dy == px and dx != dy
                rep.check(okpair, rule, "%s|comparison of axes {%s,%s} after %s" % (f.key, min(px, py), max(px, py), "/".join(path) or "start"), where,
                          "`%s` compares d[%s]*pme[%s] with d[%s]*pme[%s]: not the antisymmetric pair d[j]*pme[i] >= d[i]*pme[j]" % (u(st.test), dx, px, dy, py),
                          "axis %s before axis %s" % (px, py))
                if not okpair:
                    return
                walk(list(st.body) + rest, beaten | {py}, path + ["%s>%s" % (px, py)])
                walk(list(st.orelse) + rest, beaten | {px}, path + ["%s>%s" % (py, px)])
                return
            else:
                for c in ast.walk(st):
                    if isinstance(c, ast.Call) and isinstance(c.func, ast.Name) and c.func.id == "_box_face":
                        n_leaf[0] += 1
                        where = "%s:%d" % (m.relpath, c.lineno)
                        key = "%s|leaf after %s" % (f.key, "/".join(path))
                        try:
                            ix = [ast.literal_eval(a) for a in c.args[:3]]
                        except Exception:
                            rep.unknown(rule, key, where, "face indices are not literals")
                            continue
                        undefeated = {0, 1, 2} - beaten
                        rep.check(sorted(ix) == [0, 1, 2] and len(undefeated) == 1 and ix[0] in undefeated, rule, key, where,
                                  "after the comparisons %s the only axis that won all its comparisons is %s, but _box_face is given face %s (indices %s)"
                                  % (path, sorted(undefeated), ix[0], ix), "face %s" % ix[0])
                if isinstance(st, ast.Return):
                    return
    first_if = next((i_ for i_, st in enumerate(f.node.body) if isinstance(st, ast.If)), len(f.node.body))
    walk(list(f.node.body[first_if:]), set(), [])
    if n_leaf[0] < 4:
        rep.error("R-TOURNAMENT: only %d _box_face leaves found in _case_no_zeros" % n_leaf[0])


# ------------------------------------------------------------------------------------------------ _box_face
def _sort_store_runs(block):
    """consecutive stores `arr[ix] = expr` into one array whose right-hand sides do not read that array are independent:
    put each maximal run into a canonical order (the mirrored branch lists them in the mirrored order)"""
    out, run, arr = [], [], None

    def flush():
        out.extend(sorted(run, key=ast.unparse))
        del run[:]
    for st in block:
        ok = isinstance(st, ast.Assign) and len(st.targets) == 1 and isinstance(st.targets[0], ast.Subscript) and isinstance(st.targets[0].value, ast.Name)
        if ok:
            a = st.targets[0].value.id
            reads = {n.id for n in ast.walk(st.value) if isinstance(n, ast.Name)}
            if a in reads or (arr is not None and a != arr):
                flush()
                arr = None
                ok = a not in reads
            if ok:
                arr = a
                run.append(st)
                continue
        flush()
        arr = None
        for fld in ("body", "orelse"):
            sub = getattr(st, fld, None)
            if isinstance(sub, list) and sub and isinstance(sub[0], ast.stmt):
                setattr(st, fld, _sort_store_runs(sub))
        out.append(st)
    flush()
    return out


def _txt(stmts):
    import copy
    stmts = _sort_store_runs([copy.deepcopy(s) for s in stmts])
    return _norm_commutative("\n".join(ast.unparse(s) for s in stmts))


def _flatten_sum(node):
    if isinstance(node, ast.BinOp) and isinstance(node.op, ast.Add):
        return _flatten_sum(node.left) + _flatten_sum(node.right)
    return [node]


def r_boxface(idx, rep, rule="R-BOXFACE"):
    rep.rule(rule, "_box_face (closest point of a line to a box face region): (a) the two one-sided branches are mirror images under "
                   "i1<->i2 and the 'both outside' branch re-uses them verbatim for its two edge cases; (b) in every leaf the offset of "
                   "each axis is the same in delta, in the squared distance and in the stored box point (pme -> +e, ppe -> -e, tmp -> t - e)",
             floor=10)
    f = idx.func(LB + "::_box_face")
    m = idx.module(LB)
    ps = f.params()
    i0, i1, i2 = ps[0], ps[1], ps[2]
    top = [st for st in f.node.body if isinstance(st, ast.If) and st.orelse]
    if not top or not isinstance(top[0].body[0], ast.If) or not isinstance(top[0].orelse[0], ast.If):
        raise AnalysisError("_box_face: two-level decision not found")
    top = top[0]
    A, B = top.body[0], top.orelse[0]
    A2, B1, B2 = A.orelse, B.body, B.orelse
    where = "%s:%d" % (m.relpath, top.lineno)
    rep.check(_txt(A2) == _txt(ast.parse(_swap("\n".join(ast.unparse(x) for x in B1), i1, i2)).body), rule, f.key + "|branch (i1 inside, i2 outside) mirrors (i1 outside, i2 inside)", where,
              "the branch for `v[i1] >= -e, v[i2] < -e` is no longer the mirror image (i1<->i2) of the branch for `v[i1] < -e, v[i2] >= -e`: one of them was edited alone")
    # the two inner tests mirror each other as well
    tA, tB = ncmp(A.test), ncmp(top.test)
    rep.check(tA is not None and tB is not None and _norm_commutative(_swap(u(tA[1]) + " ; " + u(tA[2]), i1, i2)) == _norm_commutative(u(tB[1]) + " ; " + u(tB[2]))
              and u(A.test) == u(B.test), rule, f.key + "|region tests", where,
              "the region tests `%s` / `%s` / `%s` are not the i1<->i2 images of each other" % (u(top.test), u(A.test), u(B.test)))
    # B2:  l_sqr, tmp ; if tmp >= 0: <A2's inner if> else: l_sqr, tmp ; if tmp >= 0: <B1's inner if> else corner
    def head_and_if(block):
        ifs = [s for s in block if isinstance(s, ast.If)]
        return [s for s in block if not isinstance(s, ast.If)], (ifs[0] if ifs else None)
    hA, ifA = head_and_if(A2)
    hB, ifB = head_and_if(B1)
    h2, if2 = head_and_if(B2)
    ok = if2 is not None and ifA is not None and _txt(h2) == _txt(hA) and len(if2.body) == 1 and _txt(if2.body) == _txt([ifA])
    rep.check(ok, rule, f.key + "|both-outside branch re-uses the i1-edge case", where,
              "in the `v[i1] < -e, v[i2] < -e` branch the 'v[i1]-edge is closest' case differs from the one-sided branch it was copied from")
    ok2 = False
    if if2 is not None and ifB is not None:
        h3, if3 = head_and_if(if2.orelse)
        ok2 = if3 is not None and _txt(h3) == _txt(hB) and len(if3.body) == 1 and _txt(if3.body) == _txt([ifB])
    rep.check(ok2, rule, f.key + "|both-outside branch re-uses the i2-edge case", where,
              "in the `v[i1] < -e, v[i2] < -e` branch the 'v[i2]-edge is closest' case differs from the one-sided branch it was copied from")
    # (b) leaf coherence.  pme = the parameter `point - e`; ppe = the local array filled with `point[ix] + e[ix]`
    pme = ps[5]
    ppe = None
    for st in f.node.body:
        if isinstance(st, ast.Assign) and isinstance(st.targets[0], ast.Subscript) and isinstance(st.targets[0].value, ast.Name) \
                and isinstance(st.value, ast.BinOp) and isinstance(st.value.op, ast.Add) and st.targets[0].value.id not in ps:
            ppe = st.targets[0].value.id
    if ppe is None:
        raise AnalysisError("_box_face: the `point + e` array was not found")
    n = 0
    for node in ast.walk(f.node):
        for fld in ("body", "orelse"):
            blk = getattr(node, fld, None)
            if not isinstance(blk, list):
                continue
            aug = [s for s in blk if isinstance(s, ast.AugAssign) and isinstance(s.op, ast.Add) and isinstance(s.target, ast.Name)]
            if not aug:
                continue
            sq = aug[-1]
            terms = _flatten_sum(sq.value)
            squares = [t for t in terms if isinstance(t, ast.BinOp) and isinstance(t.op, ast.Mult) and u(t.left) == u(t.right)]
            cross = [t for t in terms if t not in squares]
            if len(squares) != 3 or len(cross) != 1:
                continue
            n += 1
            key = "%s|leaf #%d offsets agree" % (f.key, n)
            lw = "%s:%d" % (m.relpath, sq.lineno)
            dname = [x.id for x in ast.walk(cross[0]) if isinstance(x, ast.Name)]
            ddef = [s for s in blk if isinstance(s, ast.Assign) and isinstance(s.targets[0], ast.Name) and s.targets[0].id in dname
                    and len(_flatten_sum(s.value)) == 3]
            if len(ddef) != 1:
                rep.unknown(rule, key, lw, "delta definition not found in the leaf")
                continue
            per_axis = {}
            bad = None
            for t in _flatten_sum(ddef[0].value):
                if not (isinstance(t, ast.BinOp) and isinstance(t.op, ast.Mult)):
                    bad = "delta term `%s` is not d[i] * offset" % u(t)
                    break
                dpart, off = (t.left, t.right) if isinstance(t.left, ast.Subscript) and u(t.left.value) not in (pme, ppe) else (t.right, t.left)
                if not isinstance(dpart, ast.Subscript):
                    bad = "delta term `%s` has no direction component" % u(t)
                    break
                per_axis[u(dpart.slice)] = u(off)
            if bad is None and sorted(per_axis) != sorted([i0, i1, i2]):
                bad = "delta does not have one term per axis (%s)" % sorted(per_axis)
            if bad is None:
                sqs = sorted(u(t.left) for t in squares)
                if sqs != sorted(per_axis.values()):
                    bad = "delta uses the offsets %s but the squared distance adds the squares of %s" % (sorted(per_axis.values()), sqs)
            if bad is None:
                stores = {u(s.targets[0].slice): s.value for s in blk if isinstance(s, ast.Assign) and isinstance(s.targets[0], ast.Subscript)
                          and isinstance(s.targets[0].value, ast.Name) and s.targets[0].value.id in ps and isinstance(s.targets[0].slice, ast.Name)}
                for ax, off in per_axis.items():
                    if ax not in stores:
                        bad = "the box point's component %s is not stored in this leaf" % ax
                        break
                    rhs = u(stores[ax]).replace(" ", "")
                    half = [p for p in ps if p in rhs]
                    if off.startswith(pme + "["):
                        good = rhs.startswith(tuple(p + "[" for p in ps)) and not rhs.startswith("-") and rhs.endswith("[%s]" % ax)
                    elif off.startswith(ppe + "["):
                        good = rhs.startswith("-") and rhs.endswith("[%s]" % ax)
                    else:
                        # tmp = point_p_edge[ax] - t   <->   point[ax] = t - e[ax]
                        tdef = [s for s in blk if isinstance(s, ast.Assign) and u(s.targets[0]) == off and isinstance(s.value, ast.BinOp) and isinstance(s.value.op, ast.Sub)]
                        good = bool(tdef) and u(tdef[-1].value.left) == "%s[%s]" % (ppe, ax) and isinstance(stores[ax], ast.BinOp) and isinstance(stores[ax].op, ast.Sub) \
                            and u(stores[ax].left) == u(tdef[-1].value.right) and u(stores[ax].right).endswith("[%s]" % ax)
                    if not good:
                        bad = "axis %s: delta/squared distance use the offset `%s` but the stored box point is `%s`" % (ax, off, u(stores[ax]))
                        break
            rep.check(bad is None, rule, key, lw, "leaf of _box_face is inconsistent: %s (distance, line parameter and closest point no longer describe the same point)" % bad,
                      "offsets %s" % per_axis)
    if n < 7:
        rep.error("R-BOXFACE: only %d leaves recognised in _box_face" % n)
