"""R-MIRROR: case trees produced by a symmetric case analysis keep their mirror symmetry — the else-branch of the top-level
decision is the image of the if-branch under the index swap (i0<->i1 in _case_0; i1<->i2 in _box_face), including the
suffixes of the local names (edge0<->edge1, prod0<->prod1).  A one-sided edit (an index swapped in one half only) breaks it."""
import ast
import re

from ..core.astutil import u, ncmp
from ..core.index import AnalysisError

LB = "distance3d.distance._line_to_box"


def _swap(txt, a, b):
    """swap index parameters a<->b and the digit suffixes of local names that end in the same digits"""
    da, db = a[-1], b[-1]
    def repl(m):
        w = m.group(0)
        if w == a:
            return b
        if w == b:
            return a
        if re.fullmatch(r"[a-z_]+[a-z_]" + da, w) and not re.fullmatch(r"i\d", w):
            return w[:-1] + db
        if re.fullmatch(r"[a-z_]+[a-z_]" + db, w) and not re.fullmatch(r"i\d", w):
            return w[:-1] + da
        return w
    return re.sub(r"[A-Za-z_][A-Za-z_0-9]*", repl, txt)


def _norm_commutative(txt):
    """sort the operands of top-level commutative sums so that `a*x + b*y` == `b*y + a*x` after the swap"""
    try:
        tree = ast.parse(txt)
    except SyntaxError:
        return txt

    class T(ast.NodeTransformer):
        def visit_BinOp(self, node):
            self.generic_visit(node)
            if isinstance(node.op, (ast.Add, ast.Mult)):
                l, r = ast.unparse(node.left), ast.unparse(node.right)
                if l > r:
                    node.left, node.right = node.right, node.left
            return node
    return ast.unparse(T().visit(tree))


def r_mirror(idx, rep, rule="R-MIRROR"):
    rep.rule(rule, "symmetric case trees stay symmetric: the else-branch of the top decision equals the if-branch under the index "
                   "swap of the mirrored axes (a one-sided index edit is a transcription error)", floor=1)
    for fname, a, b in (("_case_0", "i0", "i1"),):
        f = idx.func(LB + "::" + fname)
        tops = [st for st in f.node.body if isinstance(st, ast.If) and st.orelse]
        if not tops:
            raise AnalysisError("%s: top-level if/else not found" % fname)
        st = tops[0]
        body = _norm_commutative("\n".join(ast.unparse(s) for s in st.body))
        other = _norm_commutative(_swap("\n".join(ast.unparse(s) for s in st.orelse), a, b))
        key = "%s|else-branch == if-branch under %s<->%s" % (f.key, a, b)
        where = "%s:%d" % (f.module.relpath, st.lineno)
        if body == other:
            rep.ok(rule, key, where, "%d statements mirror each other" % len(st.body))
        else:
            la, lb = body.splitlines(), other.splitlines()
            diff = next(((x, y) for x, y in zip(la, lb) if x != y), (la[-1] if la else "", lb[-1] if lb else ""))
            rep.bad(rule, key, where,
                    "the two halves of %s are no longer mirror images under %s<->%s: the if-branch has `%s` where the mirrored else-branch "
                    "has `%s`; one half was edited without its twin (index transcription error in a rarely taken case)" % (fname, a, b, diff[0], diff[1]))
        # the decision itself compares the two mirrored products
        t = ncmp(st.test)
        ok = t is not None and _swap(u(t[1]), a, b) == u(t[2]) or (t is not None and _swap(u(t[2]), a, b) == u(t[1]))
        rep.check(bool(ok), rule, "%s|decision compares mirrored quantities" % f.key, where, "the top decision `%s` does not compare two mirrored quantities" % u(st.test))
