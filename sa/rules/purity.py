"""R-PUREARGS: public functions and methods do not modify the arrays they are handed.  An in-place operation on a parameter
(`p[...] = `, `p += `, `p /= `, `np.negative(p, out=p)` ...) that was not rebound to a fresh object first changes the CALLER's array:
the caller's next query (same pose array, same search direction, same point) silently works on different data.  Private helpers
(leading underscore) and functions whose documented purpose is to fill a buffer are exempt: they are checked at their callers."""
import ast

from ..core.astutil import u, call_name
from ..core.index import AnalysisError

NOCOPY = ("np.asarray", "np.asanyarray", "np.ascontiguousarray", "np.asfortranarray", "np.atleast_1d", "np.atleast_2d", "np.atleast_3d", "np.ravel", "np.reshape",
          "np.squeeze", "np.transpose", "np.require")
FRESH = ("np.copy", "np.array", "np.zeros", "np.empty", "np.ones", "np.zeros_like", "np.empty_like", "np.dot", "np.cross", "np.atleast_2d")


def _mutations(f):
    ps = set(f.params()) - {"self"}
    rebound = {}
    out = []
    for st in ast.walk(f.node):
        if isinstance(st, ast.Assign):
            for t in st.targets:
                if isinstance(t, ast.Name) and t.id in ps:
                    rebound.setdefault(t.id, st.lineno)
    # locals that may share memory with a parameter: `h = np.asarray(size, dtype=float)` returns the caller's own array when it already has that type,
    # `v = p[1:]`, `q = p.reshape(...)`, `q = p`.  An in-place operation on such a local is an in-place operation on the parameter.
    alias = {}
    changed = True
    while changed:
        changed = False
        for st in ast.walk(f.node):
            if isinstance(st, ast.Assign) and len(st.targets) == 1 and isinstance(st.targets[0], ast.Name) and st.targets[0].id not in ps:
                v, src = st.value, None
                if isinstance(v, ast.Name):
                    src = v.id
                elif isinstance(v, ast.Call) and (call_name(v) or "") in NOCOPY and v.args and isinstance(v.args[0], ast.Name):
                    src = v.args[0].id
                elif isinstance(v, ast.Call) and isinstance(v.func, ast.Attribute) and v.func.attr in ("reshape", "ravel", "view", "squeeze") and isinstance(v.func.value, ast.Name):
                    src = v.func.value.id
                elif isinstance(v, ast.Subscript) and isinstance(v.value, ast.Name) and any(isinstance(x, ast.Slice) for x in ([v.slice] + (list(v.slice.elts) if isinstance(v.slice, ast.Tuple) else []))):
                    src = v.value.id
                if src is not None:
                    root = src if (src in ps and not (src in rebound and rebound[src] < st.lineno)) else alias.get(src)
                    # a local with several definitions is an alias only if every one is
                    defs = [x for x in ast.walk(f.node) if isinstance(x, (ast.Assign, ast.AugAssign)) and any(isinstance(t_, ast.Name) and t_.id == st.targets[0].id
                                                                                                               for t_ in (x.targets if isinstance(x, ast.Assign) else []))]
                    if root is not None and len(defs) == 1 and alias.get(st.targets[0].id) != root:
                        alias[st.targets[0].id] = root
                        changed = True
    for st in ast.walk(f.node):
        tg = []
        if isinstance(st, ast.AugAssign):
            tg = [st.target]
        elif isinstance(st, ast.Assign):
            for t in st.targets:
                tg.extend(t.elts if isinstance(t, ast.Tuple) else [t])
            tg = [t for t in tg if isinstance(t, ast.Subscript)]
        for t in tg:
            b = t
            while isinstance(b, ast.Subscript):
                b = b.value
            if isinstance(b, ast.Name) and b.id in alias:
                if isinstance(st, ast.AugAssign) and isinstance(st.target, ast.Name) and not _arrayish(f, alias[b.id]):
                    continue          # `t = radius; t /= length` on a scalar parameter rebinds t
                out.append((st, "%s (through `%s`, which may be the same array)" % (alias[b.id], b.id)))
                continue
            if isinstance(b, ast.Name) and b.id in ps and not (b.id in rebound and rebound[b.id] < st.lineno):
                if isinstance(st, ast.AugAssign) and isinstance(st.target, ast.Name):
                    # p += x on a name: in place only for arrays; scalars (counters) are rebound.  Array-ness: the parameter is subscripted,
                    # passed to np.* or has an array-like name
                    if not _arrayish(f, b.id):
                        continue
                out.append((st, b.id))
        if isinstance(st, ast.Call):
            for k in st.keywords:
                if k.arg == "out" and isinstance(k.value, ast.Name) and k.value.id in ps and k.value.id not in rebound:
                    out.append((st, k.value.id))
                elif k.arg == "out" and isinstance(k.value, ast.Name) and k.value.id in alias:
                    out.append((st, "%s (through `%s`)" % (alias[k.value.id], k.value.id)))
    return out


def _arrayish(f, name):
    from ..core.index import numpydoc_params
    doc = numpydoc_params(f.node) or {}
    if "array" in (doc.get(name) or ""):
        return True
    for n in ast.walk(f.node):
        if isinstance(n, ast.Subscript) and isinstance(n.value, ast.Name) and n.value.id == name:
            return True
        if isinstance(n, ast.Call) and (call_name(n) or "").startswith("np.") and any(isinstance(a, ast.Name) and a.id == name for a in n.args):
            return True
        if isinstance(n, ast.Attribute) and isinstance(n.value, ast.Name) and n.value.id == name and n.attr in ("dot", "T", "shape"):
            return True
    return False


def r_pureargs(idx, rep, modules, rule="R-PUREARGS", floor=10):
    rep.rule(rule, "public functions / methods never modify an array parameter in place (subscript store, augmented assignment, out=) unless "
                   "they rebound it to a fresh array first: the caller keeps using the array it passed (pose, direction, point)", floor=floor)
    for mname in modules:
        m = idx.modules.get(mname)
        if m is None:
            continue
        for f in m.functions.values():
            if "<locals>" in f.qualname:
                continue
            if f.name.startswith("_") and not f.name.startswith("__"):
                continue
            if f.cls is not None and f.cls.name.startswith("_"):
                continue
            muts = _mutations(f)
            key = "%s|does not modify its array arguments" % f.key
            if muts:
                st, p = muts[0]
                rep.bad(rule, key, "%s:%d" % (m.relpath, st.lineno),
                        "`%s` modifies the caller's array `%s` in place: the object the caller passed (a stored pose, the search direction of the GJK "
                        "loop, a query point) is different after the call, so later queries and repeated calls see other data" % (u(st)[:80], p))
            else:
                rep.ok(rule, key, f.where, "no in-place operation on a parameter")


# ---------------------------------------------------------------------------------------------------------------------------------
# R-UNTOUCHED: a query leaves the colliders it is given as they were.


def _aliased(v, ps):
    """(text of the caller-owned attribute that the value may share memory with, certainly an array?) or None"""
    if isinstance(v, ast.Attribute) and v.attr in ("T", "real", "flat"):
        r = _aliased(v.value, ps)
        return (r[0], True) if r else None
    if isinstance(v, ast.Attribute) and isinstance(v.value, ast.Name) and v.value.id in ps:
        return (u(v), False)
    if isinstance(v, ast.Subscript):
        inner = _aliased(v.value, ps)
        # basic slicing gives a view; an integer index of a 1-D array gives a scalar (rebinding only)
        if inner is not None and any(isinstance(x, ast.Slice) for x in ([v.slice] + (list(v.slice.elts) if isinstance(v.slice, ast.Tuple) else []))):
            return (inner[0], True)
        return None
    if isinstance(v, ast.Call):
        cn = call_name(v) or ""
        if cn in NOCOPY and v.args:
            r = _aliased(v.args[0], ps)
            return (r[0], True) if r else None
        if isinstance(v.func, ast.Attribute) and v.func.attr in ("reshape", "ravel", "view", "squeeze", "transpose", "swapaxes"):
            r = _aliased(v.func.value, ps)
            return (r[0], True) if r else None
    return None


def collider_attrs(idx):
    """attribute names that make up the state of a collider (assigned through self in a class of distance3d.colliders)"""
    out = set()
    m = idx.modules.get("distance3d.colliders")
    if m is None:
        return out
    for ci in m.classes.values():
        for mi in ci.methods.values():
            for n in ast.walk(mi.node):
                if isinstance(n, ast.Attribute) and isinstance(n.value, ast.Name) and n.value.id == "self" and isinstance(n.ctx, ast.Store):
                    out.add(n.attr)
    return out


def collider_readers(idx, modules):
    """{key: FuncInfo} of the functions that read collider state from a parameter (the instances of R-UNTOUCHED)"""
    attrs = collider_attrs(idx)
    out = {}
    for mname in modules:
        m = idx.modules.get(mname)
        for f in (m.functions.values() if m else ()):
            ps = set(f.params()) - {"self"}
            if "<locals>" not in f.qualname and ps and any(isinstance(n, ast.Attribute) and isinstance(n.value, ast.Name) and n.value.id in ps and n.attr in attrs
                                                           for n in ast.walk(f.node)):
                out[f.key] = f
    return out


def r_untouched(idx, rep, modules, rule="R-UNTOUCHED", floor=20):
    rep.rule(rule, "no function modifies, in place, the state of a collider it receives as an argument (size, radius, vertices, pose ...): neither "
                   "directly (arg.attr[...] = / arg.attr op=) nor through a name that may share its memory (x = arg.attr, np.asarray(arg.attr) — "
                   "no copy when the dtype already matches —, slices, .T, reshape): a query must leave the collider equal to a freshly built one",
             floor=floor)
    attrs = collider_attrs(idx)
    if len(attrs) < 5:
        raise AnalysisError("distance3d.colliders: collider state attributes not found")
    for mname in modules:
        m = idx.modules.get(mname)
        if m is None:
            continue
        for f in m.functions.values():
            if "<locals>" in f.qualname:
                continue
            ps = set(f.params()) - {"self"}
            if not ps:
                continue
            reads = [n for n in ast.walk(f.node) if isinstance(n, ast.Attribute) and isinstance(n.value, ast.Name) and n.value.id in ps and n.attr in attrs]
            if not reads:
                continue
            assigns = {}
            for st in ast.walk(f.node):
                if isinstance(st, ast.Assign) and len(st.targets) == 1 and isinstance(st.targets[0], ast.Name):
                    assigns.setdefault(st.targets[0].id, []).append((st.lineno, _aliased(st.value, ps)))
                elif isinstance(st, ast.For) and isinstance(st.target, ast.Name):
                    assigns.setdefault(st.target.id, []).append((st.lineno, None))

            def alias_at(name, lineno):
                prior = [(ln, al) for ln, al in assigns.get(name, []) if ln <= lineno]
                return max(prior, key=lambda x: x[0])[1] if prior else None
            hits = []
            for st in ast.walk(f.node):
                tg = []
                if isinstance(st, ast.AugAssign):
                    tg = [st.target]
                elif isinstance(st, ast.Assign):
                    for t in st.targets:
                        tg.extend(t.elts if isinstance(t, ast.Tuple) else [t])
                    tg = [t for t in tg if isinstance(t, ast.Subscript)]
                for t in tg:
                    b, sub = t, False
                    while isinstance(b, ast.Subscript):
                        b, sub = b.value, True
                    if isinstance(b, ast.Name) and b.id not in ps:
                        al = alias_at(b.id, st.lineno)
                        if al is not None and al[0].split(".")[-1] in attrs and (sub or al[1] or _arrayish(f, b.id)):
                            hits.append((st, al[0], b.id))
                    elif isinstance(b, ast.Attribute) and isinstance(b.value, ast.Name) and b.value.id in ps and b.attr in attrs and (sub or isinstance(st, ast.AugAssign)):
                        hits.append((st, u(b), None))
                if isinstance(st, ast.Call):
                    for k in st.keywords:
                        if k.arg == "out" and isinstance(k.value, ast.Name) and k.value.id not in ps:
                            al = alias_at(k.value.id, st.lineno)
                            if al is not None and al[0].split(".")[-1] in attrs:
                                hits.append((st, al[0], k.value.id))
                    if isinstance(st.func, ast.Attribute) and st.func.attr in ("fill", "sort", "resize", "itemset", "partition") and isinstance(st.func.value, ast.Name) \
                            and st.func.value.id not in ps:
                        al = alias_at(st.func.value.id, st.lineno)
                        if al is not None and al[0].split(".")[-1] in attrs:
                            hits.append((st, al[0], st.func.value.id))
            key = "%s|leaves the colliders it is given untouched" % f.key
            if hits:
                st, obj, via = hits[0]
                rep.bad(rule, key, "%s:%d" % (m.relpath, st.lineno),
                        "`%s` changes `%s` in place%s: every query now alters the collider itself (its AABB, its support points and — after the next update_pose — "
                        "its vertices drift away from those of a freshly constructed collider at the same pose)"
                        % (u(st)[:70], obj, (" through `%s`, which may be the very same array (np.asarray / a view does not copy)" % via) if via else ""))
            else:
                rep.ok(rule, key, f.where, "reads %s, writes none of them" % sorted({"%s.%s" % (n.value.id, n.attr) for n in reads})[:4])
