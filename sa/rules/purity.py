"""R-PUREARGS: public functions and methods do not modify the arrays they are handed.  An in-place operation on a parameter
(`p[...] = `, `p += `, `p /= `, `np.negative(p, out=p)` ...) that was not rebound to a fresh object first changes the CALLER's array:
the caller's next query (same pose array, same search direction, same point) silently works on different data.  Private helpers
(leading underscore) and functions whose documented purpose is to fill a buffer are exempt: they are checked at their callers."""
import ast

from ..core.astutil import u, call_name

FRESH = ("np.copy", "np.array", "np.zeros", "np.empty", "np.ones", "np.zeros_like", "np.empty_like", "np.dot", "np.cross", "np.atleast_2d")


def _mutations(f):
    ps = set(f.params()) - {"self"}
    rebound = {}
    out = []
    for st in ast.walk(f.node):
        if isinstance(st, ast.Assign):
            for t in st.targets:
                if isinstance(t, ast.Name) and t.id in ps:
                    rebound.setdefault(t.id, st.lineno)
    for st in ast.walk(f.node):
        tg = []
        if isinstance(st, ast.AugAssign):
            tg = [st.target]
        elif isinstance(st, ast.Assign):
            for t in st.targets:
                tg.extend(t.elts if isinstance(t, ast.Tuple) else [t])
            tg = [t for t in tg if isinstance(t, ast.Subscript)]
        for t in tg:
            b = t
            while isinstance(b, ast.Subscript):
                b = b.value
            if isinstance(b, ast.Name) and b.id in ps and not (b.id in rebound and rebound[b.id] < st.lineno):
                if isinstance(st, ast.AugAssign) and isinstance(st.target, ast.Name):
                    # p += x on a name: in place only for arrays; scalars (counters) are rebound.  Array-ness: the parameter is subscripted,
                    # passed to np.* or has an array-like name
                    if not _arrayish(f, b.id):
                        continue
                out.append((st, b.id))
        if isinstance(st, ast.Call):
            for k in st.keywords:
                if k.arg == "out" and isinstance(k.value, ast.Name) and k.value.id in ps and k.value.id not in rebound:
                    out.append((st, k.value.id))
    return out


def _arrayish(f, name):
    from ..core.index import numpydoc_params
    doc = numpydoc_params(f.node) or {}
    if "array" in (doc.get(name) or ""):
        return True
    for n in ast.walk(f.node):
        if isinstance(n, ast.Subscript) and isinstance(n.value, ast.Name) and n.value.id == name:
            return True
        if isinstance(n, ast.Call) and (call_name(n) or "").startswith("np.") and any(isinstance(a, ast.Name) and a.id == name for a in n.args):
            return True
        if isinstance(n, ast.Attribute) and isinstance(n.value, ast.Name) and n.value.id == name and n.attr in ("dot", "T", "shape"):
            return True
    return False


def r_pureargs(idx, rep, modules, rule="R-PUREARGS", floor=10):
    rep.rule(rule, "public functions / methods never modify an array parameter in place (subscript store, augmented assignment, out=) unless "
                   "they rebound it to a fresh array first: the caller keeps using the array it passed (pose, direction, point)", floor=floor)
    for mname in modules:
        m = idx.modules.get(mname)
        if m is None:
            continue
        for f in m.functions.values():
            if "<locals>" in f.qualname:
                continue
            if f.name.startswith("_") and not f.name.startswith("__"):
                continue
            if f.cls is not None and f.cls.name.startswith("_"):
                continue
            muts = _mutations(f)
            key = "%s|does not modify its array arguments" % f.key
            if muts:
                st, p = muts[0]
                rep.bad(rule, key, "%s:%d" % (m.relpath, st.lineno),
                        "`%s` modifies the caller's array `%s` in place: the object the caller passed (a stored pose, the search direction of the GJK "
                        "loop, a query point) is different after the call, so later queries and repeated calls see other data" % (u(st)[:80], p))
            else:
                rep.ok(rule, key, f.where, "no in-place operation on a parameter")
