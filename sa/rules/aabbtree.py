"""Rules for the AABB tree (C05; reused by C06, C16, C20).

R-CLOSED, R-TRAVERSE, R-LINKS, R-REFIT, R-BOOKKEEP, R-INDEXSPACE, R-SENTINEL, R-UNIQUE.
All rules read distance3d/aabb_tree.py's ast; slots (column constants, sentinel, parameter names) are taken
from the source, not frozen.
"""
import ast

from ..core.astutil import (u, call_name, calls, index_elts, const, conjuncts, disjuncts, compare_triples,
                            norm_compare, iter_stmts, parent_map, walk_ordered, strip_docstring, dotted, assign_pairs)
from ..core.index import AnalysisError

MOD = "distance3d.aabb_tree"


def _consts(idx):
    m = idx.module(MOD)
    need = ["INDEX_NONE", "PARENT_INDEX", "LEFT_INDEX", "RIGHT_INDEX", "TYPE_INDEX", "TYPE_LEAF", "TYPE_BRANCH"]
    for n in need:
        if n not in m.constants:
            raise AnalysisError("module constant %s.%s vanished" % (MOD, n))
    return m.constants


def _col_access(node, C):
    """nodes[X, COL] or (alias of row)[COL] -> (array text, index text, folded column) else None."""
    if not isinstance(node, ast.Subscript):
        return None
    el = index_elts(node)
    if len(el) == 2:
        c = const(el[1], C)
        if isinstance(c, int):
            return (u(node.value), u(el[0]), c)
    return None


# ---------------------------------------------------------------------------------------------- R-CLOSED
class _NotModelled(Exception):
    pass


class _ForeignComparison(Exception):
    pass


def _eval_overlap(f, params, C, state):
    """Abstract evaluation of aabb_overlap's body on one order-type state: state[(k, 0)] = sign(a[k,0] - b[k,1]) and
    state[(k, 1)] = sign(b[k,0] - a[k,1]), each in {-1, 0, +1}.  Supports return / if / for-in-range(const) / and / or / not /
    comparisons between a bound of one box and the opposite bound of the other box on the same axis."""
    def side(n, env):
        if isinstance(n, ast.Subscript) and isinstance(n.value, ast.Name) and n.value.id in params:
            el = index_elts(n)
            if len(el) == 2:
                k = env.get(u(el[0]), const(el[0], C))
                c = env.get(u(el[1]), const(el[1], C))
                if isinstance(k, int) and isinstance(c, int):
                    return (params.index(n.value.id), k, c)
        return None

    def cmp_(op, x, y, env):
        sx, sy = side(x, env), side(y, env)
        if sx is not None and sy is not None and (sx[1] != sy[1] or sx[0] == sy[0] or sx[2] == sy[2]):
            raise _ForeignComparison("`%s %s %s` relates two bounds that the closed-interval test never compares (wrong axis, wrong column or the same box twice); "
                                     "that relation is independent of the six relevant ones, so the result cannot be the overlap predicate" % (u(x), op, u(y)))
        if sx is None or sy is None:
            raise _NotModelled("comparison `%s %s %s` is not between a lower bound of one box and the upper bound of the other on one axis" % (u(x), op, u(y)))
        # bring into the form  lo(P) ? hi(Q)
        if sx[2] == 1:          # x is an upper bound: hi(P) op lo(Q)  ==  lo(Q) op' hi(P)
            sx, sy = sy, sx
            op = {"<": ">", ">": "<", "<=": ">=", ">=": "<=", "==": "==", "!=": "!="}[op]
        k = sx[1]
        sgn = state[(k, 0)] if sx[0] == 0 else state[(k, 1)]      # sign(lo(P) - hi(Q))
        return {"<": sgn < 0, "<=": sgn <= 0, ">": sgn > 0, ">=": sgn >= 0, "==": sgn == 0, "!=": sgn != 0}[op]

    def ev(e, env):
        if isinstance(e, ast.BoolOp):
            vals = [ev(v, env) for v in e.values]
            return all(vals) if isinstance(e.op, ast.And) else any(vals)
        if isinstance(e, ast.UnaryOp) and isinstance(e.op, ast.Not):
            return not ev(e.operand, env)
        if isinstance(e, ast.Compare):
            out = True
            for op, x, y in compare_triples(e):
                out = out and cmp_(op, x, y, env)
            return out
        if isinstance(e, ast.Constant) and isinstance(e.value, bool):
            return e.value
        if isinstance(e, ast.Name) and e.id in env and isinstance(env[e.id], bool):
            return env[e.id]
        raise _NotModelled("expression `%s`" % u(e))

    class _Ret(Exception):
        def __init__(self, v):
            self.v = v

    def run(body, env):
        for st in body:
            if isinstance(st, ast.Return):
                raise _Ret(ev(st.value, env))
            elif isinstance(st, ast.If):
                run(st.body if ev(st.test, env) else st.orelse, env)
            elif isinstance(st, ast.For) and isinstance(st.iter, ast.Call) and call_name(st.iter) == "range" and len(st.iter.args) == 1 \
                    and isinstance(const(st.iter.args[0], C), int) and isinstance(st.target, ast.Name):
                for i in range(const(st.iter.args[0], C)):
                    e2 = dict(env)
                    e2[st.target.id] = i
                    run(st.body, e2)
                    for kk, vv in e2.items():
                        if kk != st.target.id:
                            env[kk] = vv
            elif isinstance(st, ast.Assign) and len(st.targets) == 1 and isinstance(st.targets[0], ast.Name):
                env[st.targets[0].id] = ev(st.value, env)
            elif isinstance(st, ast.Expr) and isinstance(st.value, ast.Constant):
                continue
            elif isinstance(st, (ast.Break, ast.Continue, ast.Pass)):
                raise _NotModelled("statement `%s`" % u(st)) if not isinstance(st, ast.Pass) else None
            else:
                raise _NotModelled("statement `%s`" % u(st)[:60])
    try:
        run(strip_docstring(f.node.body), {})
    except _Ret as r:
        return r.v
    raise _NotModelled("a path falls off the end of the function")


def _nf(f):
    """the function with access temporaries read through (core.astutil.deref_access_temps): rules see `aabbs[nodes[i, LEFT]]` whether or not the
    code names the intermediate index / row / type"""
    import copy
    g = copy.copy(f)
    g.node = deref_access_temps(f.node)
    return g


def _nf_expr(idx, f):
    """_nf, with one-expression private helpers of the module read as the expression they return (`_overlaps_any_leaf(box, root, nodes, aabbs)` is
    `len(query_overlap(box, root, nodes, aabbs, break_at_first_leaf=True)) >= 1` again)"""
    import copy
    from ..core.inline import expand_helpers
    g = copy.copy(f)
    node = expand_helpers(idx, f.module, copy.deepcopy(f.node), depth=2, only=lambda c: getattr(c, "module", None) is f.module and c.name.startswith("_"))
    # `for child in (nodes[i, LEFT], nodes[i, RIGHT]): ...` is the body once per child
    from ..core.inline import normalise_statements as _norm
    keep = {n.func.attr for n in ast.walk(node) if isinstance(n, ast.Call) and isinstance(n.func, ast.Attribute)}
    if any(isinstance(n, ast.For) and isinstance(n.iter, (ast.Tuple, ast.List)) for n in ast.walk(node)):
        node.body = _norm(idx, f.module, node.body, depth=0, keep=tuple(keep))
    ast.fix_missing_locations(node)
    g.node = deref_access_temps(node)
    return g


def _nf_open(idx, f):
    """_nf, with the private single-exit helpers of the module opened first (a descent loop moved into `_find_sibling` is insert_leaf's loop again)"""
    import copy
    from ..core.inline import inline_single_exit_helpers
    g = copy.copy(f)
    opened = inline_single_exit_helpers(idx, f.module, f.node, only=lambda c: c.module is f.module and c.name.startswith("_") and
                                        any(isinstance(n, (ast.While, ast.For)) for n in ast.walk(c.node)))
    # line numbers of the opened body are those of the call statement: keep source order usable for the line-based checks
    g.node = deref_access_temps(opened)
    return g


def r_closed(idx, rep):
    rule = "R-CLOSED"
    rep.rule(rule, "aabb_overlap is true exactly when, on all three axes, a.lo <= b.hi and b.lo <= a.hi (closed intervals: touching boxes "
                   "overlap): abstract evaluation of the function body (return / if / for-in-range / and / or / not) on all 9^3 = 729 "
                   "order types of the six bound pairs", floor=1)
    import itertools
    f = idx.func(MOD + "::aabb_overlap")
    C = idx.module(MOD).constants
    params = f.params()
    if len(params) != 2:
        raise AnalysisError("aabb_overlap no longer takes two boxes")
    # one-expression helpers (`_axis_overlap(a, b, k)`) are read as the expression they return
    import copy as _copy
    from ..core.inline import expand_helpers as _expand
    f0_, f = f, _copy.copy(f)
    f.node = _expand(idx, f0_.module, f0_.node, depth=3)
    wrong = {}
    try:
        for signs in itertools.product((-1, 0, 1), repeat=6):
            state = {(k, j): signs[2 * k + j] for k in range(3) for j in range(2)}
            got = _eval_overlap(f, params, C, state)
            want = all(v <= 0 for v in signs)
            if got != want:
                # attribute the disagreement to the relations that are decisive in this state
                for k in range(3):
                    for j in range(2):
                        others_ok = all(v < 0 for (kk, jj), v in state.items() if (kk, jj) != (k, j))
                        if others_ok:
                            wrong.setdefault((k, j), []).append((state[(k, j)], got, want))
                if not any(all(v < 0 for (kk, jj), v in state.items() if (kk, jj) != (k, j)) for k in range(3) for j in range(2)):
                    wrong.setdefault("multi", []).append((signs, got, want))
    except _ForeignComparison as e:
        rep.bad(rule, MOD + "::aabb_overlap|only the six bound pairs are compared", f.where, str(e))
        return
    except _NotModelled as e:
        raise AnalysisError("aabb_overlap: R-CLOSED cannot model %s" % e)
    for k in range(3):
        for j in range(2):
            txt = "%s[%d,0] <= %s[%d,1]" % ((params[0], k, params[1], k) if j == 0 else (params[1], k, params[0], k))
            w = wrong.get((k, j))
            why = ""
            if w:
                sg, got, want = w[0]
                why = "with every other bound pair overlapping, %s %s the function returns %s (closed-interval overlap: %s): %s" % (
                    txt.split(" <= ")[0], {-1: "<", 0: "==", 1: ">"}[sg] + " " + txt.split(" <= ")[1], got, want,
                    "touching boxes are reported as disjoint (strict comparison)" if sg == 0 else "the comparison is missing, reversed or on the wrong axis/column")
            rep.check(not w, rule, MOD + "::aabb_overlap|" + txt, f.where, why, "closed")
    if "multi" in wrong and not any(k != "multi" for k in wrong):
        rep.bad(rule, MOD + "::aabb_overlap|combination of axes", f.where, "the result is wrong for the order type %s (returns %s)" % (wrong["multi"][0][0], wrong["multi"][0][1]))


# ---------------------------------------------------------------------------------------------- traversal helpers
def _find_while(f):
    ws = [s for s in iter_stmts(f.node.body) if isinstance(s, ast.While)]
    return ws


from ..core.astutil import guard_chain as _guard_chain, atomise as _atomise, resolved, deref_access_temps      # noqa: E402


def _stack_pushes(loop, stackname):
    """statements that push on the stack inside the loop -> list of (stmt, [pushed expr nodes])."""
    out = []
    for st in iter_stmts(loop.body):
        pushed = None
        if isinstance(st, ast.Expr) and isinstance(st.value, ast.Call):
            cn = call_name(st.value)
            if cn == stackname + ".extend" and st.value.args and isinstance(st.value.args[0], (ast.List, ast.Tuple)):
                pushed = list(st.value.args[0].elts)
            elif cn == stackname + ".append" and st.value.args:
                pushed = [st.value.args[0]]
        elif isinstance(st, ast.AugAssign) and u(st.target) == stackname and isinstance(st.value, (ast.List, ast.Tuple)):
            pushed = list(st.value.elts)
        elif isinstance(st, ast.Assign) and u(st.targets[0]) == stackname and isinstance(st.value, ast.BinOp) \
                and isinstance(st.value.op, ast.Add) and isinstance(st.value.right, (ast.List, ast.Tuple)):
            pushed = list(st.value.right.elts)
        if pushed is not None:
            out.append((st, pushed))
    # consecutive pushes in one block (stack.append(left); stack.append(right)) are one push of several elements
    merged = []
    pm_ = parent_map(loop)
    for st, pushed in out:
        if merged:
            pst, ppushed = merged[-1]
            par = pm_.get(st)
            same = par is pm_.get(pst)
            if same:
                for fld in ("body", "orelse"):
                    blk = getattr(par, fld, None)
                    if isinstance(blk, list) and st in blk and pst in blk and blk.index(st) == blk.index(pst) + 1 + (len(ppushed) - 1 if False else 0):
                        merged[-1] = (pst, ppushed + pushed)
                        break
                else:
                    merged.append((st, pushed))
                continue
        merged.append((st, pushed))
    # adjacency test above only joins direct neighbours; join chains
    return merged


def _pop_var(loop, stackname):
    """name bound to the popped element (x = stack[-1] / x = stack.pop()) and whether the stack is shortened."""
    var, shortened = None, False
    for st in loop.body:
        if isinstance(st, ast.Assign) and len(st.targets) == 1 and isinstance(st.targets[0], ast.Name):
            v = u(st.value)
            if v in (stackname + "[-1]", stackname + ".pop()"):
                var = st.targets[0].id
                if v.endswith(".pop()"):
                    shortened = True
            if st.targets[0].id == stackname and v in (stackname + "[:-1]",):
                shortened = True
        if isinstance(st, ast.Expr) and u(st.value) in (stackname + ".pop()", stackname + ".pop(-1)"):
            shortened = True
        if isinstance(st, ast.Delete) and u(st.targets[0]) == stackname + "[-1]":
            shortened = True
    return var, shortened


def _classify_test(test, C, nodes_name, nodevar, aliases):
    """Classify a guard conjunct: ('overlap', args) | ('type', value, positive?) | ('flag', name) | ('other', text)"""
    if isinstance(test, ast.Call) and (call_name(test) or "").split(".")[-1] == "aabb_overlap":
        return ("overlap", [u(a) for a in test.args])
    if isinstance(test, ast.Compare) and len(test.ops) == 1:
        op, a, b = compare_triples(test)[0]
        for x, y in ((a, b), (b, a)):
            acc = _col_access(x, C)
            if acc and acc[2] == C["TYPE_INDEX"] and acc[1] == nodevar:
                v = const(y, C)
                if v in (C["TYPE_LEAF"], C["TYPE_BRANCH"]) and op in ("==", "!="):
                    return ("type", v, op == "==", acc[0])
    if isinstance(test, ast.Name):
        return ("flag", test.id)
    return ("other", u(test))


def r_traverse(idx, rep):
    _r_traverse(idx, rep)
    r_wrapper_prefilter(idx, rep)


def _r_traverse(idx, rep):
    rule = "R-TRAVERSE"
    rep.rule(rule, "query_overlap pushes BOTH children of every box-overlapping branch, appends an overlapping leaf "
                   "exactly once, applies no other filter; query_overlap_of_other_tree does the same over tree 2 and "
                   "queries tree 1 completely for its leaves", floor=8)
    C = _consts(idx)
    f = _nf_expr(idx, idx.func(MOD + "::query_overlap"))
    fk = MOD + "::query_overlap"
    params = f.params()
    if len(params) < 4:
        raise AnalysisError("query_overlap signature changed")
    p_test, p_root, p_nodes, p_aabbs = params[:4]
    p_flag = params[4] if len(params) > 4 else None
    loops = _find_while(f)
    if len(loops) != 1:
        raise AnalysisError("query_overlap: expected exactly one while loop, found %d" % len(loops))
    loop = loops[0]
    # which list is the stack: the one compared in the loop test
    stackname = None
    for n in ast.walk(loop.test):
        if isinstance(n, ast.Name):
            stackname = n.id
    if stackname is None:
        raise AnalysisError("query_overlap: cannot identify the traversal stack")
    # the traversal is the ONLY place where the query decides anything: whatever returns or empties the stack in front of it must imply
    # that the query box and the root box do not overlap (a pre-filter on 'empty', 'inverted', 'too small' boxes answers for boxes the
    # closed-interval predicate would have matched)
    r_prefilter(idx, rep, f, fk, loop, stackname, {p_test: "A", "%s[%s]" % (p_aabbs, p_root): "B"}, [p_root])
    nodevar, shortened = _pop_var(loop, stackname)
    rep.check(nodevar is not None and shortened, rule, fk + "|pop", f.where,
              "the loop does not remove the element it reads from %s (pop-before-push discipline)" % stackname,
              "reads %s[-1] into %s and shortens the stack" % (stackname, nodevar))
    if nodevar is None:
        return
    pm = parent_map(f.node)
    # aliases: node_aabb = aabbs[node_index]
    aliases = {}
    for st in iter_stmts(loop.body):
        if isinstance(st, ast.Assign) and len(st.targets) == 1 and isinstance(st.targets[0], ast.Name):
            aliases[st.targets[0].id] = u(st.value)
    # result list: the one returned
    resname = None
    for st in iter_stmts(f.node.body):
        if isinstance(st, ast.Return) and st.value is not None:
            for n in ast.walk(resolved(f.node, st.value)):
                if isinstance(n, ast.Name) and n.id not in ("np", "numpy"):
                    resname = n.id
    pushes = _stack_pushes(loop, stackname)
    rep.check(len(pushes) >= 1, rule, fk + "|push-exists", f.where, "no push of child nodes found in the traversal loop")
    # Two disciplines keep the same invariant.  TEST AT POP (the pinned code): everything is pushed, a popped node is examined only if its box overlaps the query.
    # TEST AT PUSH: only nodes whose box overlaps the query ever enter the stack — the root under `overlap(aabbs[root], query)`, each child under
    # `overlap(aabbs[child], query)` — and a popped leaf is reported as it is.  Which one is used is read off the way the root enters the stack.
    seed_pushes = []
    for top in f.node.body:
        if top is loop:
            break
        for st_ in ast.walk(top):
            if isinstance(st_, ast.Expr) and isinstance(st_.value, ast.Call) and call_name(st_.value) in (stackname + ".append", stackname + ".extend"):
                seed_pushes.append(st_)
    push_time = False
    if seed_pushes:
        st_ = seed_pushes[0]
        arg_ = st_.value.args[0] if st_.value.args else None
        vals_ = [u(e_) for e_ in arg_.elts] if isinstance(arg_, (ast.List, ast.Tuple)) else [u(arg_)]
        atoms_ = [(t_, pol_) for t_, pol_ in _guard_chain(pm if False else parent_map(f.node), st_, f.node)]
        ov_ = [c_ for t_, pol_ in atoms_ if pol_ for c_ in conjuncts(t_) if isinstance(c_, ast.Call) and (call_name(c_) or "").split(".")[-1] == "aabb_overlap"]
        push_time = bool(ov_)
        if push_time:
            good_ = len(seed_pushes) == 1 and vals_ == [p_root] and len(ov_) == 1 and sorted(u(a_) for a_ in ov_[0].args) == sorted(["%s[%s]" % (p_aabbs, p_root), p_test])
            others_ = [c_ for t_, pol_ in atoms_ for c_ in (conjuncts(t_) if pol_ else [t_]) if c_ is not ov_[0] and not _is_sentinel_test(c_, C, [p_root])]
            sent_bad_ = [c_ for t_, pol_ in atoms_ for c_ in (conjuncts(t_) if pol_ else [t_]) if _is_sentinel_test(c_, C, [p_root]) and _sentinel_polarity(c_, C) == pol_]
            rep.check(good_ and not others_ and not sent_bad_, rule, fk + "|seed", "%s:%d" % (f.module.relpath, st_.lineno),
                      "with the overlap test made when a node is PUSHED, the root must enter the stack exactly under `aabb_overlap(%s[%s], %s)` (and its existence): found `%s` under %s"
                      % (p_aabbs, p_root, p_test, u(st_)[:50], [u(t_)[:60] for t_, _ in atoms_]), "root pushed iff it exists and overlaps")

    def overlap_ok(args, box=None):
        want_node = box or "%s[%s]" % (p_aabbs, nodevar)
        a = [aliases.get(x, x) for x in args]
        return sorted(a) == sorted([want_node, p_test])

    def check_guards(st, what, need_leaf, box=None, need_overlap=True, extra_sentinels=()):
        chain = _guard_chain(pm, st, loop)
        seen_overlap = False
        seen_type = False
        okay = True
        for test, pol in chain:
            for cj in (conjuncts(test) if pol else [test]):
                if extra_sentinels and _is_sentinel_test(cj, C, list(extra_sentinels)):
                    if _sentinel_polarity(cj, C) == pol:
                        rep.bad(rule, fk + "|%s guard %s" % (what, u(cj)), "%s:%d" % (f.module.relpath, st.lineno), "%s happens only for the INDEX_NONE sentinel" % what)
                        okay = False
                    continue
                if _is_sentinel_test(cj, C, [nodevar]):
                    if _sentinel_polarity(cj, C) == pol:
                        rep.bad(rule, fk + "|%s guard %s" % (what, u(cj)), "%s:%d" % (f.module.relpath, st.lineno),
                                "%s happens only for the INDEX_NONE sentinel" % what)
                        okay = False
                    continue
                kind = _classify_test(cj, C, p_nodes, nodevar, aliases)
                if kind[0] == "overlap":
                    if not pol or not overlap_ok(kind[1], box):
                        rep.bad(rule, fk + "|%s guard %s" % (what, u(cj)), "%s:%d" % (f.module.relpath, st.lineno),
                                "%s is guarded by the overlap test with wrong polarity or wrong boxes (%s)" % (what, kind[1]))
                        okay = False
                    seen_overlap = True
                elif kind[0] == "type":
                    is_leaf = (kind[1] == C["TYPE_LEAF"]) == (kind[2] == pol)
                    # (value LEAF, '==' , taken) -> leaf ; (value LEAF, '==', not taken) -> not leaf ...
                    if kind[1] == C["TYPE_BRANCH"]:
                        is_leaf = not ((kind[2]) == pol)
                    if is_leaf != need_leaf:
                        rep.bad(rule, fk + "|%s guard %s" % (what, u(cj)), "%s:%d" % (f.module.relpath, st.lineno),
                                "%s happens on the wrong node type" % what)
                        okay = False
                    seen_type = True
                elif kind[0] == "flag" and kind[1] == p_flag:
                    rep.bad(rule, fk + "|%s guard %s" % (what, u(cj)), "%s:%d" % (f.module.relpath, st.lineno),
                            "%s depends on the early-exit flag" % what)
                    okay = False
                else:
                    rep.bad(rule, fk + "|%s extra-filter %s" % (what, u(cj)), "%s:%d" % (f.module.relpath, st.lineno),
                            "%s is additionally filtered by `%s` (only the box overlap test and the node type may decide)" % (what, u(cj)))
                    okay = False
        if need_overlap and not seen_overlap:
            rep.bad(rule, fk + "|%s no-overlap-guard" % what, "%s:%d" % (f.module.relpath, st.lineno),
                    "%s is not guarded by aabb_overlap(node box, query box)" % what)
            okay = False
        return okay

    all_cols = set()
    for st, pushed in pushes:
        cols = set()
        for p in pushed:
            acc = _col_access(p, C)
            if acc and acc[0] == p_nodes and acc[1] == nodevar:
                cols.add(acc[2])
            else:
                rep.bad(rule, fk + "|push %s" % u(p), "%s:%d" % (f.module.relpath, st.lineno),
                        "pushed value %s is not a child link of the popped node" % u(p))
        all_cols |= cols
        if not push_time:
            rep.check(cols == {C["LEFT_INDEX"], C["RIGHT_INDEX"]}, rule, fk + "|push-both-children", "%s:%d" % (f.module.relpath, st.lineno),
                      "a branch pushes columns %s, need both LEFT_INDEX=%d and RIGHT_INDEX=%d" % (sorted(cols), C["LEFT_INDEX"], C["RIGHT_INDEX"]),
                      "pushes %s" % [u(p) for p in pushed])
            if check_guards(st, "child push", need_leaf=False):
                rep.ok(rule, fk + "|push-guards", "%s:%d" % (f.module.relpath, st.lineno), "only overlap test and node type")
        else:
            # each child is pushed iff it exists and ITS box overlaps the query
            okp = len(pushed) == 1
            if okp:
                okp = check_guards(st, "child push", need_leaf=False, box="%s[%s]" % (p_aabbs, u(pushed[0])), extra_sentinels=[u(pushed[0])])
            else:
                rep.bad(rule, fk + "|push %s" % u(st)[:40], "%s:%d" % (f.module.relpath, st.lineno), "several children pushed under one test: each child needs the overlap test of its own box")
            if okp:
                rep.ok(rule, fk + "|push-guards", "%s:%d" % (f.module.relpath, st.lineno), "child pushed iff it exists and its box overlaps")
    if push_time:
        rep.check(all_cols == {C["LEFT_INDEX"], C["RIGHT_INDEX"]}, rule, fk + "|push-both-children", f.where,
                  "the branch case examines the child columns %s, need both LEFT_INDEX=%d and RIGHT_INDEX=%d" % (sorted(all_cols), C["LEFT_INDEX"], C["RIGHT_INDEX"]), "both children examined")
    # leaf append
    appends = []
    for st in iter_stmts(loop.body):
        if isinstance(st, ast.Expr) and isinstance(st.value, ast.Call):
            cn = call_name(st.value)
            if resname and cn in (resname + ".append", resname + ".extend"):
                appends.append(st)
    rep.check(len(appends) == 1, rule, fk + "|leaf-append-once", f.where,
              "expected exactly one append of an overlapping leaf to %s, found %d" % (resname, len(appends)))
    for st in appends:
        arg = st.value.args[0]
        vals = [u(e) for e in arg.elts] if isinstance(arg, (ast.List, ast.Tuple)) else [u(arg)]
        rep.check(vals == [nodevar], rule, fk + "|leaf-append-value", "%s:%d" % (f.module.relpath, st.lineno),
                  "appended %s instead of the popped node index %s" % (vals, nodevar))
        if check_guards(st, "leaf append", need_leaf=True, need_overlap=not push_time):
            rep.ok(rule, fk + "|leaf-append-guards", "%s:%d" % (f.module.relpath, st.lineno), "only overlap test and node type")
    # early exits in the loop
    for st in iter_stmts(loop.body):
        if isinstance(st, (ast.Break, ast.Return, ast.Continue)):
            chain = _guard_chain(pm, st, loop)
            flags = [u(t) for t, pol in chain if pol and isinstance(t, ast.Name) and t.id == p_flag]
            sentinel = any(_is_sentinel_test(t, C, [nodevar]) for t, pol in chain)
            if isinstance(st, ast.Continue):
                # a `continue` only shapes the conditions under which the push / append run; those conditions are judged above
                # (guard clauses are part of the chain), so the statement itself decides nothing
                if sentinel:
                    rep.ok(rule, fk + "|continue-on-sentinel", "%s:%d" % (f.module.relpath, st.lineno))
                continue
            rep.check(bool(flags) and isinstance(st, ast.Break), rule, fk + "|early-exit %s" % type(st).__name__,
                      "%s:%d" % (f.module.relpath, st.lineno),
                      "the traversal is cut short by a %s that is not guarded by the caller's %s flag" % (type(st).__name__.lower(), p_flag),
                      "break only under %s" % p_flag)
    if p_flag is not None:
        d = f.node.args.defaults
        dv = const(d[-1], C) if d else None
        rep.check(dv is False, rule, fk + "|flag-default", f.where,
                  "break_at_first_leaf no longer defaults to False: complete queries would stop at the first leaf")

    # ---- tree against tree
    g = _nf_expr(idx, idx.func(MOD + "::query_overlap_of_other_tree"))
    gk = MOD + "::query_overlap_of_other_tree"
    gp = g.params()
    if len(gp) != 6:
        raise AnalysisError("query_overlap_of_other_tree signature changed")
    r1, n1, a1, r2, n2, a2 = gp
    loops = _find_while(g)
    if len(loops) != 1:
        raise AnalysisError("query_overlap_of_other_tree: expected one while loop")
    loop = loops[0]
    stackname = [n.id for n in ast.walk(loop.test) if isinstance(n, ast.Name)][-1]
    r_prefilter(idx, rep, g, gk, loop, stackname, {"%s[%s]" % (a1, r1): "A", "%s[%s]" % (a2, r2): "B"}, [r1, r2])
    nodevar, shortened = _pop_var(loop, stackname)
    rep.check(nodevar is not None and shortened, rule, gk + "|pop", g.where, "pop-before-push discipline broken")
    if nodevar is None:
        return
    pm = parent_map(g.node)
    aliases = {}
    for st in iter_stmts(loop.body):
        if isinstance(st, ast.Assign) and len(st.targets) == 1 and isinstance(st.targets[0], ast.Name):
            aliases[st.targets[0].id] = st.value
    # seed
    seeds = [st for st in iter_stmts(g.node.body) if isinstance(st, ast.Assign) and u(st.targets[0]) == stackname
             and isinstance(st.value, ast.List)]
    rep.check(any(u(st.value) == "[%s]" % r2 for st in seeds), rule, gk + "|seed", g.where,
              "the traversal stack is not seeded with the second tree's root %s" % r2)
    qcalls = [c for c in calls(loop, "query_overlap")]
    rep.check(len(qcalls) >= 2, rule, gk + "|two-queries", g.where, "expected a pruning query and a complete leaf query of tree 1")

    def q_args_ok(c):
        args = [u(a) for a in c.args[:4]]
        box = args[0]
        if box in aliases:
            box = u(aliases[box])
        return box == "%s[%s]" % (a2, nodevar) and args[1:4] == [r1, n1, a1]

    def q_flag(c):
        for kw in c.keywords:
            if kw.arg == (p_flag or "break_at_first_leaf"):
                return const(kw.value, C)
        if len(c.args) > 4:
            return const(c.args[4], C)
        return False
    pushes = _stack_pushes(loop, stackname)
    rep.check(len(pushes) >= 1, rule, gk + "|push-exists", g.where, "no child push in tree-tree traversal")
    for st, pushed in pushes:
        cols = set()
        for p in pushed:
            acc = _col_access(p, C)
            if acc and acc[0] == n2 and acc[1] == nodevar:
                cols.add(acc[2])
        rep.check(cols == {C["LEFT_INDEX"], C["RIGHT_INDEX"]}, rule, gk + "|push-both-children", "%s:%d" % (g.module.relpath, st.lineno),
                  "tree-2 branch pushes columns %s, need both children" % sorted(cols))
        chain = _guard_chain(pm, st, loop)
        good = True
        nprune = 0
        for test, pol in chain:
            for cj in (conjuncts(test) if pol else [test]):
                if _is_sentinel_test(cj, C, [nodevar]):
                    if _sentinel_polarity(cj, C) == pol:
                        good = False
                        rep.bad(rule, gk + "|push guard %s" % u(cj), "%s:%d" % (g.module.relpath, st.lineno), "children pushed only for the INDEX_NONE sentinel")
                    continue
                kind = _classify_test(cj, C, n2, nodevar, {})
                if kind[0] == "type":
                    leaf = (kind[1] == C["TYPE_LEAF"]) == (kind[2] == pol)
                    if kind[1] == C["TYPE_BRANCH"]:
                        leaf = not (kind[2] == pol)
                    if leaf or kind[3] != n2:
                        good = False
                        rep.bad(rule, gk + "|push guard %s" % u(cj), "%s:%d" % (g.module.relpath, st.lineno), "children pushed for a non-branch / wrong tree")
                    continue
                # pruning: len(query_overlap(...)) >= 1 / > 0 / != 0, or truthiness of len
                pr = _prune_test(cj, C, g.node)
                if pr is not None and pol:
                    c, ok_bound = pr
                    nprune += 1
                    if not ok_bound:
                        good = False
                        rep.bad(rule, gk + "|prune-bound %s" % u(cj), "%s:%d" % (g.module.relpath, st.lineno),
                                "a branch of tree 2 is pruned although its box overlaps at least one leaf of tree 1 (bound is not '>= 1')")
                    if not q_args_ok(c):
                        good = False
                        rep.bad(rule, gk + "|prune-args %s" % u(c), "%s:%d" % (g.module.relpath, st.lineno),
                                "pruning query does not test the popped tree-2 box against tree 1")
                    continue
                good = False
                rep.bad(rule, gk + "|push extra-filter %s" % u(cj), "%s:%d" % (g.module.relpath, st.lineno),
                        "child push additionally filtered by `%s`" % u(cj))
        if good:
            rep.ok(rule, gk + "|push-guards", "%s:%d" % (g.module.relpath, st.lineno), "branch type + tree-1 pruning query only (%d)" % nprune)
    # leaf part
    leaf_q = [c for c in qcalls if q_flag(c) in (False, None) and not _inside_len(pm, c)]
    rep.check(len(leaf_q) == 1, rule, gk + "|leaf-query-complete", g.where,
              "expected exactly one complete (break_at_first_leaf=False) query of tree 1 for a tree-2 leaf, found %d" % len(leaf_q))
    for c in leaf_q:
        rep.check(q_args_ok(c), rule, gk + "|leaf-query-args", "%s:%d" % (g.module.relpath, c.lineno),
                  "leaf query %s does not test the popped tree-2 leaf box against tree 1" % u(c))
        st = c
        while st in pm and not isinstance(st, ast.stmt):
            st = pm[st]
        ovname = u(st.targets[0]) if isinstance(st, ast.Assign) else None
        chain = _guard_chain(pm, st, loop)
        leaf_guard = False
        for test, pol in chain:
            for cj in conjuncts(test):
                kind = _classify_test(cj, C, n2, nodevar, {})
                if kind[0] == "type":
                    leaf = (kind[1] == C["TYPE_LEAF"]) == (kind[2] == pol)
                    if kind[1] == C["TYPE_BRANCH"]:
                        leaf = not (kind[2] == pol)
                    leaf_guard = leaf_guard or leaf
        rep.check(leaf_guard, rule, gk + "|leaf-query-guard", "%s:%d" % (g.module.relpath, c.lineno), "leaf query not under a leaf-type test")
        # result bookkeeping: list1.extend(overlaps); list2.extend([node]*len(overlaps))
        ext = [s for s in iter_stmts(loop.body) if isinstance(s, ast.Expr) and isinstance(s.value, ast.Call)
               and (call_name(s.value) or "").endswith(".extend") and call_name(s.value) != stackname + ".extend"]
        l1 = [s for s in ext if ovname and u(s.value.args[0]) == ovname]
        l2 = [s for s in ext if ovname and u(s.value.args[0]).replace(" ", "") in
              ("[%s]*len(%s)" % (nodevar, ovname), "len(%s)*[%s]" % (ovname, nodevar))]
        rep.check(len(l1) == 1 and len(l2) == 1, rule, gk + "|pair-bookkeeping", g.where,
                  "tree-1 hits and the tree-2 leaf index are not recorded pairwise (need X.extend(%s) and Y.extend([%s]*len(%s)))" % (ovname, nodevar, ovname))
        if len(l1) == 1 and len(l2) == 1:
            list1 = call_name(l1[0].value).rsplit(".", 1)[0]
            list2 = call_name(l2[0].value).rsplit(".", 1)[0]
            rets = [s for s in iter_stmts(g.node.body) if isinstance(s, ast.Return)]
            ok_order = False
            if rets and isinstance(rets[-1].value, ast.Tuple) and len(rets[-1].value.elts) == 3:
                e = rets[-1].value.elts
                pairs_name = u(e[2])
                pairs_def = [s for s in iter_stmts(g.node.body) if isinstance(s, ast.Assign) and u(s.targets[0]) == pairs_name]
                zip_ok = any("zip(%s, %s)" % (list1, list2) in u(s.value) for s in pairs_def)
                ok_order = list1 in u(e[0]) and list2 in u(e[1]) and zip_ok
            rep.check(ok_order, rule, gk + "|return-order", g.where,
                      "returned triple is not (tree-1 indices, tree-2 indices, zip(tree-1, tree-2) pairs)")


def _inside_len(pm, c):
    p = pm.get(c)
    return isinstance(p, ast.Call) and call_name(p) == "len"


def _prune_test(cj, C, fnode=None):
    """len(query_overlap(..)) >= 1  -> (call, bound_ok)."""
    if fnode is not None:
        import copy

        class R(ast.NodeTransformer):
            def visit_Name(self, n):
                r = resolved(fnode, n) if isinstance(n.ctx, ast.Load) else n
                return copy.deepcopy(r) if (r is not n and isinstance(r, ast.Call) and (call_name(r) or "").split(".")[-1] == "query_overlap") else n
        cj = R().visit(copy.deepcopy(cj))
    if isinstance(cj, ast.Compare) and len(cj.ops) == 1:
        op, a, b = compare_triples(cj)[0]
        for x, y, flip in ((a, b, False), (b, a, True)):
            if isinstance(x, ast.Call) and call_name(x) == "len" and x.args and isinstance(x.args[0], ast.Call) \
                    and (call_name(x.args[0]) or "").split(".")[-1] == "query_overlap":
                v = const(y, C)
                if flip:
                    op = {"<": ">", ">": "<", "<=": ">=", ">=": "<=", "==": "==", "!=": "!="}[op]
                ok = (op == ">=" and v == 1) or (op == ">" and v == 0) or (op == "!=" and v == 0)
                return (x.args[0], ok)
    if isinstance(cj, ast.Call) and call_name(cj) == "len" and cj.args and isinstance(cj.args[0], ast.Call) \
            and (call_name(cj.args[0]) or "").split(".")[-1] == "query_overlap":
        return (cj.args[0], True)
    return None


# ---------------------------------------------------------------------------------------------- R-LINKS / R-REFIT
def r_links(idx, rep):
    """R-LINKS / R-REFIT by symbolic execution of insert_leaf and fix_upward_tree over symbolic node indices (rules/treelinks.py): the clauses are
    statements about the POST-STATE of the node table (and about one generic iteration of each loop), so they do not depend on statement order,
    temporaries, helpers (`_replace_child`, `_find_sibling`), conditional expressions or which arm of an `if` handles which case."""
    from . import treelinks as tl
    rule = "R-LINKS"
    rep.rule(rule, "insert_leaf leaves parent/child links mutually consistent: the fresh slot adopts the leaf and the sibling the descent stopped at, both "
                   "point back to it, it inherits the sibling's old parent (read before relinking), the old parent's slot that held the sibling is "
                   "redirected (both cases), the root changes iff the old parent is the sentinel, types are set, the fill level grows by one", floor=10)
    C = _consts(idx)
    f = idx.func(MOD + "::insert_leaf")
    fk = MOD + "::insert_leaf"
    params = f.params()
    if len(params) < 5:
        raise AnalysisError("insert_leaf signature changed")
    ROOT, LEAF, FILL = ("sym", "root"), ("sym", "leaf"), ("sym", "filled_len")
    NONE = tl.const(C["INDEX_NONE"])
    PAR, LEFT, RIGHT, TYP = (tl.const(C[k]) for k in ("PARENT_INDEX", "LEFT_INDEX", "RIGHT_INDEX", "TYPE_INDEX"))
    it, outs = tl.run_function(idx, f.module, C, f, [ROOT, LEAF, ("arr", "nodes"), ("arr", "aabbs"), FILL])
    verdict = {}
    rank = {"ok": 0, "unknown": 1, "bad": 2}

    def put(key, ok, msg, where=None, unknown=False):
        state = "unknown" if unknown else ("ok" if ok else "bad")
        if key not in verdict or rank[state] > rank[verdict[key][0]]:
            verdict[key] = (state, where or f.where, msg)

    def show(v):
        if v is None:
            return "nothing"
        if v[0] == "sym":
            return v[1]
        if v[0] == "const":
            return {C["INDEX_NONE"]: "INDEX_NONE"}.get(v[1], repr(v[1]))
        if v[0] == "rd":
            return "nodes[%s, %s]" % (show(v[1]), {C["PARENT_INDEX"]: "PARENT", C["LEFT_INDEX"]: "LEFT", C["RIGHT_INDEX"]: "RIGHT", C["TYPE_INDEX"]: "TYPE"}.get(v[2][1], v[2][1]))
        if v[0] == "add":
            return "%s + %d" % (show(v[1]), v[2])
        if v[0] == "box":
            return "aabbs[%s]" % show(v[1])
        if v[0] == "merge":
            return "merge(%s)" % ", ".join(show(x) for x in v[1])
        return str(v)[:80]
    for pr in it.problems:
        put("interpretation", False, pr, unknown=True)
    empty = [s for s in outs if s.known(ROOT, NONE) is True]
    full = [s for s in outs if s.known(ROOT, NONE) is not True]
    # first leaf
    okf = bool(empty) and all(s.ret is not None and s.ret[0] == "tuple" and len(s.ret[1]) == 4 and s.ret[1][0] == LEAF and s.ret[1][3] == FILL
                              and s.nodes.get((LEAF, TYP)) == tl.const(C["TYPE_LEAF"])
                              and not [k for k in s.nodes if k != (LEAF, TYP)] for s in empty)
    put("first-leaf-root", okf, "inserting into an empty tree (root == INDEX_NONE) must return the leaf as root, mark it TYPE_LEAF, create no link and keep the fill level")
    if not full:
        raise AnalysisError("insert_leaf: no path for a non-empty tree")
    slots_seen = set()
    descent = [lp for lp in it.loops if lp.test is not None and any(isinstance(x, tuple) and x[:1] == ("rd",) and x[2] == TYP and x[1][0] == "sym" and x[1][1].startswith("it:")
                                                                      for x in _walk_val(lp.test))]
    cursor = None
    if len(descent) == 1:
        lp = descent[0]
        cursor = [x[1][1][3:] for x in _walk_val(lp.test) if isinstance(x, tuple) and x[:1] == ("rd",) and x[2] == TYP and x[1][0] == "sym"][0]
        CUR = ("sym", "it:" + cursor)
        cols = set()
        for env_, nw, bw, done in lp.paths:
            v = env_.get(cursor)
            if v is not None and v[0] == "rd" and v[1] == CUR and v[2] in (LEFT, RIGHT):
                cols.add(v[2][1])
            else:
                cols.add("?" + show(v))
            if nw:
                put("descent-children", False, "the descent loop writes the node table (%s)" % sorted(map(str, nw))[:2], "%s:%d" % (f.module.relpath, lp.lineno))
        put("descent-children", cols == {C["LEFT_INDEX"], C["RIGHT_INDEX"]},
            "every iteration of the descent must step to the left or to the right child of the current node, and both must be possible; one generic iteration "
            "leads to %s" % sorted(map(str, cols)), "%s:%d" % (f.module.relpath, lp.lineno))
    else:
        put("descent-children", False, "expected one descent loop whose test reads the node type of its cursor, found %d" % len(descent), unknown=True)
    for s in full:
        if s.ret is None or s.ret[0] != "tuple" or len(s.ret[1]) != 4:
            put("fresh-slot", False, "insert_leaf does not return (root, nodes, aabbs, filled_len) on every path", unknown=True)
            continue
        r_root, r_nodes, r_aabbs, r_fill = s.ret[1]
        # the row that adopts the leaf
        adopters = sorted({row for (row, col), v in s.nodes.items() if col in (LEFT, RIGHT) and v == LEAF}, key=repr)
        NP = adopters[0] if len(adopters) == 1 else None
        put("fresh-slot", NP == FILL and r_fill == ("add", FILL, 1),
            "the new parent must be the fresh slot `filled_len` and the returned fill level filled_len + 1; the leaf is adopted by %s, returned fill level %s"
            % ([show(a) for a in adopters], show(r_fill)))
        if NP is None:
            continue
        kids = {c: s.nodes.get((NP, c)) for c in (LEFT, RIGHT)}
        sibs = [v for v in kids.values() if v != LEAF]
        SIB = sibs[0] if len(sibs) == 1 else None
        put("new-parent-children", SIB is not None and None not in kids.values(),
            "the new parent's children are %s; need the inserted leaf and its sibling in the two distinct slots" % {show(k): show(v) for k, v in kids.items()})
        if SIB is None:
            continue
        put("sibling-is-descent-end", cursor is not None and SIB[0] == "sym" and SIB[1].startswith("exit:%s@" % cursor),
            "the sibling %s is not the node the descent stopped at" % show(SIB))
        put("child-store leaf <-> new parent", s.nodes.get((LEAF, PAR)) == NP, "the leaf is a child of the new parent but nodes[leaf, PARENT_INDEX] is %s" % show(s.nodes.get((LEAF, PAR))))
        put("child-store sibling <-> new parent", s.nodes.get((SIB, PAR)) == NP,
            "the sibling is a child of the new parent but nodes[sibling, PARENT_INDEX] is %s" % show(s.nodes.get((SIB, PAR))))
        OP = ("rd", SIB, PAR)
        put("inherit-parent (old-parent of the sibling, read before relinking)", s.nodes.get((NP, PAR)) == OP,
            "the new parent must inherit the sibling's OLD parent (pre-state nodes[sibling, PARENT_INDEX]); it gets %s" % show(s.nodes.get((NP, PAR))))
        put("leaf-type", s.nodes.get((LEAF, TYP)) == tl.const(C["TYPE_LEAF"]), "inserted node is not marked TYPE_LEAF")
        put("branch-type", s.nodes.get((NP, TYP)) == tl.const(C["TYPE_BRANCH"]), "new parent is not marked TYPE_BRANCH")
        extra = {k: v for k, v in s.nodes.items() if k[0] not in (NP, SIB, LEAF)}
        k_ = s.known(OP, NONE)
        if k_ is None:
            put("root-iff-sentinel", False, "a path relinks the sibling without deciding whether its old parent is INDEX_NONE (the root case)")
            continue
        put("root-iff-sentinel", True, "")
        if k_:
            put("root-update", r_root == NP, "when the sibling was the root (old parent == INDEX_NONE) the root must become the new parent; returned root: %s" % show(r_root))
            put("redirect", not extra, "with old parent == INDEX_NONE no other row may be written; written: %s" % sorted((show(a), show(b)) for a, b in extra))
        else:
            put("root-unchanged-otherwise", r_root == ROOT, "root reassigned (%s) although the old parent exists" % show(r_root))
            red = [(k, v) for k, v in extra.items()]
            ok_red = len(red) == 1 and red[0][0][0] == OP and red[0][0][1] in (LEFT, RIGHT) and red[0][1] == NP
            put("redirect", ok_red, "the old parent's child slot that held the sibling must be redirected to the new parent (and nothing else written); writes to other rows: %s"
                % sorted(("nodes[%s, %s]" % (show(a[0]), a[1][1]), show(b)) for a, b in extra.items()))
            if ok_red:
                c = red[0][0][1]
                other = RIGHT if c == LEFT else LEFT
                held = s.known(("rd", OP, c), SIB) is True or s.known(("rd", OP, other), SIB) is False
                put("redirect-slot-match", held, "slot %s of the old parent is redirected on a path that has not established that this slot holds the sibling" % c[1])
                slots_seen.add(c[1])
        # refit (R-REFIT, reported below)
        refits = [e for e in s.events if e[0] == "refit"]
        box_np = s.boxes.get(NP) if not refits else refits[0][2].get(NP)
        want_box = ("merge", tuple(sorted((("box", LEAF), ("box", SIB)), key=repr)))
        starts_np = len(refits) == 1 and refits[0][1] == NP
        starts_op = len(refits) == 1 and refits[0][1] == OP
        put("R-REFIT|upward-fix-called", starts_np or (starts_op and box_np == want_box),
            "insert_leaf must refit the ancestors starting at the new parent (or at the old parent after storing the new parent's box); refit calls start at %s"
            % [show(e[1]) for e in refits])
        put("R-REFIT|new-parent-box", starts_np or box_np == want_box,
            "aabbs[new parent] is neither stored as the merge of the leaf's and the sibling's boxes (%s) nor recomputed by an upward refit that starts at the new parent" % show(box_np))
        put("R-REFIT|returns-refitted-boxes", r_aabbs == ("arr", "aabbs") and r_nodes == ("arr", "nodes"), "insert_leaf must hand back the node table and the boxes")
    put("redirect-both-cases", slots_seen == {C["LEFT_INDEX"], C["RIGHT_INDEX"]},
        "redirect must handle the sibling being the left or the right child of the old parent; slots redirected over all paths: %s" % sorted(slots_seen))
    refit_items = {}
    for key, (state, where, msg) in sorted(verdict.items()):
        if key.startswith("R-REFIT|"):
            refit_items[key[8:]] = (state, where, msg)
            continue
        getattr(rep, {"ok": "ok", "bad": "bad", "unknown": "unknown"}[state])(rule, fk + "|" + key, where, msg if state != "ok" else "holds on every path")


    # ---- refit
    rule2 = "R-REFIT"
    rep.rule(rule2, "_merge_aabb = per-axis (min of lows, max of highs); the new parent's box merges leaf and sibling; "
                    "fix_upward_tree re-merges both children at every ancestor up to the sentinel", floor=8)
    m = idx.func(MOD + "::_merge_aabb")
    mk = MOD + "::_merge_aabb"
    mp = m.params()
    # SEMANTIC reading first: the function body is evaluated (this module's evaluator) on the grid of integer box pairs that realises every order type of the
    # bounds of an axis, on every path (fast paths `if one encloses the other: return that.copy()` included): the result must be the per-axis (min, max)
    sem = _merge_semantic(m, mp)
    if sem is not None:
        for k in range(3):
            for c in range(2):
                wit = sem.get((k, c))
                rep.check(wit is None, rule2, mk + "|row%d col%d" % (k, c), m.where,
                          "for the boxes %s and %s _merge_aabb returns %s; the merged box must be %s (entry [%d,%d] = %s of the two %s bounds): a branch box that does not "
                          "contain both children hides their leaves from every query" % ((wit or [0] * 4)[0], (wit or [0] * 4)[1], (wit or [0] * 4)[2], (wit or [0] * 4)[3], k, c,
                                                                                          "min" if c == 0 else "max", "lower" if c == 0 else "upper"),
                          "per-axis %s on all grid pairs, every path" % ("min" if c == 0 else "max"))
        sem = True
    # the 3x2 matrix of entry expressions, however it is written: a literal `np.array([[..], [..], [..]])` or element stores `T[i, j] = e` into
    # a fresh array that is returned (loops over range(3) unrolled)
    from ..core.inline import normalise_statements as _norm
    mbody = _norm(idx, m.module, strip_docstring(m.node.body))
    rets = [s for s in iter_stmts(mbody) if isinstance(s, ast.Return)]
    entries = {}
    if len(rets) == 1 and isinstance(rets[0].value, ast.Call) and rets[0].value.args and isinstance(rets[0].value.args[0], ast.List):
        lit = rets[0].value.args[0]
        if len(lit.elts) == 3 and all(isinstance(r, ast.List) and len(r.elts) == 2 for r in lit.elts):
            entries = {(k, c): lit.elts[k].elts[c] for k in range(3) for c in range(2)}
    elif len(rets) == 1 and isinstance(rets[0].value, ast.Name):
        T = rets[0].value.id
        for st_ in mbody:
            if isinstance(st_, ast.Assign) and len(st_.targets) == 1 and isinstance(st_.targets[0], ast.Subscript) and u(st_.targets[0].value) == T:
                el = index_elts(st_.targets[0])
                if len(el) == 2 and isinstance(const(el[0], C), int) and isinstance(const(el[1], C), int):
                    entries[(const(el[0], C), const(el[1], C))] = st_.value
    # named entries (`x_min, x_max = min(..), max(..)` ... `np.array([[x_min, x_max], ...])`) are read through their definitions
    from ..core.astutil import inline_temps_in as _inl
    _mfn = ast.FunctionDef(name="_", args=m.node.args, body=list(mbody), decorator_list=[], lineno=m.node.lineno, col_offset=0)
    for kc_, e_ in list(entries.items()):
        if isinstance(e_, ast.Name):
            r_ = _inl(_mfn, e_)
            if r_ is not None and not isinstance(r_, ast.Name):
                ast.copy_location(r_, e_)
                entries[kc_] = r_
    if sem is True:
        entries = {}
    elif set(entries) != {(k, c) for k in range(3) for c in range(2)}:
        raise AnalysisError("_merge_aabb: the six entries of the merged box are not derivable (neither a literal 3x2 array nor element stores)")

    class _Row:
        def __init__(self, k):
            self.elts = [entries[(k, 0)], entries[(k, 1)]]

    class _Arr:
        elts = [_Row(0), _Row(1), _Row(2)] if sem is not True else []
    arr = _Arr
    for k, row in enumerate(arr.elts):
        for c, fn in ((0, "min"), (1, "max")):
            e = row.elts[c]
            good = False
            if isinstance(e, ast.Call) and call_name(e) in (fn, "np." + fn + "imum", "np.f" + fn) and len(e.args) == 2:
                sides = set()
                for a in e.args:
                    if isinstance(a, ast.Subscript) and isinstance(a.value, ast.Name):
                        el = index_elts(a)
                        if len(el) == 2 and const(el[0], C) == k and const(el[1], C) == c:
                            sides.add(a.value.id)
                good = sides == set(mp[:2])
            rep.check(good, rule2, mk + "|row%d col%d" % (k, c), "%s:%d" % (m.module.relpath, e.lineno),
                      "entry [%d,%d] is `%s`; need %s(%s[%d,%d], %s[%d,%d])" % (k, c, u(e), fn, mp[0], k, c, mp[1], k, c))
    for key, (state, where, msg) in sorted(refit_items.items()):
        getattr(rep, state)(rule2, fk + "|" + key, where, msg if state != "ok" else "holds on every path")
    # fix_upward_tree: one generic iteration of its loop
    g = idx.func(MOD + "::fix_upward_tree")
    gk = MOD + "::fix_upward_tree"
    START = ("sym", "start")
    it2, outs2 = tl.run_function(idx, g.module, C, g, [START, ("arr", "nodes"), ("arr", "aabbs")])
    if len(it2.loops) != 1:
        raise AnalysisError("fix_upward_tree: expected one loop")
    lp = it2.loops[0]
    gw = "%s:%d" % (g.module.relpath, lp.lineno)
    cur = [v for v in lp.assigned if lp.test is not None and ("sym", "it:" + v) in list(_walk_val(lp.test))]
    if len(cur) != 1:
        raise AnalysisError("fix_upward_tree: the loop test does not read exactly one loop variable")
    cur = cur[0]
    CUR = ("sym", "it:" + cur)
    cont = [s for t, s in it2.cond(lp.test, tl.State()) if t]
    rep.check(bool(cont) and all(s.known(CUR, NONE) is False for s in cont), rule2, gk + "|walk-to-sentinel", gw,
              "the upward walk does not continue exactly while the current index is not INDEX_NONE")
    rep.check(lp.entry.get(cur) == START, rule2, gk + "|starts-at-argument", gw, "the walk does not start at the node it is given")
    want = ("merge", tuple(sorted((("box", ("rd", CUR, LEFT)), ("box", ("rd", CUR, RIGHT))), key=repr)))
    rep.check(bool(lp.paths) and all(bw == {CUR: want} and not nw for env_, nw, bw, done in lp.paths), rule2, gk + "|remerge-both-children", gw,
              "ancestor box is not recomputed as the merge of its left and right child boxes (one generic iteration stores %s)"
              % [sorted((show(a), show(b)) for a, b in bw.items()) for _, _, bw, _ in lp.paths][:2])
    rep.check(bool(lp.paths) and all(env_.get(cur) == ("rd", CUR, PAR) and not done for env_, nw, bw, done in lp.paths), rule2, gk + "|step-to-parent", gw,
              "the walk does not move to nodes[current, PARENT_INDEX] (it moves to %s)" % [show(env_.get(cur)) for env_, _, _, _ in lp.paths][:2])
    rep.check(bool(outs2) and all(s.ret == ("arr", "aabbs") for s in outs2), rule2, gk + "|returns-boxes", g.where, "fix_upward_tree must return the boxes it refitted")


def _walk_val(v):
    yield v
    if isinstance(v, tuple):
        for x in v:
            if isinstance(x, tuple):
                yield from _walk_val(x)



def _is_sentinel_test(test, C, names):
    if isinstance(test, ast.Compare) and len(test.ops) == 1:
        op, a, b = compare_triples(test)[0]
        for x, y in ((a, b), (b, a)):
            if u(x) in names and const(y, C) == C["INDEX_NONE"] and op in ("==", "!="):
                return True
            if u(x) in names and const(y, C) == 0 and op in ("<", ">="):
                return True
    return False


def _sentinel_polarity(test, C):
    """True when the test is true for the sentinel (== INDEX_NONE or < 0)."""
    op, a, b = compare_triples(test)[0]
    return op in ("==", "<")


# ---------------------------------------------------------------------------------------------- R-SENTINEL
def r_sentinel(idx, rep, rule="R-SENTINEL"):
    rep.rule(rule, "a root index that may be the sentinel INDEX_NONE (empty tree) is never used as an array index unless a "
                   "comparison against the sentinel dominates the use (in the compiled query or in every caller)", floor=3)
    C = _consts(idx)
    m = idx.module(MOD)
    cls = idx.cls(MOD + "::AabbTree")
    # does the constructor seed root with the sentinel?
    init = cls.methods.get("__init__")
    seeded = False
    if init:
        for st in iter_stmts(init.node.body):
            if isinstance(st, ast.Assign) and u(st.targets[0]) == "self.root" and const(st.value, C) == C["INDEX_NONE"]:
                seeded = True
    if not seeded:
        rep.note("AabbTree.__init__ no longer seeds root with INDEX_NONE; R-SENTINEL obligations are trivially met")
    for fname in ("query_overlap", "query_overlap_of_other_tree"):
        f = _nf_expr(idx, idx.func(MOD + "::" + fname))
        fk = MOD + "::" + fname
        # root parameters: those that receive `<x>.root` at a call site in the class, or are forwarded as such
        roots = [p for p in f.params() if p.startswith("root")]
        if not roots:
            raise AnalysisError("%s: no root parameter found" % fname)
        loops = _find_while(f)
        if len(loops) != 1:
            raise AnalysisError("%s: expected one loop" % fname)
        loop = loops[0]
        stackname = [n.id for n in ast.walk(loop.test) if isinstance(n, ast.Name)][-1]
        seeds = [st for st in iter_stmts(f.node.body) if isinstance(st, ast.Assign) and u(st.targets[0]) == stackname
                 and st.lineno < loop.lineno]
        seeded_roots = [r for r in roots if any(r in {n.id for n in ast.walk(st.value) if isinstance(n, ast.Name)} for st in seeds)]
        # the root may also enter the stack by an append in front of the loop (`if root != INDEX_NONE and ...: stack.append(root)`)
        for top_ in f.node.body:
            if top_ is loop:
                break
            for st_ in ast.walk(top_):
                if isinstance(st_, ast.Expr) and isinstance(st_.value, ast.Call) and call_name(st_.value) in (stackname + ".append", stackname + ".extend"):
                    for r in roots:
                        if r in {n.id for n in ast.walk(st_.value) if isinstance(n, ast.Name)} and r not in seeded_roots:
                            seeded_roots.append(r)
        nodevar, _ = _pop_var(loop, stackname)
        for r in roots:
            if r in seeded_roots:
                guarded = _guarded_in_function(f, loop, r, nodevar, C) or not seeded
                how = "in-function guard"
                if not guarded:
                    guarded = _all_callers_guard(idx, cls, fname, f.params().index(r), C)
                    how = "every caller guards"
                rep.check(guarded, rule, fk + "|%s" % r, f.where,
                          "%s may be INDEX_NONE (empty tree: AabbTree.__init__ sets root = INDEX_NONE) and reaches the index "
                          "`[%s]` through the stack without any comparison against the sentinel: interpreted IndexError / "
                          "compiled out-of-bounds read" % (r, nodevar), how)
            else:
                # forwarded to another query: obligation is discharged there
                fw = [c for c in calls(f.node, "query_overlap") if any(u(a) == r for a in c.args)]
                rep.check(bool(fw), rule, fk + "|%s" % r, f.where,
                          "root parameter %s is neither traversed nor forwarded to a guarded query" % r,
                          "forwarded to query_overlap (obligation discharged there)")


def _guarded_in_function(f, loop, root, nodevar, C):
    # 1. early exit before the loop
    for st in f.node.body:
        if st is loop:
            break
        if isinstance(st, ast.If) and _is_sentinel_test(st.test, C, [root]) and _sentinel_polarity(st.test, C):
            if any(isinstance(s, (ast.Return, ast.Raise)) for s in st.body):
                return True
    # 2. conditional seeding:  if root != INDEX_NONE: stack.append(root)
    for st in f.node.body:
        if st is loop:
            break
        if isinstance(st, ast.If) and _is_sentinel_test(st.test, C, [root]) and not _sentinel_polarity(st.test, C):
            if any(root in u(s) for s in st.body):
                return True
    pm = parent_map(f.node)
    # 2b. invariant "the stack never holds the sentinel": EVERY push — the root in front of the loop and every child inside it — is dominated by a test that
    #     excludes the sentinel for the very value that is pushed (`x != INDEX_NONE and ...` evaluated left to right)
    stackname_ = [n.id for n in ast.walk(loop.test) if isinstance(n, ast.Name)][-1]
    all_pushes = [st_ for st_ in ast.walk(f.node) if isinstance(st_, ast.Expr) and isinstance(st_.value, ast.Call)
                  and call_name(st_.value) in (stackname_ + ".append", stackname_ + ".extend")]
    literal_seed = [st_ for st_ in iter_stmts(f.node.body) if isinstance(st_, ast.Assign) and u(st_.targets[0]) == stackname_ and isinstance(st_.value, ast.List) and st_.value.elts]
    if all_pushes and not literal_seed:
        good = True
        for st_ in all_pushes:
            arg_ = st_.value.args[0] if st_.value.args else None
            vals_ = list(arg_.elts) if isinstance(arg_, (ast.List, ast.Tuple)) else [arg_]
            chain_ = _guard_chain(pm, st_, f.node)
            for v_ in vals_:
                ok_ = any(_is_sentinel_test(c_, C, [u(v_)]) and _sentinel_polarity(c_, C) != pol_ for t_, pol_ in chain_ for c_ in (conjuncts(t_) if pol_ else [t_]))
                good = good and ok_
        if good:
            return True
    # 3. every use of the popped variable as an index is dominated by a test that excludes the sentinel (enclosing if, or a guard clause
    #    in front of it — both are part of the guard chain)
    if not nodevar:
        return False
    uses = []
    for st in iter_stmts(loop.body):
        if isinstance(st, (ast.If, ast.For, ast.While)):
            exprs = [st.test] if isinstance(st, (ast.If, ast.While)) else [st.iter]
        else:
            exprs = [st]
        for e in exprs:
            if any(isinstance(n, ast.Subscript) and nodevar in {x.id for x in ast.walk(n.slice) if isinstance(x, ast.Name)} for n in ast.walk(e)):
                uses.append(st)
    if not uses:
        return True
    for st in uses:
        chain = _guard_chain(pm, st, loop)
        if isinstance(st, ast.If):
            # the test of an if is evaluated under the guards of the if statement itself
            pass
        ok = any(_is_sentinel_test(t, C, [nodevar]) and _sentinel_polarity(t, C) != pol for t, pol in chain)
        if not ok:
            return False
    return True


def _all_callers_guard(idx, cls, fname, argpos, C):
    found = 0
    for meth in cls.methods.values():
        for c in calls(meth.node, fname):
            found += 1
            if argpos >= len(c.args):
                return False
            rootexpr = u(c.args[argpos])
            ok = False
            for st in meth.node.body:
                if st.lineno >= c.lineno:
                    break
                if isinstance(st, ast.If) and _is_sentinel_test(st.test, C, [rootexpr]) and _sentinel_polarity(st.test, C) \
                        and any(isinstance(s, (ast.Return, ast.Raise)) for s in st.body):
                    ok = True
            if not ok:
                return False
    return found > 0


# ---------------------------------------------------------------------------------------------- R-BOOKKEEP / R-INDEXSPACE
def r_bookkeep(idx, rep):
    rule = "R-BOOKKEEP"
    rep.rule(rule, "AabbTree.insert_aabbs keeps nodes / aabbs / external_data_list / insert_index_list parallel: batch payload "
                   "appended before padding, all padded to len(nodes), all truncated to filled_len, compiled results "
                   "assigned back in the callee's return order", floor=10)
    C = _consts(idx)
    cls = idx.cls(MOD + "::AabbTree")
    f = cls.methods.get("insert_aabbs")
    if f is None:
        raise AnalysisError("AabbTree.insert_aabbs vanished")
    fk = MOD + "::AabbTree.insert_aabbs"
    import copy as _copy
    from ..core.inline import inline_single_exit_helpers
    f0, f = f, _copy.copy(f)
    # small private helpers of the module (padding, index ranges) are read as the statements they contain
    f.node = inline_single_exit_helpers(idx, f0.module, f0.node, only=lambda c: c.module is f0.module and c.name.startswith("_") and not c.njit)
    body = list(iter_stmts(f.node.body))
    params = f.params()
    p_batch = params[1]
    p_ext = params[2] if len(params) > 2 else None
    attrs = ["nodes", "aabbs", "external_data_list", "insert_index_list"]
    # The container clauses are decided by abstract execution (rules/bookkeep.py): lengths are linear forms over F (fill level at entry), n (batch
    # size), F2 (fill level returned by the compiled insertion); containers are lists of segments.  Entry invariant len(X) == filled_len: 0 == 0 after
    # __init__, re-established by the truncation clause at every exit.
    from . import bookkeep as bk
    F, n_, F2 = bk.Lin.sym("F"), bk.Lin.sym("n"), bk.Lin.sym("F2")
    ini = bk.initial_state(idx, cls, f0.module)
    ini_ok = ini is not None and all(isinstance(ini.get("self." + a), bk.Seq) and ini["self." + a].length() == bk.Lin() for a in attrs) \
        and ini.get("self.filled_len") == bk.Lin()
    if ini is None or any(ini.get("self." + a) is None for a in attrs):
        rep.unknown(rule, fk + "|entry invariant", cls.methods["__init__"].where, "__init__ not interpretable: containers / fill level after construction unknown")
    else:
        rep.check(ini_ok, rule, fk + "|entry invariant", cls.methods["__init__"].where,
                  "after __init__ every per-node container must be empty and filled_len 0 (len(X) == filled_len is what insert_aabbs relies on)")
    runs = bk.analyse(idx, cls, f0.module)
    verdict = {}          # key -> (state, where, msg): worst over variants and paths

    def put(key, state, where, msg):
        rank = {"ok": 0, "unknown": 1, "bad": 2}
        if key not in verdict or rank[state] > rank[verdict[key][0]]:
            verdict[key] = (state, where, msg)

    n_cp = 0
    orders = []
    for variant, cps, finals, pb_, pe_ in runs:
        for env, st, order_val in cps:
            orders.append((variant, st, order_val))
            n_cp += 1
            where = "%s:%d" % (f.module.relpath, st.lineno)
            nodes = env.get("self.nodes")
            N = nodes.length() if isinstance(nodes, bk.Seq) else None
            for a in attrs[1:]:
                X = env.get("self." + a)
                if not isinstance(X, bk.Seq) or X.length() is None or N is None:
                    put("pad %s" % a, "unknown", where, "length of self.%s / self.nodes at the compiled call not derivable (%s)" % (a, variant))
                    put("payload-before-pad %s" % a, "unknown", where, "layout of self.%s at the compiled call not derivable (%s)" % (a, variant))
                    continue
                put("pad %s" % a, "ok" if X.length() == N else "bad", where,
                    "self.%s is not padded up to len(self.nodes) before the compiled insertion: len = %r, len(self.nodes) = %r (%s; F = fill level at entry, n = batch size)"
                    % (a, X.length(), N, variant))
                want = {"aabbs": lambda k: k == ("payload", "batch"), "external_data_list": lambda k: k == ("payload", "ext"),
                        "insert_index_list": lambda k: k[0] == "range"}[a]
                if a == "external_data_list" and variant.startswith("without"):
                    # no payload: rows F .. F+n-1 must exist and must not be somebody else's payload
                    bad_ = [k for k, l in X.segs if k[0] in ("payload", "range")]
                    put("payload-before-pad %s" % a, "bad" if bad_ else "ok", where, "without external data the rows of the batch must be padding, found %r" % (X,))
                    continue
                hit = X.offset_of(want)
                ok_ = hit is not None and hit[0] == F and hit[1] == n_
                put("payload-before-pad %s" % a, "ok" if ok_ else "bad", where,
                    "batch payload of self.%s must occupy rows old_filled_len .. old_filled_len + n - 1 (leaf k and payload k share index old_filled_len + k); layout at the "
                    "compiled call: %r (%s)" % (a, X, variant))
            # fill level handed over = F + n; capacity: n new leaves create up to n new parents
            fl = env.get("self.filled_len")
            put("old-filled-len", "unknown" if not isinstance(fl, bk.Lin) else ("ok" if fl == F + n_ else "bad"), where,
                "the fill level handed to the compiled insertion must be old fill level + batch size, found %r (%s)" % (fl, variant))
            if N is None:
                put("capacity", "unknown", where, "len(self.nodes) at the compiled call not derivable")
            else:
                spare = N - (F + n_.scale(2))
                put("capacity", "ok" if all(v >= 0 for v in spare.values()) else "bad", where,
                    "node rows at the compiled call: %r; n new leaves need up to n new parents, i.e. F + 2*n rows (rows are filled with INDEX_NONE by np.full)" % (N,))
        for env in finals:
            if "<ret>" in env and not any(isinstance(env.get("self." + a), bk.Seq) and env["self." + a].length() != F for a in attrs):
                continue           # the empty-batch exit: nothing changed
            fl = env.get("self.filled_len")
            for a in attrs:
                X = env.get("self." + a)
                L = X.length() if isinstance(X, bk.Seq) else None
                if L is None or not isinstance(fl, bk.Lin):
                    put("truncate %s" % a, "unknown", f.where, "final length of self.%s not derivable (%s)" % (a, variant))
                else:
                    put("truncate %s" % a, "ok" if L == fl else "bad", f.where,
                        "self.%s is not truncated to self.filled_len after the insertion (parallel containers diverge): final length %r, fill level %r (%s)" % (a, L, fl, variant))
    if n_cp == 0:
        raise AnalysisError("AabbTree.insert_aabbs: no call of the compiled insert_aabbs reached by the interpreter")
    for a in attrs:
        verdict.setdefault("truncate %s" % a, ("unknown", f.where, "no final state"))
    for key, (state, where, msg) in sorted(verdict.items()):
        if state == "ok":
            rep.ok(rule, fk + "|" + key, where, "holds on every path, with and without external data")
        elif state == "bad":
            rep.bad(rule, fk + "|" + key, where, msg)
        else:
            rep.unknown(rule, fk + "|" + key, where, msg)
    # nodes extension happens before aabbs append? leaves of the batch land at old_filled_len.. because every list was
    # truncated to filled_len by the previous call: check that the appended aabbs come first (axis=0 append at the end)
    # compiled call assignment
    cs = [st for st in body if isinstance(st, ast.Assign) and isinstance(st.value, ast.Call) and call_name(st.value) == "insert_aabbs"]
    rep.check(len(cs) == 1, rule, fk + "|compiled-call", f.where, "expected exactly one call of the compiled insert_aabbs")
    if len(cs) == 1:
        st = cs[0]
        tg = [u(t) for t in st.targets[0].elts] if isinstance(st.targets[0], ast.Tuple) else []
        ar = [u(a) for a in st.value.args]
        callee = idx.func(MOD + "::insert_aabbs")
        cp = callee.params()
        rets = [s for s in iter_stmts(callee.node.body) if isinstance(s, ast.Return)]
        ret_names = [u(e) for e in rets[-1].value.elts] if rets and isinstance(rets[-1].value, ast.Tuple) else []
        ok = len(tg) == len(ret_names) and all(
            tg[i] == ar[cp.index(ret_names[i])] for i in range(len(tg)) if ret_names[i] in cp and cp.index(ret_names[i]) < len(ar)) \
            and all(r in cp for r in ret_names)
        rep.check(ok, rule, fk + "|result-order", "%s:%d" % (f.module.relpath, st.lineno),
                  "targets %s do not line up with the callee's returned %s (arguments %s)" % (tg, ret_names, ar))
        # inner: insert_aabbs loops over insert_order and threads state through insert_leaf
        il = calls(callee.node, "insert_leaf")
        ok2 = False
        if len(il) == 1:
            leafp = idx.func(MOD + "::insert_leaf").params()
            a = [u(x) for x in il[0].args]
            fors = [s for s in iter_stmts(callee.node.body) if isinstance(s, ast.For)]
            if fors and len(a) == 5:
                lp_ = fors[0]
                # the leaf handed over is one element of insert_order per iteration: `for i in insert_order` or `for k in range(len(insert_order)): insert_order[k]`
                elem = None
                if u(lp_.iter) == cp[4]:
                    elem = u(lp_.target)
                elif isinstance(lp_.iter, ast.Call) and call_name(lp_.iter) == "range" and len(lp_.iter.args) == 1 and u(lp_.iter.args[0]).replace(" ", "") in (
                        "len(%s)" % cp[4], "%s.shape[0]" % cp[4]) and isinstance(lp_.target, ast.Name):
                    elem = "%s[%s]" % (cp[4], lp_.target.id)
                a1 = u(resolved(callee.node, il[0].args[1])) if isinstance(il[0].args[1], ast.Name) else a[1]
                ok2 = elem is not None and (a[0] == cp[0] and (a[1] == elem or a1 == elem) and a[2] == cp[1] and a[3] == cp[2] and a[4] == cp[3])
        rep.check(ok2, rule, MOD + "::insert_aabbs|thread-state", callee.where,
                  "compiled insert_aabbs must call insert_leaf(root, i, nodes, aabbs, filled_len) for each i of insert_order")
    old = [st for st in body if isinstance(st, ast.Assign) and isinstance(st.targets[0], ast.Name) and u(st.value) == "self.filled_len"]

    # ---- index space
    rule2 = "R-INDEXSPACE"
    rep.rule(rule2, "every value reaching the insert_order argument of the compiled insert_aabbs is in NODE index space "
                    "(old_filled_len + batch position), never a batch-local permutation", floor=2)
    # decided on the VALUE that reaches the compiled call on each path of the length interpreter: an index range [start, start + len) or a permutation
    # of one (argsort / _sort_aabbs of a slice, plus an offset); node space is start == F (fill level at entry) and len == n (batch size)
    seen_keys = set()
    for variant, st_, ov in orders:
        if isinstance(ov, bk.Seq) and len(ov.segs) == 1 and ov.segs[0][0][0] == "range":
            start, ln, what = ov.segs[0][0][1], ov.segs[0][1], "range"
        elif isinstance(ov, bk.Perm):
            start, ln, what = ov.start, ov.len, "permutation of %s" % ov.over
        else:
            start = ln = what = None
        key = fk + "|insert order: %s" % ("%s from %r, %r entries" % (what, start, ln) if what else "not derivable")
        if key in seen_keys:
            continue
        seen_keys.add(key)
        where_ = "%s:%d" % (f.module.relpath, st_.lineno)
        if what is None:
            rep.unknown(rule2, key, where_, "the insertion order handed to the compiled insert_aabbs is not derivable on a path (%s)" % variant)
        elif start == F and ln == n_ and (what == "range" or what.endswith("batch")):
            rep.ok(rule2, key, where_, "node index space")
        elif start == bk.Lin():
            rep.bad(rule2, key, where_,
                    "a batch-local permutation (positions 0..n-1 inside the batch) is used as node indices: on any batch after the first, leaves old_filled_len.. are "
                    "never inserted and old nodes are re-inserted")
        else:
            rep.bad(rule2, key, where_, "the insertion order is a %s starting at %r with %r entries; the batch occupies the node indices F .. F + n - 1 (F = fill level at "
                                        "entry, n = batch size)" % (what, start, ln))
    # in-place shuffles keep the space
    # _sort_aabbs sorts along the x low coordinate: any key is fine, but it must return a permutation (argsort)
    s = idx.func(MOD + "::_sort_aabbs")
    rets = [x for x in iter_stmts(s.node.body) if isinstance(x, ast.Return)]
    rep.check(len(rets) == 1 and "argsort" in u(rets[0].value), rule2, MOD + "::_sort_aabbs|permutation", s.where,
              "_sort_aabbs must return an argsort permutation of its argument")


def r_unique(idx, rep):
    rule = "R-UNIQUE"
    rep.rule(rule, "index arrays returned by overlaps_aabb_tree / all_aabbs_overlap are de-duplicated with np.unique; "
                   "pairs are returned as produced", floor=2)
    cls = idx.cls(MOD + "::AabbTree")
    f = cls.methods.get("overlaps_aabb_tree")
    if f is None:
        raise AnalysisError("AabbTree.overlaps_aabb_tree vanished")
    rets = [s for s in iter_stmts(f.node.body) if isinstance(s, ast.Return)]
    ok = False
    if rets and isinstance(rets[-1].value, ast.Tuple) and len(rets[-1].value.elts) == 4:
        e = rets[-1].value.elts
        ok = all(isinstance(x, ast.Call) and call_name(x) == "np.unique" for x in e[1:3])
    rep.check(ok, rule, MOD + "::AabbTree.overlaps_aabb_tree|unique", f.where, "overlap_self / overlap_other are not de-duplicated")
    # call argument roles: (self.root, self.nodes, self.aabbs, other.root, other.nodes, other.aabbs)
    cs = calls(f.node, "query_overlap_of_other_tree")
    ok = len(cs) == 1 and [u(a) for a in cs[0].args] == ["self.root", "self.nodes", "self.aabbs", "other.root", "other.nodes", "other.aabbs"]
    rep.check(ok, rule, MOD + "::AabbTree.overlaps_aabb_tree|roles", f.where, "tree-tree query arguments are not (self root/nodes/aabbs, other root/nodes/aabbs)")
    g = cls.methods.get("overlaps_aabb")
    cs = calls(g.node, "query_overlap") if g else []
    gp = g.params() if g else []
    ok = len(cs) == 1 and [u(a) for a in cs[0].args[:4]] == [gp[1], "self.root", "self.nodes", "self.aabbs"] and len(cs[0].args) == 4 and not cs[0].keywords
    rep.check(ok, rule, MOD + "::AabbTree.overlaps_aabb|roles", g.where if g else "?", "box query arguments are not (aabb, self.root, self.nodes, self.aabbs) or request an early exit")


# ---------------------------------------------------------------------------------------------------------------------------------
# Pre-filters in front of a traversal: anything that returns, or takes the root off the stack, before the loop answers the query
# without the traversal.  That is sound exactly when its condition implies that the two boxes do not overlap under the closed-
# interval test; the condition is evaluated (by this module's own evaluator — nothing of the repository is executed) on a grid of
# integer boxes that realises every order type of the four bounds of an axis.

def _num_eval(e, env):
    if isinstance(e, ast.Constant) and isinstance(e.value, (int, float, bool)):
        return e.value
    if isinstance(e, ast.Name):
        if e.id in env:
            return env[e.id]
        raise _NotModelled("name `%s`" % e.id)
    if isinstance(e, (ast.List, ast.Tuple)):
        return [_num_eval(x, env) for x in e.elts]
    if isinstance(e, ast.Subscript):
        v = _num_eval(e.value, env)
        ixs = index_elts(e)
        if len(ixs) == 2 and isinstance(ixs[0], ast.Slice) and ixs[0].lower is None and ixs[0].upper is None and ixs[0].step is None and not isinstance(ixs[1], ast.Slice):
            k = _num_eval(ixs[1], env)          # column k of a nested list: X[:, k]
            if isinstance(k, int) and isinstance(v, list) and all(isinstance(r_, list) for r_ in v):
                return [r_[k] for r_ in v]
            raise _NotModelled("index `%s`" % u(e))
        for ix in ixs:
            if isinstance(ix, ast.Slice):
                raise _NotModelled("slice `%s`" % u(e))
            k = _num_eval(ix, env)
            if not isinstance(k, int) or not isinstance(v, list):
                raise _NotModelled("index `%s`" % u(e))
            v = v[k]
        return v
    if isinstance(e, ast.Call):
        cn = (call_name(e) or "")
        short = cn.split(".")[-1]
        if isinstance(e.func, ast.Attribute) and e.func.attr == "copy" and not e.args and not e.keywords:
            return _num_eval(e.func.value, env)
        args = [_num_eval(a, env) for a in e.args]
        if short in ("array", "asarray", "asanyarray", "ascontiguousarray", "copy", "float", "atleast_2d") and len(args) == 1:
            return args[0]
        if short == "sign" and len(args) == 1:
            return _elementwise(lambda x, _y: (x > 0) - (x < 0), args[0], 0, e)
        if short in ("logical_and", "logical_or") and len(args) == 2:
            return _elementwise((lambda x, y: bool(x) and bool(y)) if short == "logical_and" else (lambda x, y: bool(x) or bool(y)), args[0], args[1], e)
        if short == "logical_not" and len(args) == 1:
            return _elementwise(lambda x, _y: not x, args[0], 0, e)
        if short == "where" and len(args) == 3:
            c_ = args[0]
            if isinstance(c_, list):
                a_ = args[1] if isinstance(args[1], list) else [args[1]] * len(c_)
                b_ = args[2] if isinstance(args[2], list) else [args[2]] * len(c_)
                return [x if k else y for k, x, y in zip(c_, a_, b_)]
            return args[1] if c_ else args[2]
        if short in ("max", "maximum", "fmax") and len(args) == 2 and not any(isinstance(a, list) for a in args):
            return max(args)
        if short in ("min", "minimum", "fmin") and len(args) == 2 and not any(isinstance(a, list) for a in args):
            return min(args)
        if short in ("maximum", "fmax", "minimum", "fmin") and len(args) == 2 and cn.startswith(("np.", "numpy.")):
            return _elementwise(max if short in ("maximum", "fmax") else min, args[0], args[1], e)
        if short in ("all", "any") and len(args) == 1 and not e.keywords:
            flat = _flatten(args[0])
            return all(flat) if short == "all" else any(flat)
        if short in ("max", "min", "amax", "amin") and len(args) == 1 and not e.keywords and isinstance(args[0], list):
            flat = _flatten(args[0])
            return max(flat) if short in ("max", "amax") else min(flat)
        if short in ("abs", "fabs") and len(args) == 1 and not isinstance(args[0], list):
            return abs(args[0])
        if short == "aabb_overlap" and len(args) == 2:
            return all(args[0][k][0] <= args[1][k][1] and args[1][k][0] <= args[0][k][1] for k in range(3))
        raise _NotModelled("call `%s`" % u(e)[:50])
    if isinstance(e, ast.BinOp):
        a, b = _num_eval(e.left, env), _num_eval(e.right, env)
        if isinstance(a, list) or isinstance(b, list):
            fn = {ast.Add: lambda x, y: x + y, ast.Sub: lambda x, y: x - y, ast.Mult: lambda x, y: x * y,
                  ast.BitAnd: lambda x, y: bool(x) and bool(y), ast.BitOr: lambda x, y: bool(x) or bool(y)}.get(type(e.op))
            if fn is None:
                raise _NotModelled("array arithmetic `%s`" % u(e)[:50])
            return _elementwise(fn, a, b, e)
        if isinstance(e.op, ast.Add):
            return a + b
        if isinstance(e.op, ast.Sub):
            return a - b
        if isinstance(e.op, ast.Mult):
            return a * b
        raise _NotModelled("operator in `%s`" % u(e)[:50])
    if isinstance(e, ast.UnaryOp):
        v = _num_eval(e.operand, env)
        if isinstance(e.op, ast.Not):
            if isinstance(v, list):
                raise _NotModelled("truth value of an array `%s`" % u(e)[:50])
            return not v
        if isinstance(e.op, ast.USub):
            return _elementwise(lambda x, _y: -x, v, 0, e) if isinstance(v, list) else -v
        if isinstance(e.op, ast.Invert) and isinstance(v, list):
            return _elementwise(lambda x, _y: not x, v, 0, e)
        raise _NotModelled("operator in `%s`" % u(e)[:50])
    if isinstance(e, ast.BoolOp):
        vals = [_num_eval(v, env) for v in e.values]
        return all(vals) if isinstance(e.op, ast.And) else any(vals)
    if isinstance(e, ast.Compare):
        out = True
        for op, x, y in compare_triples(e):
            a, b = _num_eval(x, env), _num_eval(y, env)
            if isinstance(a, list) or isinstance(b, list):
                if len(compare_triples(e)) != 1:
                    raise _NotModelled("chained array comparison `%s`" % u(e)[:50])
                return _elementwise({"<": lambda p_, q_: p_ < q_, "<=": lambda p_, q_: p_ <= q_, ">": lambda p_, q_: p_ > q_, ">=": lambda p_, q_: p_ >= q_,
                                     "==": lambda p_, q_: p_ == q_, "!=": lambda p_, q_: p_ != q_}[op], a, b, e)
            out = out and {"<": a < b, "<=": a <= b, ">": a > b, ">=": a >= b, "==": a == b, "!=": a != b}[op]
        return out
    raise _NotModelled("expression `%s`" % u(e)[:50])


def _elementwise(fn, a, b, e):
    """numpy broadcasting of nested lists of equal shape (or a scalar against a list)"""
    if isinstance(a, list) and isinstance(b, list):
        if len(a) != len(b):
            raise _NotModelled("shapes in `%s`" % u(e)[:50])
        return [_elementwise(fn, x, y, e) for x, y in zip(a, b)]
    if isinstance(a, list):
        return [_elementwise(fn, x, b, e) for x in a]
    if isinstance(b, list):
        return [_elementwise(fn, a, y, e) for y in b]
    return fn(a, b)


def _flatten(v):
    if isinstance(v, list):
        return [y for x in v for y in _flatten(x)]
    return [v]


def _box_grid():
    """pairs of integer boxes: on one axis all (lo1, hi1, lo2, hi2) in 0..3 with lo <= hi, the other two axes overlapping / touching / apart"""
    import itertools
    other = (((0, 3), (1, 2)), ((0, 1), (1, 2)), ((0, 1), (2, 3)), ((1, 1), (1, 1)), ((1, 1), (0, 2)))
    iv = [(lo, hi) for lo in range(4) for hi in range(lo, 4)]
    for axis in range(3):
        for a1, a2 in itertools.product(iv, iv):
            for o1, o2 in itertools.product(other, other):
                A, B = [None] * 3, [None] * 3
                rest = [k for k in range(3) if k != axis]
                A[axis], B[axis] = list(a1), list(a2)
                A[rest[0]], B[rest[0]] = list(o1[0]), list(o1[1])
                A[rest[1]], B[rest[1]] = list(o2[0]), list(o2[1])
                yield A, B


def _merge_semantic(m, mp):
    """{(row, col): witness or None} from evaluating _merge_aabb on the box grid; None when the body is outside the evaluator's fragment"""
    body = strip_docstring(m.node.body)

    class _Ret(Exception):
        def __init__(self, v):
            self.v = v

    def run(stmts, env):
        for st in stmts:
            if isinstance(st, ast.Assign):
                for t_, v_ in assign_pairs(st):
                    if isinstance(t_, ast.Name):
                        env[t_.id] = _num_eval(v_, env)
                    elif isinstance(t_, ast.Subscript) and isinstance(t_.value, ast.Name) and isinstance(env.get(t_.value.id), list):
                        ix = [_num_eval(x_, env) for x_ in index_elts(t_)]
                        tgt = env[t_.value.id]
                        for i_ in ix[:-1]:
                            tgt = tgt[i_]
                        tgt[ix[-1]] = _num_eval(v_, env)
                    else:
                        raise _NotModelled("store")
            elif isinstance(st, ast.If):
                t = _num_eval(st.test, env)
                if isinstance(t, list):
                    raise _NotModelled("truth value of an array")
                run(st.body if t else st.orelse, env)
            elif isinstance(st, ast.For) and isinstance(st.iter, ast.Call) and call_name(st.iter) == "range" and isinstance(st.target, ast.Name):
                for v in range(*[_num_eval(a_, env) for a_ in st.iter.args]):
                    env[st.target.id] = v
                    run(st.body, env)
            elif isinstance(st, ast.Return):
                raise _Ret(_num_eval(st.value, env))
            elif isinstance(st, (ast.Pass, ast.Assert)):
                continue
            else:
                raise _NotModelled("statement %s" % type(st).__name__)
    out = {(k, c): None for k in range(3) for c in range(2)}
    try:
        for A, B in _box_grid():
            env = {mp[0]: [list(r) for r in A], mp[1]: [list(r) for r in B], "True": True, "False": False}
            try:
                run(body, env)
                got = None
            except _Ret as r:
                got = r.v
            want = [[min(A[k][0], B[k][0]), max(A[k][1], B[k][1])] for k in range(3)]
            if not (isinstance(got, list) and len(got) == 3 and all(isinstance(r_, list) and len(r_) == 2 for r_ in got)):
                return None
            for k in range(3):
                for c in range(2):
                    if got[k][c] != want[k][c] and out[(k, c)] is None:
                        out[(k, c)] = (A, B, got, want)
    except (_NotModelled, KeyError, IndexError, TypeError):
        return None
    return out


def r_wrapper_prefilter(idx, rep, rule="R-TRAVERSE"):
    """the Python methods in front of the compiled traversals (AabbTree.overlaps_aabb / overlaps_aabb_tree): an exit before the query call answers the query
    without a traversal — same obligation as inside the compiled functions, with the root boxes of the two trees (resp. the query box) as the boxes"""
    cls = idx.cls(MOD + "::AabbTree")
    for mname, callee, boxes_of in (("overlaps_aabb", "query_overlap", lambda ps: {"self.get_root_aabb()": "A", "self.aabbs[self.root]": "A", ps[1]: "B"}),
                                    ("overlaps_aabb_tree", "query_overlap_of_other_tree",
                                     lambda ps: {"self.get_root_aabb()": "A", "self.aabbs[self.root]": "A", "%s.get_root_aabb()" % ps[1]: "B", "%s.aabbs[%s.root]" % (ps[1], ps[1]): "B"})):
        f = cls.methods.get(mname)
        if f is None:
            raise AnalysisError("AabbTree.%s vanished" % mname)
        ps = f.params()
        pivot = [st for st in f.node.body if any(isinstance(c, ast.Call) and (call_name(c) or "").split(".")[-1] == callee for c in ast.walk(st))]
        if len(pivot) != 1:
            rep.unknown(rule, f.key + "|no exit before the traversal", f.where, "the call of %s is not a single top-level statement" % callee)
            continue
        r_prefilter(idx, rep, f, f.key, pivot[0], "", boxes_of(ps), ["self.root", "%s.root" % ps[1]], rule=rule)


def r_prefilter(idx, rep, f, fk, loop, stackname, boxes, sentinels, rule="R-TRAVERSE"):
    """boxes: {text of an expression: 'A' | 'B'}; sentinels: names that may be INDEX_NONE (roots)"""
    from ..core.inline import expand_helpers
    C = _consts(idx)
    pm = parent_map(f.node)
    pre = [st for st in f.node.body if st is not loop and st.lineno < loop.lineno]
    seed_seen = False
    effects = []
    for top in pre:
        for st in ast.walk(top):
            if isinstance(st, ast.Return):
                effects.append((st, "returns"))
            elif isinstance(st, ast.Assign) and any(u(t) == stackname for t in st.targets):
                if st in f.node.body and not seed_seen and isinstance(st.value, ast.List):
                    seed_seen = True
                else:
                    effects.append((st, "replaces the stack"))
            elif isinstance(st, ast.Expr) and isinstance(st.value, ast.Call) and (call_name(st.value) or "") in (stackname + ".pop", stackname + ".clear", stackname + ".remove"):
                effects.append((st, "takes the root off the stack"))
            elif isinstance(st, ast.Delete) and any(stackname in u(t) for t in st.targets):
                effects.append((st, "takes the root off the stack"))
    key = fk + "|no exit before the traversal"
    where0 = "%s:%d" % (f.module.relpath, loop.lineno)
    if not effects:
        rep.ok(rule, key, where0, "nothing answers the query before the traversal")
        return
    # local definitions in front of the loop (substituted into the conditions)
    defs = {}
    for top in pre:
        for st in ast.walk(top):
            if isinstance(st, ast.Assign):
                for t_, v_ in assign_pairs(st):
                    if isinstance(t_, ast.Name) and t_.id != stackname:
                        defs[t_.id] = v_

    class Sub(ast.NodeTransformer):
        def visit_Subscript(self, n):
            if u(n) in boxes:
                return ast.Name(id="__box" + boxes[u(n)], ctx=ast.Load())
            return self.generic_visit(n)

        def visit_Call(self, n):
            if u(n) in boxes:
                return ast.Name(id="__box" + boxes[u(n)], ctx=ast.Load())
            return self.generic_visit(n)

        def visit_Name(self, n):
            if u(n) in boxes:
                return ast.Name(id="__box" + boxes[u(n)], ctx=ast.Load())
            if n.id in defs and isinstance(n.ctx, ast.Load):
                return Sub().visit(__import__("copy").deepcopy(defs[n.id]))
            return n
    for st, what in effects:
        where = "%s:%d" % (f.module.relpath, st.lineno)
        chain = _guard_chain(pm, st, f.node)
        atoms = []
        for test, pol in chain:
            if _is_sentinel_test(test, C, sentinels):
                if _sentinel_polarity(test, C) == pol:
                    atoms = None          # only for an empty tree: nothing to find, skipping is right
                    break
                continue                  # 'root is a real node': true in the case we examine
            atoms.append((test, pol))
        if atoms is None:
            rep.ok(rule, key + " (%s)" % what, where, "only for an empty tree")
            continue
        try:
            conds = []
            for test, pol in atoms:
                e = expand_helpers(idx, f.module, test, depth=3)
                for _ in range(4):
                    e = Sub().visit(e)
                e = expand_helpers(idx, f.module, e, depth=3)
                conds.append((e, pol))
            witness = None
            for A, B in _box_grid():
                env = {"__boxA": A, "__boxB": B, "True": True, "False": False}
                if all(bool(_num_eval(e, env)) == pol for e, pol in conds):
                    if all(A[k][0] <= B[k][1] and B[k][0] <= A[k][1] for k in range(3)):
                        witness = (A, B)
                        break
        except _NotModelled as ex:
            rep.unknown(rule, key + " (%s)" % what, where, "the condition in front of the traversal could not be evaluated (%s)" % ex)
            continue
        cond_txt = " and ".join(("" if pol else "not ") + "(" + u(t)[:70] + ")" for t, pol in atoms) or "always"
        rep.check(witness is None, rule, key, where,
                  "before the traversal the function %s when `%s`; for the boxes %s and %s — which overlap under the closed-interval test (touching / flat boxes "
                  "count) — that condition holds, so overlapping leaves are never reported; only a condition that implies `not aabb_overlap(...)` may skip the traversal"
                  % (what, cond_txt, witness[0] if witness else "", witness[1] if witness else ""),
                  "pre-filter `%s` implies non-overlap on all %d grid configurations" % (cond_txt[:60], 3 * 100 * 25))



# ---------------------------------------------------------------------------------------------------------------------------------
# R-BRUTEFORCE: the brute-force broad phase (all_aabbs_overlap) is the reference the tree queries are interchangeable with: it tests EVERY pair (i, j) of the two
# box lists with aabb_overlap(first[i], second[j]) and records i, j and (i, j) for a hit.  Index space enumerated for 0 .. 3 boxes on either side.
def r_bruteforce(idx, rep, rule="R-BRUTEFORCE"):
    from ..core.indexspace import enumerate_function, NotEnumerable
    rep.rule(rule, "all_aabbs_overlap applies aabb_overlap(aabbs1[i], aabbs2[j]) to every pair (i, j) and appends i, j and (i, j) to its three result lists — index "
                   "space of the loop nest enumerated for 0 .. 3 boxes on each side", floor=2)
    f = idx.func(MOD + "::all_aabbs_overlap")
    a1, a2 = f.params()[:2]
    key1 = f.key + "|every pair is tested, first list against second"
    key2 = f.key + "|a hit records i, j and (i, j)"
    bad1 = bad2 = None
    rets = [s_ for s_ in iter_stmts(f.node.body) if isinstance(s_, ast.Return) and isinstance(s_.value, ast.Tuple) and len(s_.value.elts) == 3]
    try:
        for n1 in range(4):
            for n2 in range(4):
                ev = enumerate_function(idx, f, {a1: n1, a2: n2})
                tests = [rows for kind, name, rows in ev if kind == "call" and name == "aabb_overlap"]
                want = {((a1, i), (a2, j)) for i in range(n1) for j in range(n2)}
                got = {tuple(r) for r in tests}
                if bad1 is None and got != want and {tuple(reversed(r)) for r in got} != want:
                    miss = sorted(want - got)[:3]
                    bad1 = "with %d and %d boxes the pairs %s are never tested%s" % (n1, n2, [(x[0][1], x[1][1]) for x in miss], "" if not (got - want) else
                                                                                      "; tested instead: %s" % sorted(got - want)[:3])
                app = {}
                for kind, name, val in ev:
                    if kind == "append":
                        app.setdefault(name, []).append(val)
                lists = sorted(app)
                wi, wj, wp = [i for i in range(n1) for j in range(n2)], [j for i in range(n1) for j in range(n2)], [(i, j) for i in range(n1) for j in range(n2)]
                if bad2 is None and n1 and n2:
                    vals = sorted(map(repr, app.values()))
                    if sorted(map(repr, (wi, wj, wp))) != vals:
                        bad2 = "with %d and %d boxes, assuming every test is a hit, the result lists receive %s; they must receive the first indices %s, the second indices %s and the pairs %s" % (
                            n1, n2, {k: v[:6] for k, v in app.items()}, wi[:6], wj[:6], wp[:6])
    except NotEnumerable as ex:
        rep.unknown(rule, key1, f.where, "index space not enumerable: %s" % ex)
        rep.unknown(rule, key2, f.where, "index space not enumerable: %s" % ex)
        return
    rep.check(bad1 is None, rule, key1, f.where, bad1 or "", "all n1 x n2 pairs")
    rep.check(bad2 is None, rule, key2, f.where, bad2 or "", "i, j, (i, j)")
    # which list is returned where: (indices of the first, indices of the second, pairs)
    if rets and bad2 is None:
        ev = enumerate_function(idx, f, {a1: 2, a2: 3})
        app = {}
        for kind, name, val in ev:
            if kind == "append":
                app.setdefault(name, []).append(val)
        role = {}
        for name, vals in app.items():
            role[name] = "first" if vals == [i for i in range(2) for j in range(3)] else ("second" if vals == [j for i in range(2) for j in range(3)] else "pairs")
        got = []
        for e in rets[-1].value.elts:
            src = {n_.id for n_ in ast.walk(resolved(f.node, e)) if isinstance(n_, ast.Name)} | {n_.id for n_ in ast.walk(e) if isinstance(n_, ast.Name)}
            # follow one more definition level (np.unique(np.array(indices1)))
            src |= {n2_.id for n_ in list(src) for d_ in [resolved(f.node, ast.Name(id=n_, ctx=ast.Load()))] for n2_ in ast.walk(d_) if isinstance(n2_, ast.Name)}
            roles = sorted({role[n_] for n_ in src if n_ in role})
            got.append(roles[0] if len(roles) == 1 else "?")
        rep.check(got == ["first", "second", "pairs"], rule, f.key + "|return order (first indices, second indices, pairs)", "%s:%d" % (f.module.relpath, rets[-1].lineno),
                  "all_aabbs_overlap returns its lists in the order %s; callers unpack (indices of the first list, indices of the second list, pairs)" % got, "first, second, pairs")
