"""Sibling functions that implement the same algorithm for neighbouring primitives must stay the same algorithm."""
import ast
import difflib
import re

from ..core.astutil import u
from ..core.index import AnalysisError


class _CanonCompare(ast.NodeTransformer):
    """a > b  ->  b < a ;  a >= b  ->  b <= a   (single comparisons), so that shapes do not depend on the direction a test is written in"""
    FL = {ast.Gt: ast.Lt, ast.GtE: ast.LtE}

    def visit_Compare(self, node):
        self.generic_visit(node)
        if len(node.ops) == 1 and type(node.ops[0]) in self.FL:
            return ast.Compare(left=node.comparators[0], ops=[self.FL[type(node.ops[0])]()], comparators=[node.left])
        return node


def shape_lines(f, extra_placeholders=()):
    """statement text of f with every local / parameter name replaced by `_` (independent of how locals are called)"""
    import copy
    f_node = ast.fix_missing_locations(_CanonCompare().visit(copy.deepcopy(f.node)))
    L = {n.id for n in ast.walk(f.node) if isinstance(n, ast.Name) and isinstance(n.ctx, ast.Store)} | set(f.params()) | set(extra_placeholders)
    body = [s for s in f_node.body if not (isinstance(s, ast.Expr) and isinstance(s.value, ast.Constant))]
    txt = "\n".join(ast.unparse(s) for s in body)
    return re.sub(r"[A-Za-z_][A-Za-z_0-9]*", lambda m: "_" if m.group(0) in L else m.group(0), txt).splitlines()


def r_segsibling(idx, rep, rule="R-SEGSIBLING"):
    """_line_to_line_segment is _line_segment_to_line_segment (Ericson 5.1.9) with the first primitive unbounded: the same statements, minus the
    clamping of the line parameter.  The parallel / degenerate branches in particular must agree."""
    rep.rule(rule, "_line_to_line_segment and _line_segment_to_line_segment are the same algorithm: they differ only in the clamping of the first "
                   "parameter (t unclamped for a line), the extra direction of the second segment and the arity of the result", floor=1)
    m = idx.module("distance3d.distance._line")
    a = m.functions.get("_line_to_line_segment")
    b = m.functions.get("_line_segment_to_line_segment")
    if a is None or b is None:
        raise AnalysisError("_line_to_line_segment / _line_segment_to_line_segment not found")
    # one-expression private helpers (`_clamp_to_unit_interval(x)` = min(max(x, 0.0), 1.0)) are read as the expression they return
    import copy as _copy
    from ..core.inline import expand_helpers as _expand
    a2, b2 = _copy.copy(a), _copy.copy(b)
    a2.node = _expand(idx, m, a.node, depth=2, only=lambda c: c.name.startswith("_"))
    b2.node = _expand(idx, m, b.node, depth=2, only=lambda c: c.name.startswith("_"))
    la, lb = shape_lines(a2), shape_lines(b2)
    # an inner product of two locals is one more local: whether it is named first (`b = np.dot(d1, d2)`) or written in place is not part of the algorithm
    la = [x for x in (l.replace("np.dot(_, _)", "_") for l in la) if x.strip() != "_ = _"]
    lb = [x for x in (l.replace("np.dot(_, _)", "_") for l in lb) if x.strip() != "_ = _"]

    def allowed(sign, line):
        t = line.strip()
        if t.startswith("return (np.linalg.norm(_ - _), _, _"):
            return True
        if sign == "+" and t == "_ = _ - _":
            return True                                  # d2 = segment_end2 - segment_start2
        if t in ("_ = _ / _", "_ = min(max(_ / _, 0.0), 1.0)"):
            return True                                  # t = f / e   vs  clamped
        if sign == "+" and t in ("if _ < 0.0:", "elif 1.0 < _:", "_ = 0.0", "_ = 1.0", "_ = min(max(-_ / _, 0.0), 1.0)", "_ = min(max((_ - _) / _, 0.0), 1.0)"):
            return True                                  # the t-clamp tail of the segment/segment variant
        return False
    bad = []
    for l in difflib.unified_diff(la, lb, lineterm="", n=0):
        if l.startswith(("---", "+++", "@@")):
            continue
        if not allowed(l[0], l[1:]):
            bad.append(l)
    from ..core.astutil import sibling_verdict
    sibling_verdict(rep, rule, "%s|same algorithm as %s" % (a.key, b.name), a.where, bad,
                    "the two closest-point routines diverge beyond the clamping of the line parameter: %s (`-` line/segment, `+` segment/segment; names shown as `_`) — e.g. a "
                    "parallel branch that fixes t and projects the reference point returns the distance from one POINT of the line to the segment, not the line's distance"
                    % bad[:5], "%d / %d lines" % (len(la), len(lb)), small=4)
