"""R-ISOLATED: a case analysis over one scalar (an if / elif chain, or boolean masks selecting the rows of an array update) against numeric
thresholds must not leave a single threshold VALUE to the fall-through case while the values just below and just above it are handled by
explicit cases.  `0 < t < 1 -> project`, `t > 1 -> end point`, otherwise start point sends t == 1.0 exactly to the start point: the
strict / non-strict slip of a rewritten clamp.  Decided by evaluating the case conditions on the finite set of order types of the scalar
relative to the thresholds (below c1, at c1, between, at c2, ..., above cn) — nothing of the repository is executed."""
import ast

from ..core.astutil import u, call_name, const, compare_triples
from ..core.index import AnalysisError


class _No(Exception):
    pass


def _thresholds(e, var):
    out = set()
    for n in ast.walk(e):
        if isinstance(n, ast.Compare):
            for op, a, b in compare_triples(n):
                for x, y in ((a, b), (b, a)):
                    if u(x) == var and isinstance(const(y), (int, float)) and not isinstance(const(y), bool):
                        out.add(float(const(y)))
    return out


def _vars(e):
    """texts compared with a numeric constant inside a condition"""
    out = set()
    for n in ast.walk(e):
        if isinstance(n, ast.Compare):
            for op, a, b in compare_triples(n):
                for x, y in ((a, b), (b, a)):
                    if isinstance(const(y), (int, float)) and not isinstance(const(y), bool) and isinstance(x, (ast.Name, ast.Subscript, ast.Attribute)):
                        out.add(u(x))
    return out


def _ev(e, var, val):
    if isinstance(e, ast.BoolOp):
        vals = [_ev(v, var, val) for v in e.values]
        return all(vals) if isinstance(e.op, ast.And) else any(vals)
    if isinstance(e, ast.UnaryOp) and isinstance(e.op, (ast.Not, ast.Invert)):
        return not _ev(e.operand, var, val)
    if isinstance(e, ast.BinOp) and isinstance(e.op, (ast.BitAnd, ast.BitOr)):
        a, b = _ev(e.left, var, val), _ev(e.right, var, val)
        return (a and b) if isinstance(e.op, ast.BitAnd) else (a or b)
    if isinstance(e, ast.Call):
        short = (call_name(e) or "").split(".")[-1]
        if short == "logical_and" and len(e.args) == 2:
            return _ev(e.args[0], var, val) and _ev(e.args[1], var, val)
        if short == "logical_or" and len(e.args) == 2:
            return _ev(e.args[0], var, val) or _ev(e.args[1], var, val)
        if short == "logical_not" and len(e.args) == 1:
            return not _ev(e.args[0], var, val)
        raise _No()
    if isinstance(e, ast.Compare):
        out = True
        for op, a, b in compare_triples(e):
            if u(a) == var and isinstance(const(b), (int, float)):
                x, y = val, float(const(b))
            elif u(b) == var and isinstance(const(a), (int, float)):
                x, y = float(const(a)), val
            else:
                raise _No()
            out = out and {"<": x < y, "<=": x <= y, ">": x > y, ">=": x >= y, "==": x == y, "!=": x != y}[op]
        return out
    raise _No()


def isolated_points(conds, var):
    """threshold values that no condition selects although the values just below and just above are selected; None when not evaluable"""
    ths = sorted(set().union(*[_thresholds(c, var) for c in conds]))
    if not ths:
        return None
    pts = [ths[0] - 1.0]
    for i, c in enumerate(ths):
        pts.append(c)
        pts.append((c + ths[i + 1]) / 2.0 if i + 1 < len(ths) else c + 1.0)
    try:
        cov = [any(_ev(c, var, v) for c in conds) for v in pts]
    except _No:
        return None
    iso = [i for i in range(1, len(pts) - 1, 2) if not cov[i] and cov[i - 1] and cov[i + 1]]
    # a fall-through that handles ONLY the isolated value is a deliberate three-way split (x < 0 / x > 0 / else: x == 0); the slip is a
    # fall-through that was written for a whole range and silently receives the isolated value as well
    rest = [i for i in range(len(pts)) if not cov[i] and i not in iso]
    return [pts[i] for i in iso] if rest else []


def _chains(f):
    """if / elif chains with at least two explicit branches: [(first If node, [tests], has_else)]"""
    out = []
    inner = set()
    for n in ast.walk(f.node):
        if isinstance(n, ast.If) and n not in inner:
            tests, cur = [n.test], n
            while len(cur.orelse) == 1 and isinstance(cur.orelse[0], ast.If):
                cur = cur.orelse[0]
                inner.add(cur)
                tests.append(cur.test)
            if len(tests) >= 2:
                out.append((n, tests))
    return out


def _mask_groups(f):
    """{(target array text, scalar text): [(stmt, mask expr)]} for statements  X[mask] = / op=  with masks over one scalar"""
    defs = {}
    for st in ast.walk(f.node):
        if isinstance(st, ast.Assign) and len(st.targets) == 1 and isinstance(st.targets[0], ast.Name):
            defs.setdefault(st.targets[0].id, []).append(st.value)
    groups = {}
    for st in ast.walk(f.node):
        tgt = st.target if isinstance(st, ast.AugAssign) else (st.targets[0] if isinstance(st, ast.Assign) and len(st.targets) == 1 else None)
        if not isinstance(tgt, ast.Subscript):
            continue
        m = tgt.slice
        if isinstance(m, ast.Tuple) and m.elts:
            m = m.elts[0]
        if isinstance(m, ast.Name) and len(defs.get(m.id, [])) == 1:
            m = defs[m.id][0]
        vs = _vars(m)
        if len(vs) == 1:
            groups.setdefault((u(tgt.value), sorted(vs)[0]), []).append((st, m))
    return {k: v for k, v in groups.items() if len(v) >= 2}


def _self_check():
    bad = ast.parse("def f(t, x, a, b):\n    x[np.logical_and(t > 0.0, t < 1.0)] += a\n    x[t > 1.0] += b\n").body[0]
    good = ast.parse("def f(t, x, a, b):\n    x[np.logical_and(t > 0.0, t < 1.0)] += a\n    x[t >= 1.0] += b\n").body[0]

    class F:
        def __init__(self, node):
            self.node = node
    gb, gg = _mask_groups(F(bad)), _mask_groups(F(good))
    if not gb or isolated_points([m for _, m in list(gb.values())[0]], "t") != [1.0] or isolated_points([m for _, m in list(gg.values())[0]], "t") != []:
        raise AnalysisError("R-ISOLATED: the built-in positive / negative examples are no longer recognised")


def r_isolated(idx, rep, modules, rule="R-ISOLATED", floor=0):
    rep.rule(rule, "case analyses over one scalar against numeric thresholds (if / elif chains, boolean row masks of an array update) leave no single threshold "
                   "value to the fall-through case while its two neighbourhoods are handled explicitly (the strict / non-strict slip of a rewritten clamp); "
                   "evaluated on the order types of the scalar relative to the thresholds", floor=floor)
    _self_check()
    for mname in modules:
        m = idx.modules.get(mname)
        if m is None:
            continue
        for f in m.functions.values():
            if "<locals>" in f.qualname:
                continue
            k = 0
            for node, tests in _chains(f):
                common = set.intersection(*[_vars(t) for t in tests]) if all(_vars(t) for t in tests) else set()
                for var in sorted(common):
                    iso = isolated_points(tests, var)
                    if iso is None:
                        continue
                    k += 1
                    key = "%s|if-chain #%d over %s" % (f.key, k, var)
                    rep.check(not iso, rule, key, "%s:%d" % (m.relpath, node.lineno),
                              "the branches `%s` handle %s just below and just above %s explicitly, but %s == %s itself satisfies none of them and falls through to the "
                              "remaining case, which also handles a whole range of other values (it was written for that range)" % (" / ".join(u(t)[:40] for t in tests), var, iso, var, iso[0] if iso else ""),
                              "%d branches" % len(tests))
            for (arr, var), items in sorted(_mask_groups(f).items()):
                iso = isolated_points([mk for _, mk in items], var)
                if iso is None:
                    continue
                k += 1
                key = "%s|row masks of %s over %s" % (f.key, arr, var)
                rep.check(not iso, rule, key, "%s:%d" % (m.relpath, items[0][0].lineno),
                          "the masks `%s` update the rows of %s just below and just above %s = %s, but rows with %s == %s exactly are selected by none of them and keep "
                          "the default that was meant for the other end of the range (a point that projects exactly onto the end of the segment is measured "
                          "against the start)" % (" / ".join(u(mk)[:45] for _, mk in items), arr, var, iso, var, iso[0] if iso else ""),
                          "%d masks" % len(items))
