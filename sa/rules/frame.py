"""R-FRAME: coordinate-frame consistency (engine E2) + world-frame return contracts + R-WORLDAABB."""
import ast

from ..core.astutil import u, iter_stmts, calls
from ..core.index import numpydoc_params, AnalysisError
from ..engines.frames import Frames, pose_frames, in_frame, norm_frame

SKIP = ("distance3d.plotting", "distance3d.visualization", "distance3d.random", "distance3d.io", "distance3d.benchmark", "distance3d.urdf_utils")
EXCEPTIONS = {}


def run_engine(idx, modules=None):
    fr = Frames(idx)
    rets = {}
    for f in idx.all_functions():
        if "<locals>" in f.qualname or f.module.name in SKIP:
            continue
        if modules is not None and f.module.name not in modules:
            continue
        if f.name.startswith("_") and not f.name.startswith("__") and f.cls is None:
            continue   # private module functions: analysed from their call sites
        rets[f.key] = fr.analyse(f)
    return fr, rets


def r_frame(idx, rep, fr_rets=None, modules=None, rule="R-FRAME", floor=40):
    rep.rule(rule, "coordinate frames are consistent: a rotation/pose a->b is only applied to vectors expressed in a (row-vector "
                   "products use the transposed convention), sums/differences/dot/cross combine vectors of one frame, values bound to "
                   "`*_in_<frame>` / `<a>2<b>` names have that frame, and the wrench rule of adjoint_from_transform's docstring holds",
             floor=floor)
    fr, rets = fr_rets or run_engine(idx, None)
    bad_funcs = set()
    for k, c in sorted(fr.conflicts.items()):
        if modules is not None and c.func.module.name not in modules:
            continue
        if k in EXCEPTIONS:
            rep.note("R-FRAME exception %s: %s" % (k, EXCEPTIONS[k]))
            continue
        bad_funcs.add(c.func.key)
        rep.bad(rule, k, "%s:%d" % (c.func.module.relpath, c.node.lineno), c.what)
    for fk in sorted(rets):
        mod = fk.split("::")[0]
        if modules is not None and mod not in modules:
            continue
        if fk not in bad_funcs:
            rep.ok(rule, fk, mod, "no frame conflict")
    rep.extra.setdefault("frame_engine", {}).update({"expressions": fr.n_expr, "known": fr.n_known, "typed_products": fr.n_products,
                                                     "wrench_rule_armed": fr.wrench_rule})
    return fr, rets


def _vec_frames(v, affs=None):
    """frames (and affine kinds) of the vector-like parts of a return value"""
    out = []
    if v is None:
        return [None]
    if v.kind == "tuple":
        for e in v.elts:
            if e is not None and e.kind in ("vec", "tuple"):
                out.extend(_vec_frames(e, affs))
            elif e is None:
                out.append(None)
        return out
    if v.kind == "vec":
        if affs is not None:
            affs.append(v.aff)
        return [v.a]
    return []


def r_frame_contracts(idx, rep, fr_rets, families, rule="R-FRAMERET", floor=5, unknown_ceiling=None):
    rep.rule(rule, "public functions that take a pose return their points / directions / bounds in the pose's TARGET frame "
                   "(world), never in the local frame; utils.transform_point / inverse_transform_point return the frame their "
                   "numpydoc Returns name states", floor=floor, unknown_ceiling=unknown_ceiling)
    fr, rets = fr_rets
    G = "distance3d.geometry"
    todo = []
    if "support" in families:
        for f in idx.module(G).functions.values():
            if f.name.startswith("support_function_") or f.name in ("convert_box_to_vertices",):
                todo.append((f, None))
        for ci in idx.subclasses("distance3d.colliders::ConvexCollider"):
            for mname in ("support_function", "first_vertex", "center"):
                m = ci.methods.get(mname)
                if m is not None:
                    todo.append((m, "origin"))
        for cname in ("MeshHillClimbingSupportFunction", "MeshSupportFunction"):
            ci = idx.module("distance3d.mesh").classes.get(cname)
            if ci and "__call__" in ci.methods:
                todo.append((ci.methods["__call__"], "origin"))
    if "aabb" in families:
        for f in idx.module("distance3d.containment").functions.values():
            if f.name.endswith("_aabb"):
                todo.append((f, None))
        for ci in idx.subclasses("distance3d.colliders::ConvexCollider"):
            m = ci.methods.get("aabb")
            if m is not None:
                todo.append((m, "origin"))
    if "distance" in families:
        for mname in ("_box", "_line_to_box", "_cylinder", "_ellipsoid"):
            m = idx.module("distance3d.distance." + mname)
            for f in m.functions.values():
                if not f.name.startswith("_") and any(pose_frames(p) for p in f.params()):
                    todo.append((f, None))
    frames_only = set()
    if "geometry" in families:
        # every other public function of geometry.py that takes a pose (convert_box_to_face, convert_rectangle_to_segment, ...): the returned points AND directions
        # are expressed in the pose's target frame; `pose[js, :3]` (rows of the rotation) are directions of the SOURCE frame
        for f in idx.module(G).functions.values():
            if not f.name.startswith("_") and not f.name.startswith("support_function_") and f.name != "convert_box_to_vertices" and any(pose_frames(p) for p in f.params()):
                todo.append((f, None))
                frames_only.add(f.key)
    if "utils" in families:
        for name in ("transform_point", "transform_points", "transform_directions", "inverse_transform_point"):
            f = idx.func("distance3d.utils::" + name)
            pf = [pose_frames(p) for p in f.params() if pose_frames(p)]
            if not pf:
                raise AnalysisError("%s has no pose parameter any more" % f.key)
            # transform_* map into the pose's target frame, inverse_* into its source frame
            want = pf[0][0] if "inverse" in f.name else pf[0][1]
            todo.append((f, want))
    for f, want in todo:
        if want is None:
            dsts = [pose_frames(p)[1] for p in f.params() if pose_frames(p)]
            want = dsts[0] if dsts else None
        if want is None:
            continue
        got = rets.get(f.key)
        if f.key not in rets:
            got = fr.analyse(f)
        affs = []
        frames = _vec_frames(got, affs)
        key = "%s|returns frame %s" % (f.key, want)
        known = [x for x in frames if x is not None]
        not_points = [a for a in affs if a in ("D", "RP", "RT", "DB")]
        is_direction_result = f.name in ("transform_directions",) or f.key in frames_only
        if not_points and not is_direction_result:
            why = {"D": "a direction / offset", "RP": "a rotated position that still lacks the pose's translation", "RT": "a rotated translation",
                   "DB": "an offset from a frame origin"}[not_points[0]]
            rep.bad(rule, key, f.where, "%s must return a POINT of the frame `%s` but returns %s: the translation part of the pose was dropped "
                                        "(results are only right for poses at the origin)" % (f.name, want, why))
        elif any(x != norm_frame(want) for x in known):
            rep.bad(rule, key, f.where, "%s returns a quantity expressed in frame %s; its contract is the frame `%s` (a result left in the local frame, "
                                        "or a pose applied the wrong way round)" % (f.name, sorted(set(known)), want))
        elif not known or None in frames:
            rep.unknown(rule, key, f.where, "return frame not fully inferred (%r)" % (got,))
        else:
            rep.ok(rule, key, f.where, "%r" % (got,))


def r_worldaabb(idx, rep, rule="R-WORLDAABB"):
    rep.rule(rule, "hydroelastic RigidBody.aabb() must bound the body in the WORLD frame: the chain aabb() -> aabb_tree -> aabbs -> "
                   "tetrahedra_points -> vertices_ has to apply body2origin_ somewhere (vertices_ are stored in the body frame: "
                   "express_in re-expresses them by body2new_body)", floor=1)
    ci = idx.cls("distance3d.hydroelastic_contact._rigid_body::RigidBody")
    ab = ci.methods.get("aabb")
    if ab is None:
        raise AnalysisError("RigidBody.aabb vanished")
    # are vertices_ stored in the body frame?  express_in assigns them from transform_points(<x>2new_body, self.vertices_)
    ex = ci.methods.get("express_in")
    body_frame = False
    if ex is not None:
        for st in iter_stmts(ex.node.body):
            if isinstance(st, ast.Assign) and u(st.targets[0]) == "self.vertices_" and isinstance(st.value, ast.Call) and "transform_points" in u(st.value.func):
                body_frame = True
    if not body_frame:
        rep.unknown(rule, ci.key + ".aabb|vertices frame", ab.where, "could not confirm that vertices_ are kept in the body frame")
        return
    seen, todo, uses_pose = set(), ["aabb"], False
    chain = []
    while todo:
        name = todo.pop()
        if name in seen or name not in ci.methods:
            continue
        seen.add(name)
        chain.append(name)
        m = ci.methods[name]
        for n in ast.walk(m.node):
            if isinstance(n, ast.Attribute) and isinstance(n.value, ast.Name) and n.value.id == "self":
                if n.attr == "body2origin_":
                    uses_pose = True
                elif n.attr in ci.methods:
                    todo.append(n.attr)
    reaches_vertices = any("vertices_" in u(ci.methods[n].node) for n in chain)
    rep.check(uses_pose or not reaches_vertices, rule, ci.key + ".aabb|world frame", ab.where,
              "RigidBody.aabb() is computed from %s without ever applying body2origin_: the box bounds the body-frame vertices, not the "
              "body in the world frame (the hydroelastic BVH compares it with world-frame boxes; update_pose does not touch it either)"
              % " -> ".join(chain))
