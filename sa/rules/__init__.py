"""Rule modules.

Every rule function `r_*` is wrapped at import time: an AnalysisError raised INSIDE a rule because the body of an anchor function no longer
has the shape the rule reads (loops moved into helpers, results built elsewhere, ...) is not a verdict about the property and not a broken
analysis either — the function exists, it was restructured.  The rule then records ONE `UNKNOWN` instance ("structure not recognised:
<reason>") and the check goes on with the other rules.  A vanished anchor (the function / class / module itself is gone: raised by the Index)
stays fatal and fails the run with exit 2."""
import functools
import importlib
import inspect
import pkgutil

from ..core.index import AnalysisError


def _wrap(fn, modname):
    sig = inspect.signature(fn)
    default_rule = sig.parameters["rule"].default if "rule" in sig.parameters and sig.parameters["rule"].default is not inspect.Parameter.empty else None

    @functools.wraps(fn)
    def guarded(*args, **kwargs):
        try:
            return fn(*args, **kwargs)
        except AnalysisError as e:
            if getattr(e, "fatal", False) or "vanished" in str(e) or "cannot parse" in str(e):
                raise
            rep = None
            for a in list(args) + list(kwargs.values()):
                if hasattr(a, "rules") and hasattr(a, "unknown") and hasattr(a, "instances"):
                    rep = a
            if rep is None:
                raise
            rule = kwargs.get("rule") or default_rule
            if rule is None:
                # the rule name is the one most recently declared by this function (rep.rule(...) precedes the analysis), else the function's name
                rule = getattr(rep, "_last_rule", None) or ("R-" + fn.__name__[2:].upper())
            if rule not in rep.rules:
                rep.rule(rule, "(structure of the anchor not recognised)", floor=0)
            rep.rules[rule]["floor"] = 0
            rep.unknown(rule, "%s|structure not recognised" % rule, "%s.%s" % (modname, fn.__name__),
                        "the anchor was restructured beyond what this rule reads (%s): its clauses are not decided on this tree" % str(e)[:200])
            rep.note("%s: not decided — %s" % (rule, str(e)[:160]))
            return None
    guarded.__wrapped_rule__ = True
    return guarded


def _install():
    for info in pkgutil.iter_modules(__path__):
        mod = importlib.import_module("%s.%s" % (__name__, info.name))
        for name, obj in list(vars(mod).items()):
            if name.startswith("r_") and inspect.isfunction(obj) and obj.__module__ == mod.__name__ and not getattr(obj, "__wrapped_rule__", False):
                setattr(mod, name, _wrap(obj, info.name))


_install()
